import sys, os
sys.path.insert(0, os.getcwd())
from liquer import *
from liquer.cache import MemoryCache, FileCache, SQLCache, StoreCache, set_cache
import tempfile
from liquer.store import MemoryStore
from liquer.context import get_context
from liquer.commands import reset_command_registry

reset_command_registry()
state = {"B_done": False, "C_result": None, "C_done": False}

@first_command
def hello():
    return "hello"

@command
def up(x):
    if not state["B_done"]:
        state["B_done"] = True
        # evaluation B of the same key runs to completion inside A's window (A missed the cache earlier)
        get_context().evaluate("hello/up")
    return x.upper()

@command
def excl(x):
    return x + "!"

KIND = sys.argv[1] if len(sys.argv) > 1 else "memory"
BASE = {"memory": MemoryCache, "file": FileCache, "sql": SQLCache, "store": StoreCache}[KIND]
class Sched(BASE):
    def store_metadata(self, metadata):
        key = metadata.get("query")
        had_data = key == "hello/up" and self.get(key) is not None
        r = super().store_metadata(metadata)
        if metadata.get("query") == "hello/up" and had_data and not state["C_done"] and metadata.get("status") == "ready":
            # A has just reported progress (status ready) over the entry B finished; A has not stored yet: run C in this window
            state["C_done"] = True
            try:
                c = get_context().evaluate("hello/up/excl")
                state["C_result"] = ("value", c.get()) if not c.is_error else ("error", c.metadata.get("message"))
            except Exception as e:
                state["C_result"] = ("raised", repr(e))
        return r

tmp = tempfile.mkdtemp()
set_cache(Sched() if KIND == 'memory' else Sched(tmp) if KIND == 'file' else Sched(MemoryStore(), path='cache') if KIND == 'store' else None)
a = get_context().evaluate("hello/up")
alone = "HELLO!"
print("A:", a.get(), " C:", state["C_result"])
if state["C_result"] == ("value", alone):
    print("PROPERTY HOLDS"); sys.exit(0)
print("PROPERTY VIOLATED: evaluation C of hello/up/excl returned", state["C_result"], "alone it returns", alone); sys.exit(1)
