"""Engine E3: statement-level control-flow graph for one function, with
reachability-under-removal queries (dominance, must-pass-through, precedence,
edge dominance) and reaching definitions (E4, syntactic).

Node kinds
  entry            function entry
  stmt             a simple statement (Assign, AugAssign, AnnAssign, Expr, Assert, Pass, Delete,
                   Import, Global, nested def/class as a single node ...)
  test             the test of an If / While (edges labelled 'T' / 'F')
  for              a For header (edges 'T' = next item into body, 'F' = exhausted)
  with             a With header
  try              a Try header (pseudo node)
  except           an exception handler header
  return / raise   Return / Raise statements
  falloff          implicit `return None` at the end of the function
  exit             single sink reached from return / falloff
  xexit            single sink reached from an uncaught raise

Exceptional flow: every node created inside a `try` body has an 'exc' edge to every
handler of that try (and a Raise inside a try body whose handlers do not include a
catch-all also continues to the enclosing handlers / xexit). Implicit exceptions
outside a try are not modelled (documented limitation; rules that need "call may
raise" say so).
"""
import ast
from .core import AnalysisError, U, walk_no_nested


class Node:
    __slots__ = ("id", "kind", "ast", "lineno")

    def __init__(self, id, kind, astnode):
        self.id, self.kind, self.ast = id, kind, astnode
        self.lineno = getattr(astnode, "lineno", 0)

    def __repr__(self):
        t = U(self.ast).split("\n")[0][:60] if self.ast is not None else ""
        return f"<{self.id}:{self.kind}@{self.lineno} {t}>"


def _catch_all(handler):
    if handler.type is None:
        return True
    names = []
    t = handler.type
    for e in (t.elts if isinstance(t, ast.Tuple) else [t]):
        names.append(U(e))
    return any(n in ("Exception", "BaseException") for n in names)


class CFG:
    def __init__(self, fn):
        self.fn = fn
        self.nodes = []
        self.succ = {}      # id -> list[(id, label)]
        self.pred = {}
        self.owner = {}     # id(ast node) -> cfg node id   (own expression parts)
        self.stmt_node = {}  # id(ast stmt) -> cfg node id (header node for compound statements)
        self._loops = []     # (continue_target_id, break_pending_list)
        self._tries = []     # list of (handler node ids, has catch-all) (innermost last)
        self.entry = self._new("entry", None)
        self.exit = self._new("exit", None)
        self.xexit = self._new("xexit", None)
        pend = self._block(fn.body, [(self.entry, "next")])
        self.falloff = self._new("falloff", None)
        for p, lab in pend:
            self._edge(p, self.falloff, lab)
        self._edge(self.falloff, self.exit, "next")
        # falloff only meaningful if reachable
        self._reach_cache = {}

    # ---- construction
    def _new(self, kind, astnode):
        n = Node(len(self.nodes), kind, astnode)
        self.nodes.append(n)
        self.succ[n.id] = []
        self.pred[n.id] = []
        return n.id

    def _edge(self, a, b, label="next"):
        if (b, label) not in self.succ[a]:
            self.succ[a].append((b, label))
            self.pred[b].append((a, label))

    def _own(self, nid, *astparts):
        for part in astparts:
            if part is None:
                continue
            for sub in walk_no_nested(part, include_lambda=True):
                self.owner.setdefault(id(sub), nid)

    def _exc_edges(self, nid, is_raise=False):
        """Connect a node inside try bodies to the handlers that may catch what it raises."""
        if not self._tries:
            if is_raise:
                self._edge(nid, self.xexit, "raise")
            return
        for handlers, catch_all in reversed(self._tries):
            for h in handlers:
                self._edge(nid, h, "exc")
            if catch_all:
                return
            if not is_raise:
                return  # implicit exceptions: only the innermost try is modelled
        if is_raise:
            self._edge(nid, self.xexit, "raise")

    def _connect(self, pend, nid):
        for p, lab in pend:
            self._edge(p, nid, lab)

    def _block(self, stmts, pend):
        for st in stmts:
            pend = self._stmt(st, pend)
        return pend

    def _stmt(self, st, pend):
        if isinstance(st, ast.If):
            t = self._new("test", st.test)
            self.stmt_node[id(st)] = t
            self._own(t, st.test)
            self._connect(pend, t)
            self._exc_edges(t)
            out = self._block(st.body, [(t, "T")])
            out += self._block(st.orelse, [(t, "F")])
            return out
        if isinstance(st, ast.While):
            t = self._new("test", st.test)
            self.stmt_node[id(st)] = t
            self._own(t, st.test)
            self._connect(pend, t)
            self._exc_edges(t)
            brk = []
            self._loops.append((t, brk))
            body_out = self._block(st.body, [(t, "T")])
            self._loops.pop()
            for p, lab in body_out:
                self._edge(p, t, lab)
            const_true = isinstance(st.test, ast.Constant) and bool(st.test.value)
            out = [] if const_true else self._block(st.orelse, [(t, "F")]) if st.orelse else [(t, "F")]
            return out + brk
        if isinstance(st, (ast.For, ast.AsyncFor)):
            h = self._new("for", st)
            self.stmt_node[id(st)] = h
            self._own(h, st.iter, st.target)
            self._connect(pend, h)
            self._exc_edges(h)
            brk = []
            self._loops.append((h, brk))
            body_out = self._block(st.body, [(h, "T")])
            self._loops.pop()
            for p, lab in body_out:
                self._edge(p, h, lab)
            out = self._block(st.orelse, [(h, "F")]) if st.orelse else [(h, "F")]
            return out + brk
        if isinstance(st, (ast.With, ast.AsyncWith)):
            w = self._new("with", st)
            self.stmt_node[id(st)] = w
            for it in st.items:
                self._own(w, it.context_expr, it.optional_vars)
            self._connect(pend, w)
            self._exc_edges(w)
            return self._block(st.body, [(w, "next")])
        if isinstance(st, ast.Try) or st.__class__.__name__ == "TryStar":
            tn = self._new("try", None)
            self.stmt_node[id(st)] = tn
            self._connect(pend, tn)
            hnodes = []
            for h in st.handlers:
                hn = self._new("except", h)
                self.stmt_node[id(h)] = hn
                self._own(hn, h.type)
                hnodes.append(hn)
            catch_all = any(_catch_all(h) for h in st.handlers)
            self._tries.append((hnodes, catch_all))
            body_out = self._block(st.body, [(tn, "next")])
            self._tries.pop()
            if st.orelse:
                body_out = self._block(st.orelse, body_out)
            outs = list(body_out)
            for h, hn in zip(st.handlers, hnodes):
                outs += self._block(h.body, [(hn, "next")])
            if st.finalbody:
                outs = self._block(st.finalbody, outs)
            return outs
        if isinstance(st, ast.Return):
            r = self._new("return", st)
            self.stmt_node[id(st)] = r
            self._own(r, st.value)
            self._connect(pend, r)
            self._exc_edges(r)
            self._edge(r, self.exit, "return")
            return []
        if isinstance(st, ast.Raise):
            r = self._new("raise", st)
            self.stmt_node[id(st)] = r
            self._own(r, st.exc, st.cause)
            self._connect(pend, r)
            self._exc_edges(r, is_raise=True)
            return []
        if isinstance(st, ast.Break):
            b = self._new("stmt", st)
            self.stmt_node[id(st)] = b
            self._connect(pend, b)
            if not self._loops:
                raise AnalysisError("break outside loop")
            self._loops[-1][1].append((b, "break"))
            return []
        if isinstance(st, ast.Continue):
            c = self._new("stmt", st)
            self.stmt_node[id(st)] = c
            self._connect(pend, c)
            self._edge(c, self._loops[-1][0], "continue")
            return []
        if isinstance(st, ast.Match):
            raise AnalysisError("match statement not supported by the CFG builder")
        # simple statement (incl. nested def / class as one node)
        s = self._new("stmt", st)
        self.stmt_node[id(st)] = s
        if isinstance(st, (ast.FunctionDef, ast.AsyncFunctionDef, ast.ClassDef)):
            self.owner[id(st)] = s
        else:
            self._own(s, st)
        self._connect(pend, s)
        self._exc_edges(s)
        if isinstance(st, ast.Assert):
            pass  # assert failure not modelled as control flow (asserts are not guards)
        return [(s, "next")]

    # ---- lookup
    def node_of(self, astnode):
        """CFG node that evaluates the given AST node (statement or sub-expression)."""
        nid = self.stmt_node.get(id(astnode))
        if nid is None:
            nid = self.owner.get(id(astnode))
        if nid is None:
            raise AnalysisError(f"AST node not in CFG: {U(astnode)[:60]}")
        return nid

    def find(self, pred):
        return [n.id for n in self.nodes if n.ast is not None and pred(n)]

    def returns(self):
        return [n.id for n in self.nodes if n.kind == "return"]

    def raises(self):
        return [n.id for n in self.nodes if n.kind == "raise"]

    def normal_exits(self):
        """return nodes + falloff (if reachable)"""
        out = self.returns()
        if self.falloff in self.reachable(self.entry):
            out.append(self.falloff)
        return out

    # ---- queries
    def reachable(self, src, avoid=(), avoid_edges=(), follow_exc=True):
        avoid = set(avoid)
        avoid_edges = set(avoid_edges)
        if isinstance(src, int):
            src = [src]
        seen = set()
        stack = [s for s in src if s not in avoid]
        while stack:
            n = stack.pop()
            if n in seen:
                continue
            seen.add(n)
            for m, lab in self.succ[n]:
                if m in avoid or (n, m, lab) in avoid_edges or (n, lab) in avoid_edges:
                    continue
                if not follow_exc and lab == "exc":
                    continue
                if m not in seen:
                    stack.append(m)
        return seen

    def succ_reach(self, src, **kw):
        """nodes reachable from src by at least one edge"""
        starts = []
        avoid = set(kw.get("avoid", ()))
        avoid_edges = set(kw.get("avoid_edges", ()))
        for m, lab in self.succ[src]:
            if m in avoid or (src, m, lab) in avoid_edges or (src, lab) in avoid_edges:
                continue
            if not kw.get("follow_exc", True) and lab == "exc":
                continue
            starts.append(m)
        return self.reachable(starts, **kw)

    def is_reachable(self, nid):
        return nid in self.reachable(self.entry)

    def dominates(self, a, b):
        """every path entry -> b passes through a"""
        if a == b:
            return True
        return b not in self.reachable(self.entry, avoid=[a])

    def set_dominates(self, aset, b):
        """every path entry -> b passes through some node of aset"""
        if b in aset:
            return True
        return b not in self.reachable(self.entry, avoid=aset)

    def edge_dominates(self, test, label, b):
        """every path entry -> b takes the `label` edge out of `test`"""
        others = [(test, lab) for _, lab in self.succ[test] if lab != label and lab != "exc"]
        # b must be unreachable if only the `label` edge is removed
        return b not in self.reachable(self.entry, avoid_edges=[(test, label)]) and \
            b in self.reachable(self.entry)

    def must_pass(self, src, dst, through, strict=True):
        """every path src -> dst (of length >= 1 if strict) passes through a node of `through`"""
        through = set(through)
        if strict:
            r = self.succ_reach(src, avoid=through)
        else:
            r = self.reachable(src, avoid=through)
        return dst not in r

    def can_reach(self, src, dst, avoid=(), strict=True):
        r = self.succ_reach(src, avoid=avoid) if strict else self.reachable(src, avoid=avoid)
        return dst in r

    def always_followed_by(self, a, bset, exits=None):
        """every path from a to a normal exit passes through some node of bset"""
        bset = set(bset)
        r = self.succ_reach(a, avoid=bset, follow_exc=True)
        return self.exit not in r

    # ---- reaching definitions (syntactic)
    def defs_of(self, var):
        """CFG nodes that (re)bind local name `var` (assignment, augmented assignment, for
        target, with-as, except-as, import). `var` may also be 'self.x' (attribute text)."""
        out = []
        for n in self.nodes:
            a = n.ast
            if a is None:
                continue
            tgts = []
            if n.kind == "stmt":
                if isinstance(a, ast.Assign):
                    tgts = a.targets
                elif isinstance(a, (ast.AugAssign, ast.AnnAssign)):
                    tgts = [a.target]
                elif isinstance(a, (ast.Import, ast.ImportFrom)):
                    if any((al.asname or al.name.split(".")[0]) == var for al in a.names):
                        out.append(n.id)
                    continue
                elif isinstance(a, (ast.FunctionDef, ast.ClassDef)):
                    if a.name == var:
                        out.append(n.id)
                    continue
                # walrus
                for sub in walk_no_nested(a):
                    if isinstance(sub, ast.NamedExpr) and U(sub.target) == var:
                        out.append(n.id)
            elif n.kind == "for":
                tgts = [a.target]
            elif n.kind == "with":
                tgts = [i.optional_vars for i in a.items if i.optional_vars is not None]
            elif n.kind == "except":
                if a.name == var:
                    out.append(n.id)
                continue
            for t in tgts:
                for e in _flatten_targets(t):
                    if U(e) == var:
                        out.append(n.id)
        return sorted(set(out))

    def reaching_defs(self, var, at):
        """definition nodes of var whose value may reach node `at` (entry = parameter/free)."""
        defs = self.defs_of(var)
        out = []
        for d in defs:
            others = [x for x in defs if x != d]
            if at in self.succ_reach(d, avoid=[x for x in others if x != at]):
                out.append(d)
        # value from entry (parameter / undefined)
        if at in self.reachable(self.entry, avoid=[x for x in defs if x != at]):
            out.append(self.entry)
        return out


def _flatten_targets(t):
    if isinstance(t, (ast.Tuple, ast.List)):
        for e in t.elts:
            yield from _flatten_targets(e)
    elif isinstance(t, ast.Starred):
        yield from _flatten_targets(t.value)
    else:
        yield t


def assigned_value(cfg, nid, var):
    """value expression assigned to `var` at def node nid (None if not a plain assignment)."""
    a = cfg.nodes[nid].ast
    if isinstance(a, ast.Assign):
        for t in a.targets:
            if U(t) == var:
                return a.value
            if isinstance(t, (ast.Tuple, ast.List)) and isinstance(a.value, (ast.Tuple, ast.List)) \
                    and len(t.elts) == len(a.value.elts):
                for te, ve in zip(t.elts, a.value.elts):
                    if U(te) == var:
                        return ve
    if isinstance(a, ast.AnnAssign) and U(a.target) == var:
        return a.value
    return None
