"""Engine E11: checker self-validation (thorough tier).

Every catalogue entry is one textual edit anchored inside a *named function/class* of /repo's current
source (located through the AST, so unrelated edits elsewhere do not matter).  Mutants must be reported
by the property's rules (optionally by a named rule), benign twins (behaviour-preserving rewrites) must
stay silent.  Edits are applied to a scratch copy of the `liquer` package under $TMPDIR, analysed
in-process with the same rule modules, and removed immediately.  An entry whose anchor text is no longer
present is *stale*: it is listed in the evidence and does not fail the run (the repository moved on);
an applied mutant that is not reported, or an applied twin that is reported, is ANALYSIS-ERROR (exit 2),
never a VIOLATION line."""
import ast
import importlib
import os
import shutil
import tempfile
from concurrent.futures import ProcessPoolExecutor

from .core import Repo, Check, AnalysisError


def locate(src, qual):
    """(start_offset, end_offset) of the source segment of function/class `qual` ('Class.method', 'func', 'Class',
    or '' for the whole module)."""
    if not qual:
        return 0, len(src)
    tree = ast.parse(src)
    parts = qual.split(".")
    body = tree.body
    node = None
    for p in parts:
        node = None
        for n in body:
            if isinstance(n, (ast.FunctionDef, ast.AsyncFunctionDef, ast.ClassDef)) and n.name == p:
                node = n
        if node is None:
            return None
        body = node.body
    lines = src.splitlines(keepends=True)
    first = min([node.lineno] + [d.lineno for d in getattr(node, "decorator_list", [])])
    start = sum(len(l) for l in lines[: first - 1])
    end = sum(len(l) for l in lines[: node.end_lineno])
    return start, end


def apply_entry(root, e):
    """apply the edits of entry e under root; returns False if an anchor is missing"""
    for (relfile, qual, old, new) in e["edits"]:
        p = os.path.join(root, relfile)
        if not os.path.exists(p):
            return False
        src = open(p, encoding="utf-8").read()
        seg = locate(src, qual)
        if seg is None:
            return False
        s, t = seg
        part = src[s:t]
        if part.count(old) != 1:
            return False
        part = part.replace(old, new)
        src2 = src[:s] + part + src[t:]
        try:
            ast.parse(src2)
        except SyntaxError:
            return False
        with open(p, "w", encoding="utf-8") as f:
            f.write(src2)
    return True


def _run_entry(args):
    prop, repo_root, e, tier = args
    sc = tempfile.mkdtemp(prefix="verif_mut_", dir=os.environ.get("TMPDIR", "/tmp"))
    try:
        shutil.copytree(os.path.join(repo_root, "liquer"), os.path.join(sc, "liquer"), ignore=shutil.ignore_patterns("__pycache__"))
        if e.get("patch"):
            import subprocess
            r = subprocess.run(["patch", "-p1", "--no-backup-if-mismatch", "-s", "-i", e["patch"]], cwd=sc, capture_output=True, text=True)
            if r.returncode != 0:
                return e["name"], "stale", []
        elif not apply_entry(sc, e):
            return e["name"], "stale", []
        mod = importlib.import_module(f"sa.rules.{prop.lower()}")
        try:
            repo = Repo(sc)
            chk = Check(prop, repo, "quick")
            from .core import run_rules
            errs = run_rules(mod, chk)
            from .core import unlisted_violations
            viol = sorted({o.rule for o in unlisted_violations(chk)})
            if errs and not viol:
                return e["name"], "analysis-error", [x[:120] for x in errs[:2]]
            return e["name"], "ran", viol
        except AnalysisError as ex:
            return e["name"], "analysis-error", [str(ex)[:120]]
    finally:
        shutil.rmtree(sc, ignore_errors=True)


# seeded changes that are deliberately not reported (reason in DESIGN.md 7.2): listing exactness is undecided
SEEDS_NOT_DECIDED = {"C07-r2-3"}


def _seed_entries(prop):
    import glob
    import json
    from .core import VERIF
    out = []
    for meta in sorted(glob.glob(os.path.join(VERIF, "seeded", "*", "meta.json"))):
        d = os.path.dirname(meta)
        name = os.path.basename(d)
        try:
            m = json.load(open(meta))
        except Exception:
            continue
        if m.get("property") != prop or name in SEEDS_NOT_DECIDED:
            continue
        out.append({"kind": "mutant", "name": "seed:" + name, "props": [prop], "patch": os.path.join(d, "patch.diff"), "edits": [], "rules": {}})
    return out


def _twin_entries(prop, consulted):
    """benign refactors (twins/<name>/patch.diff) touching a module this property's rules consult: must stay silent"""
    import glob
    import json
    from .core import VERIF
    out = []
    for meta in sorted(glob.glob(os.path.join(VERIF, "twins", "*", "meta.json"))):
        d = os.path.dirname(meta)
        try:
            m = json.load(open(meta))
        except Exception:
            continue
        files = set()
        for line in open(os.path.join(d, "patch.diff")):
            if line.startswith("+++ b/"):
                files.add(line[6:].strip()[:-3].replace("/", "."))
        if files & consulted:
            out.append({"kind": "twin", "name": "twin:" + os.path.basename(d), "props": [prop], "patch": os.path.join(d, "patch.diff"), "edits": [], "rules": {}})
    return out


def run_for(prop, chk):
    from .catalogue import CATALOGUE
    entries = [e for e in CATALOGUE if prop in e["props"]] + _seed_entries(prop) + _twin_entries(prop, set(chk.repo.consulted))
    if not entries:
        chk.extra["selftest"] = {"entries": 0}
        return
    jobs = [(prop, chk.repo.root, e, chk.tier) for e in entries]
    results = {}
    with ProcessPoolExecutor(max_workers=min(16, len(jobs))) as ex:
        for name, status, viol in ex.map(_run_entry, jobs):
            results[name] = (status, viol)
    summary = {"mutants": 0, "mutants_reported": 0, "twins": 0, "twins_silent": 0, "stale": [], "details": {}}
    problems = []
    for e in entries:
        status, viol = results[e["name"]]
        summary["details"][e["name"]] = {"kind": e["kind"], "status": status, "rules_fired": viol}
        if status == "stale":
            summary["stale"].append(e["name"])
            continue
        if e["kind"] == "mutant":
            summary["mutants"] += 1
            want = e.get("rules", {}).get(prop)
            hit = (status == "ran" and bool(viol) and (want is None or any(v in want for v in viol)))
            if e.get("accept_analysis_error") and status == "analysis-error":
                hit = True
            if hit:
                summary["mutants_reported"] += 1
            else:
                problems.append(f"mutant `{e['name']}` not reported by {prop} (status {status}, fired {viol}, expected {want})")
        else:
            summary["twins"] += 1
            if status == "ran" and not viol:
                summary["twins_silent"] += 1
            else:
                problems.append(f"benign twin `{e['name']}` raised an alarm in {prop}: {status} {viol}")
    chk.extra["selftest"] = summary
    chk.count("selftest mutants reported", summary["mutants_reported"])
    chk.count("selftest twins silent", summary["twins_silent"])
    if problems:
        raise AnalysisError("checker self-validation failed: " + "; ".join(problems[:6]))
