"""Inlining of helpers introduced after the reference tree (refactor-robustness).

The rules name the functions of the reference tree (`FileStore.store`, `Context.evaluate`, ...). The commonest benign
refactor is *extract method*: part of such a function moves into a new private helper (`self._write_file(...)`,
`_evaluate_parent(...)`, a module-level `argument_parser_for(arg)`), sometimes shared by two callers. Before the rules run,
every call - inside a function the reference tree knows - to a function the reference tree does *not* know (sa/canon_table.KNOWN)
is replaced by the helper's body, parameters bound to the arguments (defaults for the missing ones):

  * `x = h(a)`, `h(a)` as a statement and `return h(a)`: the statements of h are spliced in; `return e` inside h becomes
    `x = e` / `e` / `return e`; an early `if c: return e` moves the rest of the block to the else branch;
  * a call nested in a larger expression: only when h is a single `return <expr>`; the expression is substituted.

The transformation preserves behaviour (up to evaluating a pure argument more than once when it is substituted) and judges
nothing: when a helper cannot be inlined (generator, nested def, return inside a loop/try, *args) the call is left alone and
the rules see the source as it is (typically ANALYSIS-ERROR = cannot decide). On the reference tree there is no unknown
function, so the pass is a no-op there."""
import ast
import copy

try:
    from .canon_table import KNOWN
except Exception:
    KNOWN = None

FN = (ast.FunctionDef, ast.AsyncFunctionDef)


class _CannotInline(Exception):
    pass


def _names(node):
    out = set()
    for n in ast.walk(node):
        if isinstance(n, ast.Name):
            out.add(n.id)
        elif isinstance(n, ast.arg):
            out.add(n.arg)
        elif isinstance(n, ast.ExceptHandler) and n.name:
            out.add(n.name)
    return out


def _stored(node):
    out = set()
    for n in ast.walk(node):
        if isinstance(n, ast.Name) and isinstance(n.ctx, (ast.Store, ast.Del)):
            out.add(n.id)
        elif isinstance(n, ast.ExceptHandler) and n.name:
            out.add(n.name)
    return out


def _is_noop(s):
    return isinstance(s, ast.Pass) or (isinstance(s, ast.Expr) and isinstance(s.value, ast.Constant))


def _inlinable_shape(h):
    if h.args.vararg or h.args.kwarg or h.args.posonlyargs:
        return False
    for d in h.decorator_list:
        if not (isinstance(d, ast.Name) and d.id == "staticmethod"):
            return False
    for n in ast.walk(h):
        if n is not h and isinstance(n, FN + (ast.Lambda, ast.ClassDef)):
            return False
        if isinstance(n, (ast.Yield, ast.YieldFrom, ast.Await, ast.Global, ast.Nonlocal)):
            return False
    return True


def _always_returns(block):
    for s in block:
        if isinstance(s, (ast.Return, ast.Raise)):
            return True
        if isinstance(s, ast.If) and s.orelse and _always_returns(s.body) and _always_returns(s.orelse):
            return True
        if isinstance(s, ast.With) and _always_returns(s.body):
            return True
    return False


def _has_return(node_or_block):
    nodes = node_or_block if isinstance(node_or_block, list) else [node_or_block]
    return any(isinstance(n, ast.Return) and not getattr(n, "_caller", False) for b in nodes for n in ast.walk(b))


def _convert(block, mk):
    """rewrite `block` so that every `return e` becomes mk(e) and nothing executes after it"""
    out = []
    for i, s in enumerate(block):
        rest = block[i + 1:]
        if isinstance(s, ast.Return) and getattr(s, "_caller", False):
            out.append(s)           # already a return of the calling function (fused `if x is None: return ...` guard)
            return out, True
        if isinstance(s, ast.Return):
            out.extend(mk(s.value, s))
            return out, True
        if not _has_return(s):
            out.append(s)
            continue
        if isinstance(s, ast.If):
            br, er = _always_returns(s.body), _always_returns(s.orelse) if s.orelse else False
            if br and er:
                b, _ = _convert(s.body, mk)
                e, _ = _convert(s.orelse, mk)
                out.append(ast.copy_location(ast.If(test=s.test, body=b or [ast.Pass()], orelse=e), s))
                return out, True
            if br:
                b, _ = _convert(s.body, mk)
                e, ended = _convert(list(s.orelse) + rest, mk)
                out.append(ast.copy_location(ast.If(test=s.test, body=b or [ast.Pass()], orelse=e), s))
                return out, ended
            if er:
                b, ended = _convert(list(s.body) + rest, mk)
                e, _ = _convert(s.orelse, mk)
                out.append(ast.copy_location(ast.If(test=s.test, body=b or [ast.Pass()], orelse=e), s))
                return out, ended
            raise _CannotInline("conditional return that does not end its branch")
        if isinstance(s, ast.Try) and not s.finalbody and not _has_return(s.body) and s.handlers \
                and all(_always_returns(h.body) for h in s.handlers):
            # try: A  except: H; return X   <rest>     ==     try: A  except: H; <X>  else: <rest>   (the else clause is not guarded)
            hs = []
            for h in s.handlers:
                hb, _ = _convert(h.body, mk)
                hs.append(ast.copy_location(ast.ExceptHandler(type=h.type, name=h.name, body=hb or [ast.Pass()]), h))
            eb, ended = _convert(list(s.orelse) + rest, mk)
            out.append(ast.copy_location(ast.Try(body=s.body, handlers=hs, orelse=eb, finalbody=[]), s))
            return out, ended
        if isinstance(s, ast.With) and not rest:
            b, ended = _convert(s.body, mk)
            out.append(ast.copy_location(ast.With(items=s.items, body=b or [ast.Pass()]), s))
            return out, ended
        raise _CannotInline(f"return inside {type(s).__name__}")
    return out, False


def _as_expression(body):
    """a helper body made only of `return e` and `if c: <such a body> [else: <such a body>]` as one expression, else None"""
    if not body:
        return None
    s = body[0]
    if isinstance(s, ast.Return):
        return s.value
    if isinstance(s, ast.If) and _always_returns(s.body):
        a = _as_expression(s.body)
        b = _as_expression(list(s.orelse) + list(body[1:])) if not (s.orelse and _always_returns(s.orelse)) else _as_expression(s.orelse)
        if a is None or b is None:
            return None
        return ast.IfExp(test=s.test, body=a, orelse=b)
    return None


class _Subst(ast.NodeTransformer):
    def __init__(self, mapping):
        self.mapping = mapping

    def visit_Name(self, node):
        if node.id in self.mapping and isinstance(node.ctx, ast.Load):
            return copy.deepcopy(self.mapping[node.id])
        return node


class _Ren(ast.NodeTransformer):
    def __init__(self, mapping):
        self.mapping = mapping

    def visit_Name(self, node):
        if node.id in self.mapping:
            node.id = self.mapping[node.id]
        return node

    def visit_ExceptHandler(self, node):
        self.generic_visit(node)
        if node.name in self.mapping:
            node.name = self.mapping[node.name]
        return node


def _simple(e):
    if isinstance(e, (ast.Name, ast.Constant)):
        return True
    if isinstance(e, ast.Attribute):
        return _simple(e.value)
    return False


def _bind(h, call, receiver, is_method):
    """-> (substitution {param: expr}, [binding statements]) for the call"""
    ps = [a.arg for a in h.args.args]
    defaults = {}
    ds = h.args.defaults
    for p, d in zip(ps[len(ps) - len(ds):], ds):
        defaults[p] = d
    for a, d in zip(h.args.kwonlyargs, h.args.kw_defaults):
        if d is not None:
            defaults[a.arg] = d
    bound = {}
    pos = list(ps)
    if is_method:
        if not pos:
            raise _CannotInline("method without self")
        bound[pos.pop(0)] = receiver
    if any(isinstance(a, ast.Starred) for a in call.args) or any(k.arg is None for k in call.keywords):
        raise _CannotInline("star arguments")
    if len(call.args) > len(pos):
        raise _CannotInline("too many arguments")
    for p, a in zip(pos, call.args):
        bound[p] = a
    allp = set(ps) | {a.arg for a in h.args.kwonlyargs}
    for k in call.keywords:
        if k.arg not in allp or k.arg in bound:
            raise _CannotInline("bad keyword")
        bound[k.arg] = k.value
    for p in allp:
        if p not in bound:
            if p not in defaults:
                raise _CannotInline(f"missing argument {p}")
            bound[p] = defaults[p]
    return bound


def _uses(h, name):
    return sum(1 for n in ast.walk(h) if isinstance(n, ast.Name) and n.id == name and isinstance(n.ctx, ast.Load))


def _prepare(h, call, receiver, is_method, caller_names, single_expr=False):
    """-> (prefix binding statements, body statements with parameters bound and locals renamed apart)"""
    bound = _bind(h, call, receiver, is_method)
    body = [copy.deepcopy(s) for s in h.body if not _is_noop(s)]
    wrapper = ast.Module(body=body, type_ignores=[])
    stored = _stored(wrapper)
    ren = {}
    for v in stored:
        if v in bound:
            continue
        if v in caller_names:
            ren[v] = v + "__h"
    if ren:
        _Ren(ren).visit(wrapper)
    subst, prefix = {}, []
    for p, e in bound.items():
        if p in stored:
            # parameter re-assigned inside the helper: bind by assignment (renamed apart when it collides)
            tgt = p if p not in caller_names or (isinstance(e, ast.Name) and e.id == p) else p + "__h"
            if tgt != p:
                _Ren({p: tgt}).visit(wrapper)
            if not (isinstance(e, ast.Name) and e.id == tgt):
                prefix.append(ast.Assign(targets=[ast.Name(id=tgt, ctx=ast.Store())], value=copy.deepcopy(e), lineno=call.lineno, col_offset=0))
        elif single_expr or _simple(e) or _uses(h, p) <= 1:
            subst[p] = e
        else:
            tgt = p if p not in caller_names else p + "__h"
            if isinstance(e, ast.Name) and e.id == tgt:
                continue
            if tgt != p:
                _Ren({p: tgt}).visit(wrapper)
            prefix.append(ast.Assign(targets=[ast.Name(id=tgt, ctx=ast.Store())], value=copy.deepcopy(e), lineno=call.lineno, col_offset=0))
    if subst:
        _Subst(subst).visit(wrapper)
    return prefix, wrapper.body


class Inliner:
    def __init__(self, repo):
        self.repo = repo
        self.done = []

    # ---- resolution of helper calls
    def _class_chain(self, m, cnode, seen=None):
        seen = seen or set()
        out = [cnode]
        seen.add(cnode.name)
        for b in cnode.bases:
            if isinstance(b, ast.Name) and b.id in m.classes and b.id not in seen:
                out += self._class_chain(m, m.classes[b.id], seen)
        return out

    def _resolve(self, m, cnode, call, new):
        """-> (helper FunctionDef, receiver expr or None, is_method) or None"""
        f = call.func
        if isinstance(f, ast.Name) and f.id in new.get(None, {}):
            return new[None][f.id], None, False
        if isinstance(f, ast.Attribute) and isinstance(f.value, ast.Name) and cnode is not None and f.value.id in ("self", "cls", cnode.name):
            for c in self._class_chain(m, cnode):
                if f.attr in c.__dict__.get("_own_methods", {}):
                    h = c._own_methods[f.attr]
                    if f.attr in new.get(c.name, {}):
                        static = any(isinstance(d, ast.Name) and d.id == "staticmethod" for d in h.decorator_list)
                        if f.value.id != "self" and not static:
                            return None      # Class.method(...) / cls.method(...) on a non-static helper: not handled
                        return h, f.value, not static
                    return None      # resolves to a known method first
        return None

    def run(self):
        if KNOWN is None:
            return self.done
        for m in self.repo.modules.values():
            known = set(KNOWN.get(m.name, ()))
            if m.name not in KNOWN:
                continue        # module unknown to the reference: nothing names it
            new = {}
            for st in m.tree.body:
                if isinstance(st, FN) and st.name not in known:
                    new.setdefault(None, {})[st.name] = st
                elif isinstance(st, ast.ClassDef):
                    st._own_methods = {x.name: x for x in st.body if isinstance(x, FN)}
                    for x in st.body:
                        if isinstance(x, FN) and f"{st.name}.{x.name}" not in known:
                            new.setdefault(st.name, {})[x.name] = x
            for st in m.tree.body:
                if isinstance(st, FN):
                    self._inline_in(m, None, st, new)
                elif isinstance(st, ast.ClassDef):
                    for x in st.body:
                        if isinstance(x, FN):
                            self._inline_in(m, st, x, new)
            if new:
                self._drop_inlined(m, new)
        return self.done

    def _drop_inlined(self, m, new):
        """a new helper that is no longer referenced anywhere in its module (every call was inlined) is removed from the class /
        module tables: rules that scan `every method of the class` then see its statements where they execute, not a second time
        out of context. A helper with a remaining reference (a call that could not be inlined) stays."""
        for owner, hs in new.items():
            for hname, h in list(hs.items()):
                refs = 0
                for n in ast.walk(m.tree):
                    if n is h:
                        continue
                    if isinstance(n, ast.Attribute) and n.attr == hname and owner is not None:
                        refs += 1
                    elif isinstance(n, ast.Name) and n.id == hname and owner is None:
                        refs += 1
                # references from inside the helper itself do not count (walk includes h's body: subtract them)
                for n in ast.walk(h):
                    if isinstance(n, ast.Attribute) and n.attr == hname and owner is not None:
                        refs -= 1
                    elif isinstance(n, ast.Name) and n.id == hname and owner is None:
                        refs -= 1
                if refs > 0 or not any(d[3] == hname for d in self.done):
                    continue
                if owner is None:
                    if h in m.tree.body:
                        m.tree.body.remove(h)
                    m.functions.pop(hname, None)
                else:
                    cnode = m.classes.get(owner)
                    if cnode is not None and h in cnode.body:
                        cnode.body.remove(h)
                        if not cnode.body:
                            cnode.body.append(ast.Pass())
                    ci = self.repo._classes.get((m.name, owner))
                    if ci is not None:
                        ci.methods.pop(hname, None)
                self.done.append((m.name, hname, "<inlined helper dropped>", owner or "<module>"))

    def _inline_in(self, m, cnode, fn, new):
        # local functions defined at the top level of fn's body that are only ever called (a refactor's `def resolve(x): ...` used in a
        # comprehension or a loop) are treated like helpers introduced after the reference tree - unless the reference function has them
        known_here = set(KNOWN.get(m.name, ())) if KNOWN else set()
        qual = f"{cnode.name}.{fn.name}" if cnode is not None else fn.name
        local_defs = {}
        if qual in known_here:
            try:
                from .canon_table import LOCALS as _LOC
                ref_locals = set(_LOC.get((m.name, qual), ()))
            except Exception:
                ref_locals = None
            if ref_locals is not None:
                for g in fn.body:
                    if isinstance(g, ast.FunctionDef) and g.name not in ref_locals and not g.decorator_list and _inlinable_shape(g) \
                            and not any(isinstance(n, (ast.Nonlocal, ast.Global)) for n in ast.walk(g)):
                        refs = [n for n in ast.walk(fn) if isinstance(n, ast.Name) and n.id == g.name]
                        calls = [n for n in ast.walk(fn) if isinstance(n, ast.Call) and isinstance(n.func, ast.Name) and n.func.id == g.name]
                        if calls and len(refs) == len(calls) and not any(isinstance(n, ast.Name) and n.id == g.name for n in ast.walk(g)):
                            local_defs[g.name] = g
        if not new and not local_defs:
            return
        if local_defs:
            new = dict(new)
            new[None] = {**new.get(None, {}), **local_defs}
            self._comprehensions_to_loops(fn, set(local_defs))
        for _ in range(6):       # helpers calling helpers
            if not self._one_pass(m, cnode, fn, new):
                break
        for name, g in local_defs.items():
            if g in fn.body and not any(isinstance(n, ast.Name) and n.id == name for n in ast.walk(fn)):
                fn.body.remove(g)
                self.done.append((m.name, fn.name, "<local function inlined and dropped>", name))
        ast.fix_missing_locations(fn)

    def _comprehensions_to_loops(self, fn, names):
        """`x = [g(a) for v in it if c]` with g a local function about to be inlined -> `x = []` + loop with `x.append(g(a))`"""
        stack = [fn]
        while stack:
            node = stack.pop()
            for f_ in ("body", "orelse", "finalbody"):
                b = getattr(node, f_, None)
                if not (isinstance(b, list) and b and isinstance(b[0], ast.stmt)):
                    continue
                i = 0
                while i < len(b):
                    st = b[i]
                    if isinstance(st, ast.Assign) and len(st.targets) == 1 and isinstance(st.targets[0], ast.Name) and isinstance(st.value, ast.ListComp) \
                            and len(st.value.generators) == 1 and not st.value.generators[0].is_async \
                            and any(isinstance(n, ast.Call) and isinstance(n.func, ast.Name) and n.func.id in names for n in ast.walk(st.value.elt)):
                        gen = st.value.generators[0]
                        t = st.targets[0].id
                        app = ast.Expr(value=ast.Call(func=ast.Attribute(value=ast.Name(id=t, ctx=ast.Load()), attr="append", ctx=ast.Load()), args=[st.value.elt], keywords=[]))
                        body = [app]
                        for c in reversed(gen.ifs):
                            body = [ast.If(test=c, body=body, orelse=[])]
                        loop = ast.For(target=gen.target, iter=gen.iter, body=body, orelse=[])
                        init = ast.Assign(targets=[ast.Name(id=t, ctx=ast.Store())], value=ast.List(elts=[], ctx=ast.Load()))
                        for x in (init, loop):
                            ast.copy_location(x, st)
                            ast.fix_missing_locations(x)
                        b[i:i + 1] = [init, loop]
                        i += 2
                        continue
                    if not isinstance(st, FN + (ast.ClassDef,)):
                        stack.append(st)
                    i += 1
            for h in getattr(node, "handlers", []) or []:
                stack.append(h)

    def _one_pass(self, m, cnode, fn, new):
        changed = False
        inl = self

        def helper_calls(node):
            out = []
            for n in ast.walk(node):
                if isinstance(n, ast.Call):
                    r = inl._resolve(m, cnode, n, new)
                    if r and r[0] is not fn and _inlinable_shape(r[0]) and not any(
                            isinstance(c, ast.Call) and inl._resolve(m, cnode, c, new) and inl._resolve(m, cnode, c, new)[0] is r[0]
                            for c in ast.walk(r[0])):
                        out.append((n, r))
            return out

        def do_block(block):
            nonlocal changed
            i = 0
            while i < len(block):
                s = block[i]
                if isinstance(s, FN + (ast.ClassDef,)):
                    i += 1
                    continue
                # a helper call that is a direct argument of this statement's call (`out.append(self._h(x))`) and is not a single
                # expression: hoist it into a temporary assigned just before the statement, then inline that assignment next round
                outer = s.value if isinstance(s, (ast.Expr, ast.Assign, ast.Return)) and isinstance(getattr(s, "value", None), ast.Call) else None
                if outer is not None:
                    hoisted = False
                    for ai, a in enumerate(outer.args):
                        r2 = inl._resolve(m, cnode, a, new) if isinstance(a, ast.Call) else None
                        if r2 and r2[0] is not fn and _inlinable_shape(r2[0]):
                            inl._tmp = getattr(inl, "_tmp", 0) + 1
                            tn = f"inlined_value_{inl._tmp}"
                            block.insert(i, ast.copy_location(ast.Assign(targets=[ast.Name(id=tn, ctx=ast.Store())], value=a), s))
                            outer.args[ai] = ast.copy_location(ast.Name(id=tn, ctx=ast.Load()), a)
                            ast.fix_missing_locations(block[i])
                            hoisted = True
                            break
                    if hoisted:
                        changed = True
                        continue
                # statement-level forms
                call = None
                mode = None
                if isinstance(s, ast.Expr) and isinstance(s.value, ast.Call):
                    call, mode = s.value, "expr"
                elif isinstance(s, ast.Assign) and isinstance(s.value, ast.Call):
                    call, mode = s.value, "assign"
                elif isinstance(s, ast.Return) and isinstance(s.value, ast.Call):
                    call, mode = s.value, "return"
                r = inl._resolve(m, cnode, call, new) if call is not None else None
                if r and r[0] is not fn and _inlinable_shape(r[0]):
                    h, recv, is_method = r
                    try:
                        prefix, body = _prepare(h, call, recv, is_method, _names(fn))
                        if mode == "assign" and len(s.targets) == 1 and isinstance(s.targets[0], ast.Name):
                            # `x = self._h(...)` where every return of the helper hands back the same helper-local: that local *is* x
                            tname = s.targets[0].id
                            rets = [n for b_ in body for n in ast.walk(b_) if isinstance(n, ast.Return)]
                            locs = {n.value.id for n in rets if isinstance(n.value, ast.Name)}
                            wrapper_ = ast.Module(body=body, type_ignores=[])
                            if rets and len(locs) == 1 and all(isinstance(n.value, ast.Name) for n in rets):
                                (loc,) = locs
                                if loc in _stored(wrapper_) and tname not in _names(wrapper_):
                                    _Ren({loc: tname}).visit(wrapper_)
                        if mode == "assign" and len(s.targets) == 1 and isinstance(s.targets[0], ast.Name) and i + 1 < len(block):
                            # `x = self._h(..)` immediately followed by `if x is None: return <const>`: the helper's `return None`
                            # statements (wherever they are - inside try, loops) become that return of the caller
                            nxt = block[i + 1]
                            tn_ = s.targets[0].id
                            if isinstance(nxt, ast.If) and not nxt.orelse and len(nxt.body) == 1 and isinstance(nxt.body[0], ast.Return) \
                                    and isinstance(nxt.test, ast.Compare) and len(nxt.test.ops) == 1 and isinstance(nxt.test.ops[0], ast.Is) \
                                    and isinstance(nxt.test.left, ast.Name) and nxt.test.left.id == tn_ \
                                    and isinstance(nxt.test.comparators[0], ast.Constant) and nxt.test.comparators[0].value is None \
                                    and (nxt.body[0].value is None or isinstance(nxt.body[0].value, ast.Constant)):
                                for b_ in body:
                                    for n_ in ast.walk(b_):
                                        if isinstance(n_, ast.Return) and (n_.value is None or (isinstance(n_.value, ast.Constant) and n_.value.value is None)):
                                            n_.value = copy.deepcopy(nxt.body[0].value)
                                            n_._caller = True
                        if mode == "return":
                            # every return of the helper is a return of the caller: the body is spliced as it is
                            new_body = body if _always_returns(body) else body + [ast.copy_location(ast.Return(value=None), s)]
                            block[i:i + 1] = prefix + new_body
                            inl.done.append((m.name, fn.name, "<helper inlined>", h.name))
                            changed = True
                            continue
                        if mode == "expr":
                            mk = lambda e, at: [] if e is None or isinstance(e, (ast.Constant, ast.Name)) else [ast.copy_location(ast.Expr(value=e), at)]
                        elif mode == "assign":
                            tg = s.targets
                            def mk(e, at, tg=tg):
                                if isinstance(e, ast.Name) and len(tg) == 1 and isinstance(tg[0], ast.Name) and tg[0].id == e.id:
                                    return []
                                # `a, b = helper()` with `return x, y` inside: element-wise assignments when no element reads a target
                                if len(tg) == 1 and isinstance(tg[0], (ast.Tuple, ast.List)) and isinstance(e, (ast.Tuple, ast.List)) \
                                        and len(tg[0].elts) == len(e.elts) and all(isinstance(x, ast.Name) for x in tg[0].elts) \
                                        and not ({x.id for x in tg[0].elts} & {n.id for v in e.elts for n in ast.walk(v) if isinstance(n, ast.Name)}
                                                 - {x.id for x, v in zip(tg[0].elts, e.elts) if isinstance(v, ast.Name) and v.id == x.id}):
                                    out_ = []
                                    for x, v in zip(tg[0].elts, e.elts):
                                        if isinstance(v, ast.Name) and v.id == x.id:
                                            continue
                                        out_.append(ast.copy_location(ast.Assign(targets=[copy.deepcopy(x)], value=v), at))
                                    return out_
                                return [ast.copy_location(ast.Assign(targets=copy.deepcopy(tg), value=e if e is not None else ast.Constant(None)), at)]
                        else:
                            mk = lambda e, at: [ast.copy_location(ast.Return(value=e), at)]
                        new_body, ended = _convert(body, mk)
                        if not ended:
                            if mode == "assign":
                                new_body += mk(None, s)
                            elif mode == "return":
                                new_body.append(ast.copy_location(ast.Return(value=None), s))
                        repl = prefix + new_body
                        block[i:i + 1] = repl or [ast.copy_location(ast.Pass(), s)]
                        inl.done.append((m.name, fn.name, "<helper inlined>", h.name))
                        changed = True
                        continue           # re-examine from the same index (nested helpers handled by later passes)
                    except _CannotInline:
                        pass
                # expression-level: single-return helpers anywhere inside this statement's own expressions
                if inl._subst_exprs(m, cnode, fn, s, new):
                    changed = True
                for fld in ("body", "orelse", "finalbody"):
                    b = getattr(s, fld, None)
                    if isinstance(b, list) and b and isinstance(b[0], ast.stmt):
                        do_block(b)
                for hd in getattr(s, "handlers", []) or []:
                    do_block(hd.body)
                i += 1

        do_block(fn.body)
        return changed

    def _subst_exprs(self, m, cnode, fn, stmt, new):
        """replace calls to single-`return <expr>` helpers inside the expressions owned by stmt (not its nested blocks)"""
        inl = self
        changed = False

        class T(ast.NodeTransformer):
            def generic_visit(self, node):
                # do not descend into nested statement blocks
                for fld, old in ast.iter_fields(node):
                    if node is stmt and fld in ("body", "orelse", "finalbody", "handlers"):
                        continue
                    if isinstance(old, list):
                        nv = []
                        for v in old:
                            if isinstance(v, ast.AST):
                                v = self.visit(v)
                                if v is None:
                                    continue
                            nv.append(v)
                        old[:] = nv
                    elif isinstance(old, ast.AST):
                        nn = self.visit(old)
                        setattr(node, fld, nn)
                return node

            def visit_Call(self, node):
                nonlocal changed
                self.generic_visit(node)
                r = inl._resolve(m, cnode, node, new)
                if not r or r[0] is fn or not _inlinable_shape(r[0]):
                    return node
                h, recv, is_method = r
                expr = _as_expression([x for x in h.body if not _is_noop(x)])
                if expr is None:
                    return node
                try:
                    bound = _bind(h, node, recv, is_method)
                except _CannotInline:
                    return node
                e = _Subst(bound).visit(copy.deepcopy(expr))
                inl.done.append((m.name, fn.name, "<helper expression inlined>", h.name))
                changed = True
                return ast.copy_location(e, node)

        T().visit(stmt)
        return changed


def inline_new_helpers(repo):
    return Inliner(repo).run()
