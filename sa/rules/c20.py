"""C20 - the web service is a faithful transport of the library (structural clauses)."""
import ast
import builtins
from ..core import (AnalysisError, U, calls_in, call_tail, call_recv, call_name, body_walk, kwarg, const_str, walk_no_nested)
from ..cfg import CFG, assigned_value
from ..lib import (params, returns_of, is_none_const, dominating_literals)

from . import extra as X

EXPLANATION = ("Registration gate (flag written only by enable/disable with the right constants; decode/register dominated by the "
               "gate; servers reach registration only through the gated entry point); endpoint <-> library-operation identity table "
               "extracted from the Flask blueprint and cross-checked against the Tornado handlers; JSON-safety of listed results; "
               "failure => error status; RemoteStore client <-> server agreement (endpoint, verb, JSON keys, defined names); extra "
               "parameters come only from the request. NOT decided: byte/MIME equality of HTTP bodies; endpoint histories.")
CMD = "liquer.commands"
BP = "liquer.server.blueprint"
HD = "liquer.server.handlers"
RS = "liquer.remote_store"

# endpoint operation -> library method that must be applied to the key, and the JSON key reporting its result
STORE_OPS = {"remove": ("remove", None), "removedir": ("removedir", None), "contains": ("contains", "contains"),
             "is_dir": ("is_dir", "is_dir"), "keys": ("keys", "keys"), "listdir": ("listdir", "listdir"), "makedir": ("makedir", None),
             ("metadata", "GET"): ("get_metadata", None), ("metadata", "POST"): ("store_metadata", None),
             ("data", "GET"): ("get_bytes", None), ("data", "POST"): ("store", None)}
CACHE_OPS = {"get": ("get", None), ("meta", "GET"): ("get_metadata", None), ("meta", "POST"): ("store_metadata", None),
             "remove": ("remove", "removed"), "contains": ("contains", "cached"), "keys.json": ("keys", "keys"), "clean": ("clean", None)}
STORE_MUTATORS = {"store", "store_metadata", "remove", "removedir", "makedir"}
CACHE_MUTATORS = {"store", "store_metadata", "remove", "clean"}


def rule_registration_gate(chk, rid):
    repo = chk.repo
    chk.rule(rid, "registration gate: _remote_registration is initialised False and written only by enable_ (True) / disable_ "
                  "(False); register_remote_serialized decodes/registers only on the true edge of is_remote_registration_enabled() "
                  "and answers ERROR otherwise; server modules reach registration only through register_remote_serialized")
    m = repo.module(CMD)
    init = m.assigns.get("_remote_registration", [])
    chk.ob(rid, f"{CMD}._remote_registration", len(init) == 1 and isinstance(init[0], ast.Constant) and init[0].value is False,
           "gate is closed initially", m.tree, m, key="init")
    writers = {}
    for fname, fn in m.functions.items():
        for s in body_walk(fn):
            if isinstance(s, ast.Assign) and any(U(t) == "_remote_registration" for t in s.targets):
                writers.setdefault(fname, []).append(s)
    for cn, node in m.classes.items():
        for fn in node.body:
            if isinstance(fn, ast.FunctionDef):
                for s in body_walk(fn):
                    if isinstance(s, ast.Assign) and any(U(t) == "_remote_registration" for t in s.targets):
                        writers.setdefault(f"{cn}.{fn.name}", []).append(s)
    want = {"enable_remote_registration": True, "disable_remote_registration": False}
    for w, assigns in writers.items():
        for s in assigns:
            ok = w in want and isinstance(s.value, ast.Constant) and s.value.value is want[w]
            chk.ob(rid, f"{CMD}.{w}", ok, f"assigns {U(s.value)}" + ("" if ok else (f" (must be {want[w]})" if w in want else ": only enable_/disable_ may write the gate")), s, m, key=f"writer:{w}")
    for w in want:
        chk.ob(rid, f"{CMD}.{w}", w in writers, "writes the gate", m.functions.get(w, m.tree), m, key=f"writes:{w}")
    chk.floor(rid, len(writers), 2, "writers of the gate")
    ie = repo.func(CMD, "is_remote_registration_enabled")
    chk.ob(rid, f"{CMD}.is_remote_registration_enabled", all(U(r.value) == "_remote_registration" for r in returns_of(ie)) and bool(returns_of(ie)),
           "reports the gate flag", ie, m, key="reader")
    rr = repo.func(CMD, "RegisterRemoteMixin.register_remote_serialized")
    cfg = CFG(rr)
    gated = [c for c in calls_in(rr) if call_tail(c) in ("decode_registration", "register_command", "register")]
    chk.floor(rid, len(gated), 2, "decode/register calls")
    for c in gated:
        lits = dominating_literals(cfg, cfg.node_of(c))
        ok = any(txt == "is_remote_registration_enabled()" and pol for _, txt, pol, _ in lits)
        chk.ob(rid, f"{CMD}.RegisterRemoteMixin.register_remote_serialized", ok, f"`{call_tail(c)}` runs only when registration is enabled", c, m, key=f"gated:{call_tail(c)}")
    closed = [r for r in returns_of(rr) if any(txt == "is_remote_registration_enabled()" and pol is False for _, txt, pol, _ in dominating_literals(cfg, cfg.node_of(r)))]
    ok = bool(closed) and all("status='ERROR'" in U(r.value) for r in closed)
    chk.ob(rid, f"{CMD}.RegisterRemoteMixin.register_remote_serialized", ok, "a closed gate answers status ERROR", rr, m, key="closed-answer")
    n = 0
    for sm in ("liquer.server.blueprint", "liquer.server.handlers", "liquer.server.fastapi", "liquer.server.tornado_handlers"):
        if not repo.has_module(sm):
            continue
        mod = repo.module(sm)
        for c in ast.walk(mod.tree):
            if isinstance(c, ast.Call) and call_tail(c) in ("register_command", "decode_registration", "register") and "command_registry" in (call_recv(c) or ""):
                n += 1
                chk.ob(rid, sm, False, f"server calls `{U(c)[:60]}` directly, bypassing the registration gate", c, mod, key=f"bypass:{call_tail(c)}")
            if isinstance(c, ast.Call) and call_tail(c) == "register_remote_serialized":
                n += 1
                chk.ob(rid, sm, True, "registration goes through register_remote_serialized", c, mod, key="via-gate", nontrivial=False)
    chk.floor(rid, n, 4, "server registration sites")


def flask_routes(repo):
    """[(function, route string, methods set)] from @app.route decorators of the blueprint"""
    m = repo.module(BP)
    out = []
    for fname, fn in m.functions.items():
        for d in fn.decorator_list:
            if isinstance(d, ast.Call) and call_tail(d) == "route" and d.args and const_str(d.args[0]) is not None:
                meths = {"GET"}
                mk = kwarg(d, "methods")
                if mk is not None and isinstance(mk, (ast.List, ast.Tuple)):
                    meths = {e.value for e in mk.elts if isinstance(e, ast.Constant)}
                out.append((fn, d.args[0].value, meths))
    return m, out


def lib_calls(fn, kind):
    """calls on the store / cache object in a handler: [(method, call)]"""
    out = []
    for c in calls_in(fn):
        r = call_recv(c) or ""
        if kind == "store" and (r == "store" or r == "get_store()"):
            out.append((call_tail(c), c))
        if kind == "cache" and r == "get_cache()":
            out.append((call_tail(c), c))
    return out


def json_dict_keys(fn):
    """{json key: value expr} over every dict(...) passed to jsonify / json.dumps in fn"""
    out = {}
    for c in calls_in(fn):
        if call_tail(c) in ("jsonify", "dumps") and c.args:
            d = c.args[0]
            if isinstance(d, ast.Name):
                name = d.id
                for s in body_walk(fn):
                    if isinstance(s, ast.Assign) and U(s.targets[0]) == name:
                        d = s.value
            if isinstance(d, ast.Call) and call_name(d) == "dict":
                for k in d.keywords:
                    if k.arg:
                        out.setdefault(k.arg, []).append(k.value)
    return out


def check_op(chk, rid, modname, mod, construct, fn, kind, want, jkey, verb):
    calls = lib_calls(fn, kind)
    names = [n for n, _ in calls]
    muts = STORE_MUTATORS if kind == "store" else CACHE_MUTATORS
    has = want in names
    chk.ob(rid, construct, has, f"applies {kind}.{want}()" if has else f"does not call {kind}.{want}() (calls {sorted(set(names))})",
           fn, mod, key=f"op:{want}")
    foreign = sorted({n for n in names if n in muts and n != want})
    chk.ob(rid, construct, not foreign, "has no other mutating effect" if not foreign else
           f"also calls the mutating operation(s) {foreign}: the endpoint changes the {kind} beyond the operation it names", fn, mod, key=f"foreign:{want}")
    for n, c in calls:
        if n == want and n not in ("keys", "clean") and kind == "store":
            ok = bool(c.args) and U(c.args[0]) == "query"
            chk.ob(rid, construct, ok, "the URL's key is the operation's key", c, mod, key=f"key:{want}")
        if n == want and kind == "cache" and n in ("get", "get_metadata", "remove", "contains"):
            ok = bool(c.args) and U(c.args[0]) == "query"
            chk.ob(rid, construct, ok, "the URL's key is the operation's key", c, mod, key=f"key:{want}")
    if jkey is not None:
        jk = json_dict_keys(fn)
        vals = jk.get(jkey, [])
        ok = False
        for v in vals:
            src = v
            if isinstance(v, ast.Name):
                for s in body_walk(fn):
                    if isinstance(s, ast.Assign) and U(s.targets[0]) == v.id:
                        src = s.value
            if any(isinstance(x, ast.Call) and call_tail(x) == want for x in ast.walk(src)):
                ok = True
        chk.ob(rid, construct, ok, f"result of {want}() is reported under `{jkey}`", fn, mod, key=f"json:{jkey}")


def rule_endpoint_table(chk, rid):
    repo = chk.repo
    chk.rule(rid, "endpoint <-> library operation table is the identity: every /api/store/<op> and /api/cache/<op> route applies "
                  "exactly the library operation it names to the URL's key, no other mutating operation, and reports the result "
                  "under the documented JSON key; the Tornado handlers agree class by class")
    m, routes = flask_routes(repo)
    n = 0
    seen_ops = set()
    for fn, route, meths in routes:
        for prefix, kind, table in (("/api/store/", "store", STORE_OPS), ("/api/cache/", "cache", CACHE_OPS)):
            if not route.startswith(prefix):
                continue
            op = route[len(prefix):].split("/")[0]
            for verb in sorted(meths):
                ent = table.get((op, verb)) or (table.get(op) if verb == "GET" or op not in ("metadata", "data", "meta") else None)
                if ent is None:
                    continue
                if op == "upload":
                    continue
                want, jkey = ent
                n += 1
                seen_ops.add((kind, op, verb if (op, verb) in table else "GET"))
                check_op(chk, rid, BP, m, f"{BP}.{fn.name} [{verb} {route}]", fn, kind, want, jkey, verb)
    chk.floor(rid, n, 17, "store/cache routes")
    expected = {("store", k if isinstance(k, str) else k[0], "GET" if isinstance(k, str) else k[1]) for k in STORE_OPS} | \
               {("cache", k if isinstance(k, str) else k[0], "GET" if isinstance(k, str) else k[1]) for k in CACHE_OPS}
    missing = expected - seen_ops
    chk.ob(rid, BP, not missing, "every documented store/cache operation has a route" if not missing else f"no route for {sorted(missing)}", m.tree, m, key="routes-complete")
    # Tornado siblings
    h = repo.module(HD)
    SIB = {"GetStoreDataHandler.get": ("store", "get_bytes", None), "StoreDataHandler.post": ("store", "store", None),
           "GetStoreMetadataHandler.get": ("store", "get_metadata", None), "StoreMetadataHandler.post": ("store", "store_metadata", None),
           "StoreRemoveHandler.get": ("store", "remove", None), "StoreRemovedirHandler.get": ("store", "removedir", None),
           "StoreContainsHandler.get": ("store", "contains", "contains"), "StoreIsDirHandler.get": ("store", "is_dir", "is_dir"),
           "StoreKeysHandler.get": ("store", "keys", "keys"), "StoreListdirHandler.get": ("store", "listdir", "listdir"),
           "StoreMakedirHandler.get": ("store", "makedir", None), "CacheGetDataHandler.get": ("cache", "get", None),
           "CacheMetadataHandler.get": ("cache", "get_metadata", None), "CacheMetadataHandler.post": ("cache", "store_metadata", None),
           "CacheRemoveHandler.get": ("cache", "remove", "removed"), "CacheContainsHandler.get": ("cache", "contains", "cached"),
           "CacheKeysHandler.get": ("cache", "keys", "keys"), "CacheCleanHandler.get": ("cache", "clean", None)}
    n2 = 0
    for q, (kind, want, jkey) in SIB.items():
        cn, mn = q.split(".")
        if cn not in h.classes:
            raise AnalysisError(f"{HD}.{cn} not found")
        fn = repo.cls(HD, cn).methods.get(mn)
        if fn is None:
            raise AnalysisError(f"{HD}.{q} not found")
        n2 += 1
        check_op(chk, rid, HD, h, f"{HD}.{q}", fn, kind, want, jkey, mn.upper())
    chk.floor(rid, n2, 18, "Tornado sibling handlers")


def rule_store_set_idiom(chk, rid):
    repo = chk.repo
    chk.rule(rid, "sibling rule: every handler that stores posted data calls store.store(query, data, metadata) where metadata is the "
                  "key's existing metadata read unconditionally (get_metadata inside try / KeyNotFoundStoreException -> {}), never "
                  "made conditional on contains()/is_dir() (a metadata-only key is not 'contained' by a directory store)")
    n = 0
    for modname in (BP, HD):
        mod = repo.module(modname)
        fns = list(mod.functions.items()) + [(f"{c}.{k}", v) for c in mod.classes for k, v in repo.cls(modname, c).methods.items()]
        for fname, fn in fns:
            sc = [c for n_, c in lib_calls(fn, "store") if n_ == "store"]
            if not sc:
                continue
            cfg = CFG(fn)
            for c in sc:
                n += 1
                md = c.args[2] if len(c.args) > 2 else None
                ok = isinstance(md, ast.Name)
                why = "metadata argument not a local"
                if ok:
                    ds = cfg.reaching_defs(md.id, cfg.node_of(c))
                    vals = [U(assigned_value(cfg, d, md.id)) for d in ds if d != cfg.entry]
                    ok = sorted(vals) == sorted(["store.get_metadata(query)", "{}"]) and cfg.entry not in ds
                    why = f"metadata comes from {vals}"
                    gm = [x for x in calls_in(fn, tail="get_metadata") if cfg.can_reach(cfg.node_of(x), cfg.node_of(c))]
                    for x in gm:
                        lits = dominating_literals(cfg, cfg.node_of(x))
                        if any(("contains(" in txt or "is_dir(" in txt) for _, txt, pol, _ in lits):
                            ok = False
                            why = "existing metadata is read only when contains()/is_dir() holds: metadata posted before the data is dropped"
                chk.ob(rid, f"{modname}.{fname}", ok, why, c, mod, key="store-metadata-idiom")
    chk.floor(rid, n, 4, "data-storing handlers")


def rule_json_safe(chk, rid):
    repo = chk.repo
    chk.rule(rid, "results are JSON-safe: a value obtained from <store|cache>.keys() (implementations include generators) passes "
                  "through list()/sorted() before it reaches jsonify / json.dumps")
    n = 0
    for modname in (BP, HD):
        mod = repo.module(modname)
        fns = list(mod.functions.items()) + [(f"{c}.{k}", v) for c in mod.classes for k, v in repo.cls(modname, c).methods.items()]
        for fname, fn in fns:
            for c in calls_in(fn, tail="keys"):
                r = call_recv(c) or ""
                if r not in ("store", "get_store()", "get_cache()"):
                    continue
                # how is the value used?
                parents = {}
                for p in ast.walk(fn):
                    for ch in ast.iter_child_nodes(p):
                        parents[id(ch)] = p
                p = parents.get(id(c))
                wrapped = isinstance(p, ast.Call) and call_name(p) in ("list", "sorted", "len", "set", "tuple")
                n += 1
                chk.ob(rid, f"{modname}.{fname}", wrapped, f"`{U(c)}` is wrapped in {call_name(p)}()" if wrapped else
                       f"`{U(c)}` may be a generator and is handed to the JSON encoder as is: the endpoint answers ERROR", c, mod, key="keys-wrapped")
    chk.floor(rid, n, 5, "keys() uses in servers")


def rule_failure_status(chk, rid):
    repo = chk.repo
    chk.rule(rid, "failure => error status: serve() evaluates inside a handler that aborts with 500; response() obtains the data "
                  "through the raising accessor state.get() (never state.data) and the media type from encode_state_data(..., "
                  "extension=state.extension)")
    m = repo.module(BP)
    sv = repo.func(BP, "serve")
    tries = [t for t in body_walk(sv) if isinstance(t, ast.Try)]
    ok = False
    for t in tries:
        if any(call_name(c) == "evaluate" for st in t.body for c in calls_in(st)):
            for h in t.handlers:
                if (h.type is None or U(h.type) in ("Exception", "BaseException")) and any(call_name(c) == "abort" and c.args and U(c.args[0]) == "500" for st in h.body for c in calls_in(st)):
                    ok = True
    chk.ob(rid, f"{BP}.serve", ok, "evaluation failures abort with status 500", sv, m, key="abort-500")
    ev = [c for c in calls_in(sv) if call_name(c) == "evaluate"]
    chk.ob(rid, f"{BP}.serve", len(ev) == 1 and U(ev[0].args[0]) == "query", "the URL's query text is what is evaluated", sv, m, key="evaluate-query")
    chk.ob(rid, f"{BP}.serve", any(isinstance(r.value, ast.Call) and call_name(r.value) == "response" and r.value.args and r.value.args[0] in ev for r in returns_of(sv)),
           "the response is built from the evaluated state", sv, m, key="response-of-evaluate")
    for modname in (BP, HD):
        mod = repo.module(modname)
        rp = mod.functions.get("response")
        if rp is None:
            raise AnalysisError(f"{modname}.response missing")
        sp = params(rp)[0]
        enc = [c for c in calls_in(rp) if call_name(c) == "encode_state_data"]
        ok = len(enc) == 1 and enc[0].args and U(enc[0].args[0]) == f"{sp}.get()" and U(kwarg(enc[0], "extension")) == f"{sp}.extension"
        chk.ob(rid, f"{modname}.response", ok, "data = state.get(), format = state.extension", rp, mod, key="raising-accessor")
        raw = [x for x in body_walk(rp) if isinstance(x, ast.Attribute) and x.attr == "data" and U(x.value) == sp]
        chk.ob(rid, f"{modname}.response", not raw, "state.data is never read directly", rp, mod, key="no-raw-data")


def rule_remote_store(chk, rid):
    repo = chk.repo
    chk.rule(rid, "client <-> server agreement: every RemoteStore method names the endpoint of the same operation, uses a verb the "
                  "route accepts, reads only JSON keys the handler writes, and uses only names/attributes that exist")
    rm = repo.module(RS)
    rs = repo.cls(RS, "RemoteStore")
    m, routes = flask_routes(repo)
    route_by_op = {}
    for fn, route, meths in routes:
        if route.startswith("/api/store/"):
            op = route[len("/api/store/"):].split("/")[0]
            route_by_op.setdefault(op, []).append((fn, meths))
    EXPECT = {"get_bytes": [("store/data", "GET")], "get_metadata": [("store/metadata", "GET")],
              "store": [("store/metadata", "POST"), ("store/data", "POST")], "store_metadata": [("store/metadata", "POST")],
              "remove": [("store/remove", "GET")], "removedir": [("store/removedir", "GET")], "contains": [("store/contains", "GET")],
              "is_dir": [("store/is_dir", "GET")], "keys": [("store/keys", "GET")], "listdir": [("store/listdir", "GET")],
              "makedir": [("store/makedir", "GET")]}
    VERB = {"fetch_json": "GET", "fetch_bytes": "GET", "fetch": "GET", "post_json": "POST", "post_bytes": "POST"}
    n = 0
    for meth, want in EXPECT.items():
        fn = rs.methods.get(meth)
        if fn is None:
            chk.ob(rid, f"{RS}.RemoteStore", False, f"`{meth}` is not implemented", rs.node, rm, key=f"impl:{meth}")
            continue
        used = []
        for c in calls_in(fn):
            if call_recv(c) == "self" and call_tail(c) in VERB and c.args:
                a = c.args[0]
                ep = None
                if isinstance(a, ast.Call) and call_tail(a) == "concat_api" and a.args:
                    ep = const_str(a.args[0])
                    keyok = len(a.args) > 1 and U(a.args[1]) == params(fn)[1]
                else:
                    ep = const_str(a)
                    keyok = True
                used.append((ep, VERB[call_tail(c)], keyok, c))
        n += 1
        got = [(e, v) for e, v, _, _ in used]
        chk.ob(rid, f"{RS}.RemoteStore.{meth}", got == want, f"talks to {got}" + ("" if got == want else f" (the `{meth}` operation is served by {want})"),
               fn, rm, key=f"endpoint:{meth}")
        for e, v, keyok, c in used:
            chk.ob(rid, f"{RS}.RemoteStore.{meth}", keyok, "the method's key is the endpoint's key", c, rm, key=f"key:{meth}:{e}", nontrivial=False)
            op = (e or "").split("/")[-1]
            accepts = any(v in meths for _, meths in route_by_op.get(op, []))
            chk.ob(rid, f"{RS}.RemoteStore.{meth}", accepts, f"route /api/{e} accepts {v}", c, rm, key=f"verb:{meth}:{e}")
        # JSON keys read
        reads = {x.slice.value for x in body_walk(fn) if isinstance(x, ast.Subscript) and U(x.value) == "res" and isinstance(x.slice, ast.Constant)}
        for e, v, _, c in used:
            op = (e or "").split("/")[-1]
            written = set()
            for hfn, meths in route_by_op.get(op, []):
                if v in meths:
                    written |= set(json_dict_keys(hfn))
            if reads:
                chk.ob(rid, f"{RS}.RemoteStore.{meth}", reads <= written, f"reads JSON keys {sorted(reads)} which the handler writes" if reads <= written else
                       f"reads JSON key(s) {sorted(reads - written)} that the {op} handler never writes", fn, rm, key=f"json:{meth}")
    chk.floor(rid, n, 11, "RemoteStore methods")
    # undefined names / attributes
    glob = set(rm.imports) | set(rm.functions) | set(rm.classes) | set(rm.assigns) | set(dir(builtins))
    for sm in rm.star_imports:
        if repo.has_module(sm):
            x = repo.module(sm)
            glob |= set(x.functions) | set(x.classes) | set(x.assigns) | set(x.imports)
    attrs = set()
    for c in rs.mro():
        attrs |= set(c.methods) | set(c.class_assigns)
        for fn in c.methods.values():
            for s in body_walk(fn):
                if isinstance(s, (ast.Assign, ast.AugAssign)):
                    for t in (s.targets if isinstance(s, ast.Assign) else [s.target]):
                        if isinstance(t, ast.Attribute) and U(t.value) == "self":
                            attrs.add(t.attr)
    nn = 0
    for meth, fn in rs.methods.items():
        local = set(params(fn)) | {a.arg for a in fn.args.kwonlyargs}
        for s in ast.walk(fn):
            if isinstance(s, ast.Name) and isinstance(s.ctx, ast.Store):
                local.add(s.id)
            if isinstance(s, ast.arg):
                local.add(s.arg)
            if isinstance(s, (ast.Import, ast.ImportFrom)):
                for al in s.names:
                    local.add(al.asname or al.name.split(".")[0])
        for s in ast.walk(fn):
            if isinstance(s, ast.Name) and isinstance(s.ctx, ast.Load) and s.id not in local and s.id not in glob:
                nn += 1
                chk.ob(rid, f"{RS}.RemoteStore.{meth}", False, f"name `{s.id}` is not defined anywhere (NameError at run time)", s, rm, key=f"undefined:{s.id}")
            if isinstance(s, ast.Attribute) and isinstance(s.ctx, ast.Load) and U(s.value) == "self" and s.attr not in attrs:
                nn += 1
                chk.ob(rid, f"{RS}.RemoteStore.{meth}", False, f"attribute self.{s.attr} is never defined for RemoteStore", s, rm, key=f"undefined-attr:{s.attr}")
    chk.ob(rid, f"{RS}.RemoteStore", True, f"name/attribute resolution lint ran over {len(rs.methods)} methods", rs.node, rm, key="names-lint", nontrivial=False)


def rule_extra_parameters(chk, rid):
    repo = chk.repo
    chk.rule(rid, "extra parameters come only from the request: the dictionary passed as extra_parameters is built per request from "
                  "the JSON body / query string (or a fresh {}), never from a function default or module-level object")
    m = repo.module(BP)
    sv = repo.func(BP, "serve")
    cfg = CFG(sv)
    ev = [c for c in calls_in(sv) if call_name(c) == "evaluate"]
    if len(ev) != 1:
        raise AnalysisError("serve: evaluate call not found")
    kw = kwarg(ev[0], "extra_parameters")
    ok = isinstance(kw, ast.Name)
    why = "extra_parameters is not a local"
    if ok:
        ds = cfg.reaching_defs(kw.id, cfg.node_of(ev[0]))
        bad = []
        for d in ds:
            if d == cfg.entry:
                bad.append("<parameter/global>")
                continue
            v = assigned_value(cfg, d, kw.id)
            names = {x.id for x in ast.walk(v) if isinstance(x, ast.Name)} if v is not None else {"?"}
            if names - {"request", "dict"}:
                bad.append(U(v))
        ok = not bad
        why = "built from request.get_json()/request.args or a fresh {}" if ok else f"may alias a shared object: {bad}"
    chk.ob(rid, f"{BP}.serve", ok, why, ev[0], m, key="fresh-kwargs")
    defaults = [d for d in sv.args.defaults + sv.args.kw_defaults if d is not None and isinstance(d, (ast.Dict, ast.List, ast.Set, ast.Call))]
    chk.ob(rid, f"{BP}.serve", not defaults, "the route function has no mutable default argument", sv, m, key="no-mutable-default")


def run(chk):
    rule_registration_gate(chk, "C20.1")
    rule_endpoint_table(chk, "C20.2")
    rule_store_set_idiom(chk, "C20.2b")
    rule_json_safe(chk, "C20.3")
    rule_failure_status(chk, "C20.4")
    rule_remote_store(chk, "C20.5")
    rule_extra_parameters(chk, "C20.6")
    X.rule_removedir_recursion(chk, "C20.7", [("liquer.remote_store", "RemoteStore")])
    X.rule_get_json_force(chk, "C20.8")
    X.rule_trigger_complements_guard(chk, "C20.9")
