"""C12 - concurrent evaluations sharing a cache (only the 'never served before finished' clause)."""
from . import cachefam as F

from . import extra as X

EXPLANATION = ("There is no lock anywhere in cache.py/context.py, so serialisability over interleavings is NOT decided "
               "(model-checking territory). Decided: the structural clause behind 'an entry that another evaluation is "
               "still producing is never served as a finished result' - (a) per back-end the data is published before/"
               "together with the ready marker, (b) the evaluator's early READY metadata is harmless only because every "
               "back-end has a data-presence witness, (c) get() gates on the ready marker; plus (d) the in-memory cache hands every evaluation its own "
               "copy (two concurrent evaluations hitting one key must not share a mutable object).")


def run(chk):
    ev = F.Evaluate(chk.repo)
    ea = F.EvalAction(chk.repo)
    F.rule_ready_marker_order(chk, chk.repo, ev, ea, "C12.1a")
    F.rule_data_presence_witness(chk, chk.repo, "C12.1b")
    F.rule_backend_refuses_errors(chk, chk.repo, "C12.1c")
    F.rule_memory_copy(chk, chk.repo, "C12.2")
    X.rule_replace_after_close(chk, "C12.3", concurrency=True)
    X.rule_store_failure_contained(chk, "C12.4")
    X.rule_memory_marker_after_slot(chk, "C12.5")
    X.rule_metadata_write_never_decorates_data(chk, "C12.6")
