"""Write-protocol analysis for file-backed entry writers (shared by C16 and C12)."""
import ast
from ..core import (AnalysisError, U, calls_in, call_tail, call_recv, call_name, body_walk, kwarg, arg_or_kw)
from ..cfg import CFG, assigned_value
from ..lib import is_write_open, resolve_local

CONSTRUCTORS = {"to_path", "path_for_key", "metadata_path_for_key"}
FINAL, TEMP, UNKNOWN = "FINAL", "TEMP", "UNKNOWN"


def path_class(cfg, expr, at, depth=4):
    """(class, constructor call or None)"""
    if depth <= 0 or expr is None:
        return UNKNOWN, None
    if isinstance(expr, ast.Name):
        ds = cfg.reaching_defs(expr.id, at)
        if len(ds) == 1 and ds[0] != cfg.entry:
            v = assigned_value(cfg, ds[0], expr.id)
            if v is not None:
                return path_class(cfg, v, ds[0], depth - 1)
            # `with open(...) as f` handled by caller
        return UNKNOWN, None
    if isinstance(expr, ast.Call):
        t = call_tail(expr)
        if t in CONSTRUCTORS and call_recv(expr) == "self":
            return FINAL, expr
        if t in ("with_suffix", "with_name", "with_stem") and isinstance(expr.func, ast.Attribute):
            c, k = path_class(cfg, expr.func.value, at, depth - 1)
            if c == FINAL:
                return TEMP, k
            return c, k
        if call_name(expr) in ("str", "Path", "os.fspath") and expr.args:
            return path_class(cfg, expr.args[0], at, depth - 1)
        if (call_name(expr) or "").startswith("tempfile."):
            return TEMP, None
    if isinstance(expr, ast.BinOp) and isinstance(expr.op, ast.Add):
        c, k = path_class(cfg, expr.left, at, depth - 1)
        if c == FINAL and isinstance(expr.right, ast.Constant) and isinstance(expr.right.value, str):
            return TEMP, k
        return c, k
    if isinstance(expr, ast.JoinedStr):
        for v in expr.values:
            if isinstance(v, ast.FormattedValue):
                c, k = path_class(cfg, v.value, at, depth - 1)
                if c == FINAL:
                    return TEMP, k
    if isinstance(expr, ast.BinOp) and isinstance(expr.op, ast.Div):
        # pathlib join: final / "x" is another final path of the same family
        return path_class(cfg, expr.left, at, depth - 1)
    if isinstance(expr, ast.Attribute) and expr.attr == "parent":
        c, k = path_class(cfg, expr.value, at, depth - 1)
        return c, k
    return UNKNOWN, None


def ctor_kind(ctor):
    """'data' / 'metadata' for a path-constructor call."""
    if ctor is None:
        return "?"
    t = call_tail(ctor)
    if t == "metadata_path_for_key":
        return "metadata"
    if t == "path_for_key":
        return "data"
    if t == "to_path":
        pk = kwarg(ctor, "prefix")
        if pk is None and len(ctor.args) > 1:
            pk = ctor.args[1]
        if pk is None:
            return "metadata"      # default prefix state_/0state_ : the metadata (JSON) file
        return "data" if "data" in U(pk) else "metadata"
    return "?"


class Effect:
    def __init__(self, kind, cls, ctor, node, call, text=""):
        # text: for a write the target expression text, for a replace the *source* expression text
        self.kind, self.cls, self.ctor, self.node, self.call, self.text = kind, cls, ctor, node, call, text

    def __repr__(self):
        return f"{self.kind}:{self.cls}:{ctor_kind(self.ctor)}@{getattr(self.call, 'lineno', 0)}"


def write_effects(fn):
    """Ordered FS effects of one function body: write (in place / temp), replace, unlink."""
    cfg = CFG(fn)
    out = []
    for c in calls_in(fn):
        t = call_tail(c)
        at = cfg.node_of(c)
        if t == "open" and is_write_open(c):
            target = c.args[0] if isinstance(c.func, ast.Name) and c.args else (c.func.value if isinstance(c.func, ast.Attribute) else None)
            cls, k = path_class(cfg, target, at)
            out.append(Effect("write", cls, k, at, c, U(target)))
        elif t in ("write_bytes", "write_text") and isinstance(c.func, ast.Attribute):
            cls, k = path_class(cfg, c.func.value, at)
            out.append(Effect("write", cls, k, at, c, U(c.func.value)))
        elif call_name(c) in ("os.replace", "os.rename", "shutil.move") and len(c.args) == 2:
            c1, k1 = path_class(cfg, c.args[0], at)
            c2, k2 = path_class(cfg, c.args[1], at)
            out.append(Effect("replace" if (c1 == TEMP and c2 == FINAL) else "replace?", c2, k2, at, c, U(c.args[0])))
        elif t in ("replace", "rename") and isinstance(c.func, ast.Attribute) and len(c.args) == 1 and call_name(c) not in ("os.replace", "os.rename"):
            c1, k1 = path_class(cfg, c.func.value, at)
            if c1 in (TEMP, FINAL):
                c2, k2 = path_class(cfg, c.args[0], at)
                out.append(Effect("replace" if (c1 == TEMP and c2 == FINAL) else "replace?", c2, k2, at, c, U(c.func.value)))
        elif t in ("unlink", "remove") and (call_name(c) in ("os.remove", "os.unlink") or isinstance(c.func, ast.Attribute)):
            target = c.args[0] if call_name(c) in ("os.remove", "os.unlink") and c.args else (c.func.value if isinstance(c.func, ast.Attribute) else None)
            cls, k = path_class(cfg, target, at)
            if cls != UNKNOWN:
                out.append(Effect("unlink", cls, k, at, c))
    out.sort(key=lambda e: (e.call.lineno, e.call.col_offset))
    return cfg, out
