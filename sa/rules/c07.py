"""C07 - store contract."""
import ast
from ..core import (AnalysisError, U, calls_in, call_tail, call_recv, call_name, body_walk, kwarg, arg_or_kw)
from ..cfg import CFG, assigned_value
from ..lib import (params, returns_of, is_none_const, dominating_literals, has_literal, resolve_local)
from . import storefam as S
from .cachefam import is_deep_copy_expr, on_every_path
from .fsproto import write_effects, ctor_kind

from . import extra as X

EXPLANATION = ("Structural clauses of the store contract over the leaf stores (MemoryStore, FileStore) and the generic wrappers: "
               "API completeness, metadata finalisation describing what was stored (and returned as a fresh copy), data and "
               "metadata written/removed together, ancestor creation, write-free reads, not-found is an exception, verbatim proxy "
               "forwarding of every parameter with notifications after the forwarded call, listings hiding only the metadata "
               "folder, child keys built with the empty-parent idiom. NOT decided: agreement with a reference model over histories.")
STORE = S.STORE
CONCRETE = ["MemoryStore", "FileStore", "ProxyStore", "IndexerStore", "ReadOnlyStore", "OverlayStore", "MountPointStore", "PrefixStore"]


def forwards_all_params(fn, call):
    """every parameter of fn (except self) is handed to `call` (positionally in order or as keyword of the same name)"""
    ps = params(fn)[1:]
    pos = [U(a) for a in call.args]
    kws = {k.arg: U(k.value) for k in call.keywords if k.arg}
    for i, p in enumerate(ps):
        if i < len(pos) and pos[i] == p:
            continue
        if kws.get(p) == p:
            continue
        return False, p
    return True, None


def rule_api_complete(chk, rid):
    repo = chk.repo
    chk.rule(rid, "every concrete store / wrapper resolves every Store-API method to an implementation other than the abstract "
                  "base-class stub")
    mod = repo.module(STORE)
    table = {}
    n = 0
    for cn in CONCRETE:
        ci = repo.cls(STORE, cn)
        for m in S.STORE_API:
            dc, fn = ci.find_method(m)
            n += 1
            ok = fn is not None and dc.name != "Store"
            if fn is not None and dc.name == "Store" and m in ("listdir_keys",):
                ok = True
            table.setdefault(cn, {})[m] = dc.name if dc else None
            chk.ob(rid, f"{ci.qual}", ok, f"`{m}` resolves to {dc.name if dc else None}.{m}", fn or ci.node, mod, key=f"api:{m}", nontrivial=ok)
    chk.extra["api_table"] = table
    chk.floor(rid, n, 100, "class x method pairs")


def rule_finalize(chk, rid):
    repo = chk.repo
    chk.rule(rid, "what is recorded describes what was stored: every leaf store() persists finalize_metadata(metadata, key=key, "
                  "is_dir=False, data=data); finalize_metadata sets key, fileinfo.name=key_name(key), is_dir, size=len(data), "
                  "md5 of data and returns a fresh copy; store_metadata finalises with update=True and the current directory flag")
    mod = repo.module(STORE)
    for ln in S.LEAVES:
        ci = repo.cls(STORE, ln)
        fn = ci.methods.get("store")
        kp, dp, mp = params(fn)[1:4]
        fin = [c for c in calls_in(fn, tail="finalize_metadata") if call_recv(c) == "self"]
        ok = False
        for c in fin:
            a0 = U(c.args[0]) if c.args else ""
            kw = {k.arg: U(k.value) for k in c.keywords}
            if a0 == mp and kw.get("key", U(c.args[1]) if len(c.args) > 1 else None) == kp and kw.get("data") == dp \
                    and kw.get("is_dir", "False") == "False":
                ok = True
        chk.ob(rid, f"{ci.qual}.store", ok, "metadata is finalised with key=key, is_dir=False, data=data", fn, mod, key="finalize-call")
        # the finalised value is what gets persisted
        persisted = False
        for c in fin:
            for parent in body_walk(fn):
                if isinstance(parent, ast.Call) and call_tail(parent) == "store_metadata" and call_recv(parent) == "self" and c in parent.args:
                    persisted = True
                if isinstance(parent, ast.Assign) and parent.value is c and any(U(t).startswith("self.metadata[") for t in parent.targets):
                    persisted = True
        chk.ob(rid, f"{ci.qual}.store", persisted, "the finalised metadata is what is persisted under the key", fn, mod, key="finalize-persisted")
        sm = ci.methods.get("store_metadata")
        fin = [c for c in calls_in(sm, tail="finalize_metadata") if call_recv(c) == "self"]
        ok = any({k.arg: U(k.value) for k in c.keywords}.get("update") == "True" and
                 {k.arg: U(k.value) for k in c.keywords}.get("is_dir") == f"self.is_dir({params(sm)[1]})" for c in fin)
        chk.ob(rid, f"{ci.qual}.store_metadata", ok, "store_metadata finalises with update=True and is_dir=self.is_dir(key)", sm, mod, key="finalize-update")
    base = repo.cls(STORE, "Store")
    fm = base.methods.get("finalize_metadata")
    txt = U(fm).replace('"', "'")
    need = {"key": "metadata['key'] = key", "name": "metadata['fileinfo']['name'] = key_name(key)", "is_dir": "metadata['fileinfo']['is_dir'] = is_dir",
            "size": "metadata['fileinfo']['size'] = len(data)", "md5": "hashlib.md5(data).hexdigest()"}
    for k, frag in need.items():
        chk.ob(rid, f"{base.qual}.finalize_metadata", frag in txt, f"records `{k}` from the arguments ({frag})", fm, mod, key=f"field:{k}")
    # size and checksum describe the bytes given *now*: their assignments may depend on the data argument and the class switch only,
    # never on what the previous record says (a same-length overwrite would keep a stale md5)
    fcfg = CFG(fm)
    for fld, frag in (("size", "len(data)"), ("md5", "hashlib.md5(data).hexdigest()")):
        for n_ in fcfg.nodes:
            if n_.kind == "stmt" and isinstance(n_.ast, ast.Assign) and U(n_.ast.value) == frag and fld in U(n_.ast.targets[0]):
                lits_ = dominating_literals(fcfg, n_.id)
                bad = sorted({t_ for _, t_, _, _ in lits_ if "metadata" in t_ or "fileinfo" in t_})
                chk.ob(rid, f"{base.qual}.finalize_metadata", not bad, f"`{fld}` is recorded whenever data is given (conditions: {sorted({t_ for _, t_, _, _ in lits_})})" if not bad else
                       f"`{fld}` is recomputed only when {bad}: the decision reads the previous record, so an overwrite the test does not notice keeps a stale {fld}",
                       n_.ast, mod, key=f"fresh:{fld}")
    for c in [base] + [repo.cls(STORE, x) for x in ("FileStore", "RoutingStore")]:
        f = c.methods.get("finalize_metadata")
        if f is None:
            continue
        for r in returns_of(f):
            v = r.value
            fresh = is_deep_copy_expr(v) or (isinstance(v, ast.Name) and any(
                isinstance(s, ast.Assign) and U(s.targets[0]) == v.id and isinstance(s.value, ast.Call) and call_name(s.value) == "super().finalize_metadata"
                for s in body_walk(f)))
            chk.ob(rid, f"{c.qual}.finalize_metadata", fresh, f"returns `{U(v)[:50]}`" + ("" if fresh else
                   ": the caller's dictionary is returned and stored, so metadata of different keys can alias"), r, mod, key="fresh-copy")


def rule_together(chk, rid):
    repo = chk.repo
    chk.rule(rid, "data and metadata are written together by store() and removed together by remove() in every leaf store")
    mod = repo.module(STORE)
    # FileStore
    fs = repo.cls(STORE, "FileStore")
    fn = fs.methods["store"]
    cfg, effs = write_effects(fn)
    data_pub = [e for e in effs if (e.kind == "replace" and ctor_kind(e.ctor) == "data") or (e.kind == "write" and e.cls == "FINAL" and ctor_kind(e.ctor) == "data")]
    md = [c for c in calls_in(fn, tail="store_metadata") if call_recv(c) == "self"]
    ok = bool(data_pub) and bool(md) and all(cfg.exit not in cfg.reachable(cfg.entry, avoid=[e.node]) for e in data_pub[:1]) and on_every_path(cfg, md[0])
    chk.ob(rid, f"{fs.qual}.store", ok, "bytes and metadata are both written on every path", fn, mod, key="both-written")
    chk.ob(rid, f"{fs.qual}.store", bool(md) and U(md[0].args[0]) == params(fn)[1], "metadata is written under the same key", fn, mod, key="same-key")
    rm = fs.methods["remove"]
    cfg, effs = write_effects(rm)
    kinds = {ctor_kind(e.ctor) for e in effs if e.kind == "unlink"}
    chk.ob(rid, f"{fs.qual}.remove", kinds == {"data", "metadata"}, f"remove unlinks {sorted(kinds)}", rm, mod, key="both-removed")
    # MemoryStore
    ms = repo.cls(STORE, "MemoryStore")
    fn = ms.methods["store"]
    kp = params(fn)[1]
    cfg = CFG(fn)
    ws = {U(t.value): s for s in body_walk(fn) if isinstance(s, ast.Assign) for t in s.targets if isinstance(t, ast.Subscript) and U(t.slice) == kp}
    ok = {"self.data", "self.metadata"} <= set(ws) and all(cfg.exit not in cfg.reachable(cfg.entry, avoid=[cfg.node_of(s)]) for s in ws.values())
    chk.ob(rid, f"{ms.qual}.store", ok, f"slots written under the key: {sorted(ws)}", fn, mod, key="both-written")
    rm = ms.methods["remove"]
    dels = {U(t.value) for s in body_walk(rm) if isinstance(s, ast.Delete) for t in s.targets if isinstance(t, ast.Subscript)}
    dels |= {call_recv(c) for c in calls_in(rm) if call_tail(c) in ("remove", "discard", "pop") and (call_recv(c) or "").startswith("self.")}
    chk.ob(rid, f"{ms.qual}.remove", {"self.data", "self.metadata", "self.directories"} <= dels, f"remove clears {sorted(dels)}", rm, mod, key="both-removed")


def rule_ancestors(chk, rid):
    repo = chk.repo
    chk.rule(rid, "ancestors exist: store() of each leaf creates the whole parent chain")
    mod = repo.module(STORE)
    fs = repo.cls(STORE, "FileStore")
    fn = fs.methods["store"]
    mk = [c for c in calls_in(fn, tail="mkdir") if U(c.func.value) == f"self.path_for_key({params(fn)[1]}).parent"]
    ok = bool(mk) and any(isinstance(kwarg(c, "parents"), ast.Constant) and kwarg(c, "parents").value is True for c in mk)
    chk.ob(rid, f"{fs.qual}.store", ok, "path_for_key(key).parent.mkdir(parents=True, ...)", fn, mod, key="parents")
    ms = repo.cls(STORE, "MemoryStore")
    fn = ms.methods["store"]
    mk = [c for c in calls_in(fn, tail="makedir") if call_recv(c) == "self" and c.args and "parent_key" in U(c.args[0])]
    chk.ob(rid, f"{ms.qual}.store", bool(mk), "self.makedir(parent_key(key))", fn, mod, key="parents")
    md = ms.methods["makedir"]
    loops = [w for w in body_walk(md) if isinstance(w, ast.While)]
    ok = bool(loops) and any("parent_key" in U(s) for w in loops for s in w.body) and any(call_tail(c) == "add" for w in loops for s in w.body for c in calls_in(s))
    chk.ob(rid, f"{ms.qual}.makedir", ok, "makedir walks the parent chain to the root, adding every ancestor", md, mod, key="walk")


def rule_reads_write_free(chk, rid):
    repo = chk.repo
    chk.rule(rid, "reads have no write effect: the effect summary (own body + self-calls, depth 3) of get_bytes get_metadata "
                  "contains is_dir keys listdir is_supported is write-free in every leaf and wrapper, modulo two symbols "
                  "whitelisted with a reason")
    mod = repo.module(STORE)
    WL = {("FileStore", "get_metadata"): "removes a key whose metadata JSON is unparsable (the recovery path C16 relies on)"}
    n = 0
    for cn in CONCRETE + ["RoutingStore", "KeyTranslatingStore"]:
        ci = repo.cls(STORE, cn)
        for m in S.READS:
            dc, fn = ci.find_method(m)
            if fn is None:
                continue
            eff = S.effects(ci, m)
            n += 1
            if (dc.name, m) in WL and eff:
                chk.ob(rid, f"{ci.qual}.{m}", True, f"whitelisted: {WL[(dc.name, m)]}", fn, mod, key=f"read:{m}", nontrivial=False)
                continue
            chk.ob(rid, f"{ci.qual}.{m}", not eff, "write-free" if not eff else
                   f"read operation has a {eff[0][0]} effect in {eff[0][2]}: `{U(eff[0][1])[:50]}`", (eff[0][1] if eff else fn), mod, key=f"read:{m}")
    chk.floor(rid, n, 56, "read methods")


def rule_not_found_raises(chk, rid):
    repo = chk.repo
    chk.rule(rid, "not-found is an exception, not None: get_bytes and get_metadata of every store have no fall-off-the-end exit "
                  "and no `return None`")
    mod = repo.module(STORE)
    n = 0
    for cn in CONCRETE + ["RoutingStore", "KeyTranslatingStore"]:
        ci = repo.cls(STORE, cn)
        for m in ("get_bytes", "get_metadata"):
            fn = ci.methods.get(m)
            if fn is None:
                continue
            cfg = CFG(fn)
            falls = cfg.falloff in cfg.reachable(cfg.entry)
            nones = [r for r in returns_of(fn) if is_none_const(r.value)]
            n += 1
            chk.ob(rid, f"{ci.qual}.{m}", not falls and not nones,
                   "every exit returns a value or raises" if not falls and not nones else
                   "a path ends without a value (returns None instead of raising KeyNotFoundStoreException)", fn, mod, key="exit-shape")
    chk.floor(rid, n, 12, "get_bytes/get_metadata definitions")


def rule_proxy_forwards(chk, rid):
    repo = chk.repo
    chk.rule(rid, "the generic proxy forwards every API method to the same method of the wrapped store with every parameter, returns "
                  "its result for reads, and fires change notifications only after the forwarded call")
    mod = repo.module(STORE)
    px = repo.cls(STORE, "ProxyStore")
    n = 0
    for m in S.STORE_API:
        fn = px.methods.get(m)
        if fn is None:
            chk.ob(rid, px.qual, False, f"`{m}` is not forwarded", px.node, mod, key=f"fwd:{m}")
            continue
        cs = [c for c in calls_in(fn, tail=m) if call_recv(c) == "self._store"]
        n += 1
        if len(cs) != 1:
            chk.ob(rid, f"{px.qual}.{m}", False, f"expected one call self._store.{m}(...), found {len(cs)}", fn, mod, key=f"fwd:{m}")
            continue
        ok, missing = forwards_all_params(fn, cs[0])
        chk.ob(rid, f"{px.qual}.{m}", ok, "all parameters are forwarded" if ok else
               f"parameter `{missing}` is not forwarded to the wrapped store (its default is used instead)", cs[0], mod, key=f"fwd:{m}")
        cfg = CFG(fn)
        if m in S.READS or m == "openbin":
            rets = returns_of(fn)
            def is_call(r):
                v = r.value
                if isinstance(v, ast.Name):
                    v = resolve_local(cfg, v, cfg.node_of(r))
                return v is cs[0]
            chk.ob(rid, f"{px.qual}.{m}", bool(rets) and all(is_call(r) for r in rets) and cfg.falloff not in cfg.reachable(cfg.entry),
                   "returns the wrapped store's answer unchanged", fn, mod, key=f"ret:{m}")
        else:
            chk.ob(rid, f"{px.qual}.{m}", on_every_path(cfg, cs[0]), "the wrapped store is called on every path", fn, mod, key=f"call:{m}")
            fn_node = cfg.node_of(cs[0])
            for c in calls_in(fn):
                if call_recv(c) == "self" and (call_tail(c) or "").startswith("on_"):
                    chk.ob(rid, f"{px.qual}.{m}", cfg.dominates(fn_node, cfg.node_of(c)), f"{call_tail(c)} fires after the forwarded call",
                           c, mod, key=f"notify:{m}:{call_tail(c)}")
    chk.floor(rid, n, 13, "ProxyStore API methods")
    ix = repo.cls(STORE, "IndexerStore")
    fn = ix.methods.get("store")
    cs = [c for c in calls_in(fn, tail="store") if call_recv(c) == "self._store"]
    ok = len(cs) == 1 and [U(a) for a in cs[0].args][:2] == params(fn)[1:3]
    chk.ob(rid, f"{ix.qual}.store", ok, "indexing proxy forwards store(key, data, <indexed metadata>)", fn, mod, key="fwd:store")


def rule_listings(chk, rid):
    repo = chk.repo
    chk.rule(rid, "listings hide the metadata folder only; keys() recurses through listdir and yields each key once")
    mod = repo.module(STORE)
    fs = repo.cls(STORE, "FileStore")
    ld = fs.methods["listdir"]
    comps = [c for c in ast.walk(ld) if isinstance(c, (ast.ListComp, ast.GeneratorExp))]
    ok = len(comps) == 1 and len(comps[0].generators) == 1 and len(comps[0].generators[0].ifs) == 1 and \
        U(comps[0].generators[0].ifs[0]) in ("d.name != self.METADATA", f"{U(comps[0].generators[0].target)}.name != self.METADATA")
    chk.ob(rid, f"{fs.qual}.listdir", ok, "filter is exactly `name != METADATA`", ld, mod, key="filter")
    ks = fs.methods["keys"]
    ys = [n for n in body_walk(ks) if isinstance(n, (ast.Yield, ast.YieldFrom))]
    ok = any(call_tail(c) == "listdir" for c in calls_in(ks)) and any(call_tail(c) == "keys" and call_recv(c) == "self" for c in calls_in(ks)) and len(ys) == 2
    chk.ob(rid, f"{fs.qual}.keys", ok, "keys = pre-order recursion over listdir (one yield for the key, one for the recursion)", ks, mod, key="recursion")


def rule_child_keys(chk, rid):
    repo = chk.repo
    chk.rule(rid, "child keys are built with the empty-parent idiom: every `parent + '/' + name` in a store class is join_key or is "
                  "guarded by a test that the parent is non-empty / not None")
    mod = repo.module(STORE)
    n = 0
    for cn in CONCRETE + ["RoutingStore", "KeyTranslatingStore"]:
        ci = repo.cls(STORE, cn)
        for mn, fn in ci.methods.items():
            cfg = None
            for b in body_walk(fn):
                parts = None
                if isinstance(b, ast.BinOp) and isinstance(b.op, ast.Add) and isinstance(b.left, ast.BinOp) and isinstance(b.left.op, ast.Add) \
                        and isinstance(b.left.right, ast.Constant) and b.left.right.value == "/" and not isinstance(b.left.left, ast.Constant) \
                        and not isinstance(b.right, ast.Constant):
                    parts = (b.left.left, b.right)
                if isinstance(b, ast.JoinedStr) and len(b.values) == 3 and isinstance(b.values[1], ast.Constant) and b.values[1].value == "/" \
                        and isinstance(b.values[0], ast.FormattedValue) and isinstance(b.values[2], ast.FormattedValue):
                    parts = (b.values[0].value, b.values[2].value)
                if parts is None:
                    continue
                parent = U(parts[0])
                cfg = cfg or CFG(fn)
                guarded = False
                # IfExp guard
                for x in body_walk(fn):
                    if isinstance(x, ast.IfExp) and (b is x.orelse or b in list(ast.walk(x.orelse))) and parent in U(x.test) and "None" in U(x.test):
                        guarded = True
                    if isinstance(x, ast.IfExp) and (b in list(ast.walk(x.body))) and parent in U(x.test) and ("not in ('', None)" in U(x.test) or "!= ''" in U(x.test)):
                        guarded = True
                try:
                    lits = dominating_literals(cfg, cfg.node_of(b))
                    for _, txt, pol, _ in lits:
                        if parent in txt and (("in ('', None)" in txt or "in (None, '')" in txt or txt.endswith("== ''") or txt.endswith("is None")) and pol is False):
                            guarded = True
                except AnalysisError:
                    pass
                # prefix tests `x.startswith(key + '/')` are not child-key constructions
                n += 1
                chk.ob(rid, f"{ci.qual}.{mn}", guarded, f"`{U(b)}` is guarded against an empty parent" if guarded else
                       f"`{U(b)}` builds a child key without the empty-parent idiom: for the root it yields '/name'", b, mod, key=f"childkey:{U(b)[:40]}")
    chk.count("child-key constructions", n)
    jk = repo.func(STORE, "join_key")
    ok = "in ('', None)" in U(jk) or "in (None, '')" in U(jk)
    chk.ob(rid, f"{STORE}.join_key", ok, "join_key returns the bare name for an empty parent", jk, mod, key="join_key")


def run(chk):
    rule_api_complete(chk, "C07.1")
    rule_finalize(chk, "C07.2")
    rule_together(chk, "C07.3")
    rule_ancestors(chk, "C07.4")
    rule_reads_write_free(chk, "C07.5")
    rule_not_found_raises(chk, "C07.6")
    rule_proxy_forwards(chk, "C07.7")
    rule_listings(chk, "C07.8")
    rule_child_keys(chk, "C07.9")
    X.rule_metadata_location_injective(chk, "C07.10")
    X.rule_removedir_recursion(chk, "C07.11", [("liquer.store", "FileStore"), ("liquer.store", "MemoryStore"), ("liquer.store", "OverlayStore"), ("liquer.store", "MountPointStore")])
    X.rule_size_md5_identity_test(chk, "C07.12")
    X.rule_remove_both_unconditional(chk, "C07.13")
    from . import c14
    c14.rule_prefix_algebra(chk, "C07.14")
    c14.rule_last_mount_wins(chk, "C07.15")
    X.rule_prefix_tests_at_boundary(chk, "C07.16", all_stores=True)
