"""C16 - a crash during a file-backed write never leaves a corrupt readable entry."""
import ast
from ..core import (AnalysisError, U, calls_in, call_tail, call_recv, call_name, body_walk)
from ..cfg import CFG
from ..lib import returns_of, is_none_const, dominating_literals
from .fsproto import write_effects, FINAL, TEMP, UNKNOWN, ctor_kind

from . import extra as X

EXPLANATION = ("Typestate over the ordered file-system effects of each entry writer (FileCache.store/store_metadata, "
               "FileStore.store/store_metadata; StoreCache.store goes through FileStore.store): a final *data* path may "
               "only be produced by write-to-temporary + replace; a final *metadata* (JSON) path may be written in place "
               "only because its readers parse it and treat a parse failure as missing (checked). Removal order and "
               "reader gates are recorded. NOT decided: behaviour at each individual crash point (fault enumeration).")

CACHE = "liquer.cache"
STORE = "liquer.store"
WRITERS = [(CACHE, "FileCache", "store"), (CACHE, "FileCache", "store_metadata"),
           (STORE, "FileStore", "store"), (STORE, "FileStore", "store_metadata")]


def rule_write_protocol(chk, rid):
    repo = chk.repo
    chk.rule(rid, "write protocol: every final data path is produced by write-to-temporary + replace (never truncated in "
                  "place); in-place writes are accepted only for self-validating JSON metadata files whose readers treat a "
                  "parse failure as missing; every temporary write is followed by its replace on all paths")
    n = 0
    for modname, cn, mn in WRITERS:
        ci = repo.cls(modname, cn)
        fn = ci.methods.get(mn)
        if fn is None:
            raise AnalysisError(f"{modname}.{cn}.{mn} missing")
        mod = ci.module
        cfg, effs = write_effects(fn)
        ws = [e for e in effs if e.kind == "write"]
        if not ws:
            raise AnalysisError(f"{cn}.{mn}: no file write recognised")
        reps = [e for e in effs if e.kind == "replace"]
        for e in ws:
            n += 1
            kind = ctor_kind(e.ctor)
            if e.cls == UNKNOWN:
                chk.ob(rid, f"{ci.qual}.{mn}", False, f"write target `{U(e.call)[:60]}` is not derived from a path constructor",
                       e.call, mod, key="write:unknown")
            elif e.cls == FINAL and kind == "data":
                chk.ob(rid, f"{ci.qual}.{mn}", False,
                       f"in-place truncating write of the final data path (`{U(e.call)[:50]}`): a kill after truncate leaves an "
                       "empty/partial value that the reader serves as valid", e.call, mod, key="write:inplace-data")
            elif e.cls == FINAL:
                chk.ob(rid, f"{ci.qual}.{mn}", True, "in-place write of a self-validating JSON metadata file (reader check: rule C16.3)",
                       e.call, mod, key="write:inplace-metadata")
            else:
                same = [r for r in reps if r.text == e.text]
                ok = bool(same) and cfg.always_followed_by(e.node, [r.node for r in same])
                fk = ctor_kind(same[0].ctor) if same else "?"
                chk.ob(rid, f"{ci.qual}.{mn}", ok, f"temporary file `{e.text}` is replaced into the final {fk} path on every path",
                       e.call, mod, key=f"write:temp->{fk}")
        for r in [e for e in effs if e.kind == "replace?"]:
            chk.ob(rid, f"{ci.qual}.{mn}", False, f"`{U(r.call)[:60]}` is not a temp -> final replace", r.call, mod, key="replace-shape")
    chk.floor(rid, n, 4, "file writes in entry writers")
    # no other in-place data writer in the two classes (new writers are caught)
    for modname, cn in ((CACHE, "FileCache"), (STORE, "FileStore")):
        ci = repo.cls(modname, cn)
        for mn, fn in ci.methods.items():
            if (modname, cn, mn) in WRITERS or mn in ("openbin",):
                continue
            cfg, effs = write_effects(fn)
            for e in effs:
                if e.kind == "write":
                    chk.ob(rid, f"{ci.qual}.{mn}", e.cls == TEMP or ctor_kind(e.ctor) == "metadata",
                           f"additional writer `{U(e.call)[:50]}` ({e.cls}, {ctor_kind(e.ctor)})", e.call, ci.module, key="extra-writer")


def rule_readers(chk, rid):
    repo = chk.repo
    chk.rule(rid, "corrupt metadata is treated as missing: every json.load(s) of a metadata file in FileStore.get_metadata / "
                  "FileCache._load_metadata sits in a handler that yields not-found / None")
    n = 0
    for modname, cn, mn in ((CACHE, "FileCache", "_load_metadata"), (STORE, "FileStore", "get_metadata")):
        ci = repo.cls(modname, cn)
        fn = ci.methods.get(mn)
        if fn is None:
            raise AnalysisError(f"{cn}.{mn} missing")
        for t in [x for x in body_walk(fn) if isinstance(x, ast.Try)]:
            loads = [c for st in t.body for c in calls_in(st) if call_name(c) in ("json.loads", "json.load")]
            if not loads:
                continue
            for c in loads:
                n += 1
                ok = False
                for h in t.handlers:
                    catch_all = h.type is None or U(h.type) in ("Exception", "BaseException", "ValueError", "json.JSONDecodeError")
                    ends = h.body[-1] if h.body else None
                    yields_missing = (isinstance(ends, ast.Return) and is_none_const(ends.value)) or \
                        (isinstance(ends, ast.Raise) and "KeyNotFound" in U(ends))
                    if catch_all and yields_missing:
                        ok = True
                chk.ob(rid, f"{ci.qual}.{mn}", ok, "metadata parse failure yields not-found/None", c, ci.module, key="parse-guard")
        # loads outside any try
        in_try = {id(c) for t in [x for x in body_walk(fn) if isinstance(x, ast.Try)] for st in t.body for c in calls_in(st)}
        for c in calls_in(fn):
            if call_name(c) in ("json.loads", "json.load") and id(c) not in in_try:
                n += 1
                chk.ob(rid, f"{ci.qual}.{mn}", False, "metadata is parsed outside any handler: a torn metadata file raises into the caller",
                       c, ci.module, key="parse-guard")
    chk.floor(rid, n, 3, "metadata parse sites")
    # FileCache.get decodes inside a handler too (truncated/garbled data -> miss, for parsing types)
    ci = repo.cls(CACHE, "FileCache")
    g = ci.methods["get"]
    fb = [c for c in calls_in(g, tail="from_bytes")]
    in_try = {id(c) for t in [x for x in body_walk(g) if isinstance(x, ast.Try)] for st in t.body for c in calls_in(st)}
    chk.ob(rid, f"{ci.qual}.get", bool(fb) and all(id(c) in in_try for c in fb), "data decoding failure yields a miss", g, ci.module, key="decode-guard")


def rule_removal_order(chk, rid):
    repo = chk.repo
    chk.rule(rid, "removal order: FileCache.remove unlinks the data file before the state (marker) file, so a crash in "
                  "between leaves metadata without data (= miss), never data under a missing marker being resurrected")
    ci = repo.cls(CACHE, "FileCache")
    fn = ci.methods["remove"]
    cfg, effs = write_effects(fn)
    un = [e for e in effs if e.kind == "unlink"]
    kinds = [ctor_kind(e.ctor) for e in un]
    ok = "data" in kinds and "metadata" in kinds and kinds.index("data") < kinds.index("metadata")
    chk.ob(rid, f"{ci.qual}.remove", ok, f"unlink order is {kinds}", fn, ci.module, key="order")
    ci = repo.cls(STORE, "FileStore")
    fn = ci.methods["remove"]
    cfg, effs = write_effects(fn)
    kinds = [ctor_kind(e.ctor) for e in effs if e.kind == "unlink"]
    chk.ob(rid, f"{ci.qual}.remove", set(kinds) == {"data", "metadata"}, f"both halves are unlinked ({kinds}); either order leaves a "
           "complete readable half or nothing", fn, ci.module, key="both")


def run(chk):
    rule_write_protocol(chk, "C16.1")
    rule_readers(chk, "C16.3")
    rule_removal_order(chk, "C16.4")
    chk.extra["reader_gates"] = {"FileCache.get": "metadata status == ready AND data file exists AND decode succeeds",
                                 "FileStore.get_bytes": "data file exists"}
    X.rule_replace_after_close(chk, "C16.5")
    X.rule_filestore_temp_hidden(chk, "C16.6")
    X.rule_remove_matches_store(chk, "C16.7")
