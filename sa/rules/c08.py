"""C08 - recipes materialise on demand, once, as the serialised query result (structural clauses)."""
import ast
from ..core import (AnalysisError, U, calls_in, call_tail, call_recv, call_name, body_walk, kwarg)
from ..cfg import CFG, assigned_value
from ..lib import (params, returns_of, is_none_const, dominating_literals)
from . import cachefam as F

from . import extra as X

EXPLANATION = ("make-only-when-absent in the recipe store's get_bytes; declared keys visible through contains / is_dir / keys / "
               "listdir / get_metadata; life-cycle fields of recipe metadata; relative references resolved against the recipe's "
               "directory translated to a root key; one rule for the stored format across the three places that serialise under a "
               "store key; the evaluation routed to the root key; every state-returning exit of Context.evaluate (cache hit included) "
               "passing through _store_state. NOT decided: evaluation counts, byte equality with a direct evaluation, histories.")
RC = "liquer.recipes"
CTX = "liquer.context"
STORES = ["NewRecipeSpecStore"]


def rule_make_when_absent(chk, rid):
    repo = chk.repo
    chk.rule(rid, "make only when absent: in get_bytes the self.make(key) call is reached only when the sub-store does not contain the "
                  "key; a present key is served from the sub-store; after make the bytes are read from the sub-store")
    m = repo.module(RC)
    for cn in STORES + ["RecipeStore"]:
        if not repo.has_cls(RC, cn):
            continue
        ci = repo.cls(RC, cn)
        fn = ci.methods.get("get_bytes")
        if fn is None:
            continue
        cfg = CFG(fn)
        kp = params(fn)[1]
        mk = [c for c in calls_in(fn, tail="make") if call_recv(c) == "self"]
        if not mk:
            chk.ob(rid, f"{ci.qual}.get_bytes", False, "get_bytes never makes a declared key: recipes do not materialise on demand", fn, m, key="guard")
            continue
        lits = dominating_literals(cfg, cfg.node_of(mk[0]))
        ok = any(txt == f"self.substore.contains({kp})" and pol is False for _, txt, pol, _ in lits)
        chk.ob(rid, f"{ci.qual}.get_bytes", ok, "make(key) runs only when the sub-store lacks the key" if ok else
               "make(key) can run although the key is already materialised (re-evaluation on every read)", mk[0], m, key="guard")
        served = [r for r in returns_of(fn) if isinstance(r.value, ast.Call) and U(r.value) == f"self.substore.get_bytes({kp})"]
        after = [r for r in served if cfg.can_reach(cfg.node_of(mk[0]), cfg.node_of(r))]
        # some serving return is reachable without passing the make call (the make itself is guarded by `not contains`, above)
        before = [r for r in served if cfg.node_of(r) in cfg.reachable(cfg.entry, avoid=[cfg.node_of(mk[0])])]
        chk.ob(rid, f"{ci.qual}.get_bytes", bool(before), "a present key is served from the sub-store without evaluation", fn, m, key="serve-present")
        chk.ob(rid, f"{ci.qual}.get_bytes", bool(after), "after make the bytes are read back from the sub-store", fn, m, key="serve-after-make")
        chk.ob(rid, f"{ci.qual}.get_bytes", U(mk[0].args[0]) == kp, "the requested key is the one made", mk[0], m, key="same-key")


def rule_declared_visible(chk, rid):
    repo = chk.repo
    chk.rule(rid, "declared keys are visible before they exist: contains, is_dir, keys, listdir and get_metadata consult self.recipes() "
                  "in addition to the sub-store; recipe_metadata sets status RECIPE and has_recipe and takes title/description from the recipe")
    m = repo.module(RC)
    ci = repo.cls(RC, "NewRecipeSpecStore")
    for mn in ("contains", "is_dir", "keys", "listdir", "get_metadata"):
        fn = ci.methods.get(mn)
        if fn is None:
            raise AnalysisError(f"NewRecipeSpecStore.{mn} missing")
        t = U(fn)
        chk.ob(rid, f"{ci.qual}.{mn}", "self.recipes()" in t and "self.substore." in t, "consults the declared recipes and the sub-store", fn, m, key=f"union:{mn}")
    gm = ci.methods["get_metadata"]
    cfg = CFG(gm)
    kp = params(gm)[1]
    rm = [c for c in calls_in(gm, tail="recipe_metadata")]
    ok = len(rm) == 1 and any(txt == f"{kp} in self.recipes()" and pol for _, txt, pol, _ in dominating_literals(cfg, cfg.node_of(rm[0])))
    chk.ob(rid, f"{ci.qual}.get_metadata", ok, "a declared but not yet materialised key reports the recipe view", gm, m, key="recipe-view")
    rmf = ci.methods["recipe_metadata"]
    t = U(rmf).replace('"', "'")
    chk.ob(rid, f"{ci.qual}.recipe_metadata", "metadata['status'] = Status.RECIPE.value" in t, "status = recipe", rmf, m, key="status")
    chk.ob(rid, f"{ci.qual}.recipe_metadata", "metadata['has_recipe'] = True" in t, "has_recipe = True", rmf, m, key="has_recipe")
    chk.ob(rid, f"{ci.qual}.recipe_metadata", "recipe.metadata(key)" in t.replace(kp, "key"), "title/description come from the recipe", rmf, m, key="from-recipe")
    base = repo.func(RC, "Recipe.metadata")
    t = U(base).replace('"', "'")
    ok = "metadata.metadata['title'] = self.data['title']" in t and "metadata.metadata['description'] = self.data['description']" in t
    chk.ob(rid, f"{RC}.Recipe.metadata", ok, "declared title and description are reported", base, m, key="title-description")


def rule_life_cycle(chk, rid):
    repo = chk.repo
    chk.rule(rid, "life cycle: make never overwrites a non-NONE status coming from the evaluation, marks failures through "
                  "Metadata.exception, records the recipe (name, version) as a dependency, stores the merged metadata; remove "
                  "delegates to the sub-store only (so the key falls back to the recipe view)")
    m = repo.module(RC)
    ci = repo.cls(RC, "NewRecipeSpecStore")
    fn = ci.methods["make"]
    cfg = CFG(fn)
    t = U(fn)
    rdy = [s for s in body_walk(fn) if isinstance(s, ast.Assign) and U(s.targets[0]) == "m.status" and "READY" in U(s.value)]
    ok = len(rdy) == 1 and any("Status.NONE" in txt and pol for _, txt, pol, _ in dominating_literals(cfg, cfg.node_of(rdy[0])))
    chk.ob(rid, f"{ci.qual}.make", ok, "status becomes ready only if the evaluation left it at NONE", fn, m, key="status-ready")
    exc = [c for c in calls_in(fn, tail="exception") if call_recv(c) == "m"]
    def failure_flag(txt, pol):
        """the literal says 'the recipe raised': a local that is given a truthy value only inside an except handler of this function"""
        v, want_truthy = (txt, pol) if txt.isidentifier() else (txt[:-8], not pol) if txt.endswith(" is None") and txt[:-8].isidentifier() else (None, None)
        if v is None or not want_truthy:
            return False
        in_handler = {id(x) for t_ in body_walk(fn) if isinstance(t_, ast.Try) for h in t_.handlers for st_ in h.body for x in ast.walk(st_)}
        defs = [s_ for s_ in body_walk(fn) if isinstance(s_, ast.Assign) and any(U(tg) == v for tg in s_.targets)]
        if not defs:
            return False
        for d in defs:
            falsy = isinstance(d.value, ast.Constant) and not d.value.value
            if id(d) in in_handler:
                if falsy:
                    return False
            elif not falsy:
                return False
        return any(id(d) in in_handler for d in defs)
    ok = len(exc) == 1 and any(failure_flag(txt, pol) for _, txt, pol, _ in dominating_literals(cfg, cfg.node_of(exc[0])))
    chk.ob(rid, f"{ci.qual}.make", ok, "a failing recipe leaves error metadata", fn, m, key="error-metadata")
    dep = [c for c in calls_in(fn, tail="add_recipe_dependency")]
    chk.ob(rid, f"{ci.qual}.make", len(dep) == 1 and U(dep[0].args[0]) == "recipe", "the recipe (name, version) is recorded as a dependency", fn, m, key="dependency")
    sm = [c for c in calls_in(fn, tail="store_metadata") if call_recv(c) == "self.substore"]
    chk.ob(rid, f"{ci.qual}.make", len(sm) == 1 and U(sm[0].args[0]) == params(fn)[1], "merged metadata is stored under the key", fn, m, key="store-merged")
    strip = {"status", "is_error", "log", "dependencies"}
    chk.ob(rid, f"{ci.qual}.make", all(f"'{k}'" in t for k in strip), "life-cycle fields of the recipe view do not overwrite the evaluation's", fn, m, key="strip-fields")
    rm = ci.methods["remove"]
    cs = [c for c in calls_in(rm) if call_recv(c) == "self.substore"]
    ok = len(cs) == 1 and call_tail(cs[0]) == "remove" and U(cs[0].args[0]) == params(rm)[1] and not [c for c in calls_in(rm) if "recipes" in U(c)]
    chk.ob(rid, f"{ci.qual}.remove", ok, "remove deletes the materialised entry only; the declaration stays", rm, m, key="remove")
    dp = repo.func("liquer.metadata", "Metadata.add_recipe_dependency")
    chk.ob(rid, "liquer.metadata.Metadata.add_recipe_dependency", "add_recipe_dependency(recipe" in U(dp), "delegates to Dependencies.add_recipe_dependency", dp, repo.module("liquer.metadata"), key="dep-delegate")


def rule_relative_paths(chk, rid):
    repo = chk.repo
    chk.rule(rid, "relative paths are resolved against the recipe's directory: both branches of resolve_recipe_definition pass the "
                  "parsed query through to_absolute(directory) and print the absolute query; update_recipes passes the working "
                  "directory translated to a root key")
    m = repo.module(RC)
    fn = repo.func(RC, "resolve_recipe_definition")
    dp = params(fn)[1]
    ps = [c for c in calls_in(fn) if call_name(c) == "parse"]
    chk.floor(rid, len(ps), 2, "parse calls in resolve_recipe_definition")
    for c in ps:
        ok = False
        for x in calls_in(fn, tail="to_absolute"):
            if x.func.value is c and x.args and U(x.args[0]) == dp:
                ok = True
        chk.ob(rid, f"{RC}.resolve_recipe_definition", ok, f"`{U(c)}` is resolved with .to_absolute({dp})" if ok else
               f"`{U(c)}` is not resolved against the recipe directory", c, m, key=f"abs:{U(c.args[0])}")
    ds = [d for d in ast.walk(fn) if isinstance(d, ast.Call) and call_name(d) == "dict" and any(k.arg == "query" for k in d.keywords)]
    for d in ds:
        kv = {k.arg: U(k.value) for k in d.keywords}
        chk.ob(rid, f"{RC}.resolve_recipe_definition", kv.get("query") == "query.encode()" and kv.get("CWD") == dp, "the recipe records the absolute query and its directory", d, m, key="recorded")
    ur = repo.func(RC, "NewRecipeSpecStore.update_recipes")
    cs = [c for c in calls_in(ur) if call_name(c) == "resolve_recipe_definition"]
    ok = len(cs) == 1 and isinstance(cs[0].args[1], ast.Call) and call_name(cs[0].args[1]) == "self.to_root_key" and U(cs[0].args[1].args[0]) == "cwd"
    chk.ob(rid, f"{RC}.NewRecipeSpecStore.update_recipes", ok, "the directory handed over is self.to_root_key(cwd)" if ok else
           f"the directory handed over is `{U(cs[0].args[1]) if cs else None}`: relative references of a mounted recipe store resolve against the wrong root",
           cs[0] if cs else ur, m, key="root-translated")
    t = U(ur)
    from ..lib import conditional_values
    from ..cfg import CFG as _CFG
    ucfg = _CFG(ur)
    cwd_ok = False
    if cs:
        alts = conditional_values(ucfg, cs[0].args[1].args[0] if isinstance(cs[0].args[1], ast.Call) and cs[0].args[1].args else cs[0].args[1], ucfg.node_of(cs[0]), depth=1)
        got = {(U(v), ("directory == self.LOCAL_RECIPES", True) in f, ("directory == self.LOCAL_RECIPES", False) in f) for v, f in alts}
        cwd_ok = got == {("parent", True, False), ("join_key(parent, directory)", False, True)}
    chk.ob(rid, f"{RC}.NewRecipeSpecStore.update_recipes", cwd_ok, "cwd = folder of recipes.yaml or its declared sub-directory", ur, m, key="cwd")
    chk.ob(rid, f"{RC}.NewRecipeSpecStore.update_recipes", ("key = join_key(cwd, name)" in t and "recipes[key] = recipe" in t) or "recipes[join_key(cwd, name)] = recipe" in t, "provided names are registered under cwd", ur, m, key="register")


def rule_stored_format(chk, rid):
    repo = chk.repo
    chk.rule(rid, "one rule for the stored format (sibling cross-check): the places in Context that serialise a value under a store "
                  "key derive the extension passed to encode_state_data from the key being written (falling back to the query's)")
    m = repo.module(CTX)
    for fname in ("Context.store_data", "Context._store_state"):
        fn = repo.func(CTX, fname)
        cfg = CFG(fn)
        enc = [c for c in calls_in(fn) if call_name(c) == "encode_state_data"]
        if not enc:
            raise AnalysisError(f"{fname}: encode_state_data call not found")
        keyexpr = "key" if fname.endswith("store_data") else "self.store_key"
        for c in enc:
            e = kwarg(c, "extension")
            src = e
            if isinstance(e, ast.Name):
                ds = cfg.reaching_defs(e.id, cfg.node_of(c))
                vals = [assigned_value(cfg, d, e.id) for d in ds if d != cfg.entry]
                src = vals[0] if len(vals) == 1 else None
            ok = src is not None and f"key_extension({keyexpr})" in U(src) and (U(src).startswith(f"key_extension({keyexpr})"))
            chk.ob(rid, f"{CTX}.{fname}", ok, f"extension = `{U(src)}`" + ("" if ok else f": the stored format does not follow the extension of {keyexpr}"),
                   c, m, key="ext-from-key")
        st = [c for c in calls_in(fn, tail="store") if call_recv(c) == "store"]
        chk.ob(rid, f"{CTX}.{fname}", len(st) >= 1 and all(U(c.args[0]) == keyexpr and U(c.args[1]) == "b" for c in st), "the encoded bytes are stored under that key", fn, m, key="store-bytes")
    ss = repo.func(CTX, "Context._store_state")
    cfg = CFG(ss)
    sm = [c for c in calls_in(ss, tail="store_metadata") if call_recv(c) == "store"]
    ok = any(any(txt == "state.is_error" and pol for _, txt, pol, _ in dominating_literals(cfg, cfg.node_of(c))) for c in sm)
    chk.ob(rid, f"{CTX}.Context._store_state", ok, "a failed evaluation stores metadata only (no data)", ss, m, key="error-metadata-only")
    g = [c for c in calls_in(ss, tail="get") if call_recv(c) == "state"]
    chk.ob(rid, f"{CTX}.Context._store_state", bool(g), "data is obtained through the raising accessor", ss, m, key="state-get")
    lits = [dominating_literals(cfg, cfg.node_of(c)) for c in calls_in(ss, tail="store") if call_recv(c) == "store"]
    chk.ob(rid, f"{CTX}.Context._store_state", all(any(txt == "self.store_key is None" and pol is False for _, txt, pol, _ in l) for l in lits) and bool(lits),
           "nothing is stored without a store key", ss, m, key="needs-key")


def rule_routing(chk, rid):
    repo = chk.repo
    chk.rule(rid, "evaluation is routed to the right key: make calls the recipe with self.to_root_key(key); QueryRecipe.make evaluates "
                  "the recipe's query with store_key=key (and the store, if given)")
    m = repo.module(RC)
    mk = repo.func(RC, "NewRecipeSpecStore.make")
    cs = [c for c in calls_in(mk, tail="make") if call_recv(c) == "recipe"]
    ok = len(cs) == 1 and U(cs[0].args[0]) == f"self.to_root_key({params(mk)[1]})"
    chk.ob(rid, f"{RC}.NewRecipeSpecStore.make", ok, "recipe.make(self.to_root_key(key))", mk, m, key="root-key")
    qm = repo.func(RC, "QueryRecipe.make")
    ev = [c for c in calls_in(qm, tail="evaluate")]
    ok = len(ev) == 1 and U(ev[0].args[0]).replace('"', "'") == "self.data['query']" and U(kwarg(ev[0], "store_key")) == params(qm)[1] and U(kwarg(ev[0], "store_to")) == "store"
    chk.ob(rid, f"{RC}.QueryRecipe.make", ok, "context.evaluate(self.data['query'], store_key=key, store_to=store)", qm, m, key="evaluate")
    ev2 = F.Evaluate(repo)
    sk = [s for s in body_walk(ev2.fn) if isinstance(s, ast.Assign) and U(s.targets[0]) == "self.store_key"]
    chk.ob(rid, f"{CTX}.Context.evaluate", len(sk) == 1 and U(sk[0].value) == "store_key", "the context remembers the store key", ev2.fn, ev2.mod, key="remember-key")
    sk_n = ev2.node(sk[0]) if sk else None
    for c in ev2.store_state_calls:
        chk.ob(rid, f"{CTX}.Context.evaluate", sk_n is not None and ev2.cfg.dominates(sk_n, ev2.node(c)), "store key is set before any result is materialised", c, ev2.mod, key="key-before-store", nontrivial=False)


def rule_every_exit_materialises(chk, rid):
    ev = F.Evaluate(chk.repo)
    chk.rule(rid, "a cache hit still materialises the key: every state-returning exit of Context.evaluate (cache hit, resource, error "
                  "short-circuit, empty action, main) passes through self._store_state(state); only the sub-query delegation is exempt "
                  "(the child does it)")
    cfg = ev.cfg
    C = f"{CTX}.Context.evaluate"
    ss = [ev.node(c) for c in ev.store_state_calls]
    chk.floor(rid, len(ss), 1, "_store_state call sites")
    n = 0
    for r in cfg.returns():
        if not cfg.is_reachable(r):
            continue
        if ev.is_delegation_exit(r):
            continue
        n += 1
        ok = cfg.set_dominates(ss, r)
        chk.ob(rid, C, ok, f"exit at line {cfg.nodes[r].lineno} passes through _store_state" if ok else
               f"exit at line {cfg.nodes[r].lineno} returns without _store_state: a recipe whose query is served by this exit is never written under its key",
               cfg.nodes[r].ast, ev.mod, key=f"exit:{len([x for x in cfg.returns() if x < r])}")
    chk.floor(rid, n, 5, "state-returning exits")


def run(chk):
    rule_make_when_absent(chk, "C08.1")
    rule_declared_visible(chk, "C08.2")
    rule_life_cycle(chk, "C08.3")
    rule_relative_paths(chk, "C08.4")
    rule_stored_format(chk, "C08.5")
    rule_routing(chk, "C08.6")
    rule_every_exit_materialises(chk, "C08.7")
    chk.xref("NewRecipeSpecStore.update_recipes dereferences `d` after testing it for None and reuses a stale `recipe` after a failed construction")
    X.rule_remove_both_unconditional(chk, "C08.8")
    from . import c14
    c14.rule_prefix_algebra(chk, "C08.9")
    c14.rule_last_mount_wins(chk, "C08.10")
    rule_recipes_file_key(chk, "C08.11")


def rule_recipes_file_key(chk, rid):
    """The key of the recipes file recorded in each declared recipe (`recipes_key`, and through it `recipe_name`) is the key of the file
    being read: the variable of the loop over the sub-store's keys, read where no inner re-binding of that name can reach."""
    repo = chk.repo
    chk.rule(rid, "update_recipes records the key of the recipes file being read: the argument of to_root_key in `d['recipes_key']` / "
                  "`d['recipe_name']` is reached only by the binding of the loop over substore.keys() (directly or through a copy taken "
                  "before the per-recipe loops), never by a name re-bound inside them")
    m = repo.module(RC)
    fn = repo.func(RC, "NewRecipeSpecStore.update_recipes")
    cfg = CFG(fn)
    C = f"{RC}.NewRecipeSpecStore.update_recipes"
    outer = [n for n in cfg.nodes if n.kind == "for" and "substore.keys()" in U(n.ast.iter)]
    if len(outer) != 1:
        raise AnalysisError("update_recipes: loop over substore.keys() not found")
    ov = U(outer[0].ast.target)
    sites = []
    for n in cfg.nodes:
        if n.kind == "stmt" and isinstance(n.ast, ast.Assign) and U(n.ast.targets[0]).replace('"', "'") in ("d['recipes_key']", "d['recipe_name']"):
            for c in ast.walk(n.ast.value):
                if isinstance(c, ast.Call) and call_name(c) == "self.to_root_key" and c.args:
                    sites.append((n, c.args[0]))
    chk.floor(rid, len(sites), 1, "to_root_key(<recipes file key>) sites")

    def only_outer(name, at, depth=2):
        ds = cfg.reaching_defs(name, at)
        if not ds or cfg.entry in ds:
            return False
        for d in ds:
            if d == outer[0].id and name == ov:
                continue
            v = assigned_value(cfg, d, name)
            if depth > 0 and isinstance(v, ast.Name) and only_outer(v.id, d, depth - 1):
                continue
            return False
        return True

    for n, a in sites:
        ok = isinstance(a, ast.Name) and only_outer(a.id, n.id)
        chk.ob(rid, C, ok, f"`{U(n.ast.targets[0])}` is built from `{U(a)}`, bound only by the loop over the recipes files" if ok else
               f"`{U(n.ast.targets[0])}` is built from `{U(a)}`, which an inner statement re-binds (e.g. `{ov} = join_key(cwd, name)`): every recipe after "
               "the first records the previous recipe's key as its recipes file", n.ast, m, key=f"file-key:{U(n.ast.targets[0])}")
