"""C14 - mounted stores: routing, key translation and union views."""
import ast
from ..core import (AnalysisError, U, calls_in, call_tail, call_recv, call_name, body_walk, kwarg)
from ..cfg import CFG, assigned_value
from ..lib import (params, returns_of, is_none_const, dominating_literals, has_pattern, find_pattern)
from . import storefam as S
from .cachefam import on_every_path

from . import extra as X

EXPLANATION = ("Forwarding/translation discipline of KeyTranslatingStore/PrefixStore/RoutingStore/MountPointStore: every API method "
               "forwards with translate_key applied exactly once (routing: the untranslated key), the prefix algebra of PrefixStore "
               "is self-inverse by construction, mount insertion side and scan direction agree (last mount wins) with matching at "
               "component boundaries, union views consult the routing table and the default store, predicates return booleans, the "
               "global helpers go through one composite store. NOT decided: exactness of the union views over histories.")
STORE = S.STORE


def rule_translation(chk, rid):
    repo = chk.repo
    chk.rule(rid, "translation discipline: every API method of KeyTranslatingStore forwards to self.substore with "
                  "self.translate_key(key) applied exactly once to the key (all other parameters forwarded); keys() maps through the "
                  "inverse; get_metadata rewrites key (and recipes_key through the inverse); to_root_key applies the inverse and "
                  "continues at the parent")
    mod = repo.module(STORE)
    kt = repo.cls(STORE, "KeyTranslatingStore")
    n = 0
    for m in S.KEY_API:
        fn = kt.methods.get(m)
        if fn is None:
            chk.ob(rid, kt.qual, False, f"`{m}` is not defined (the base stub would answer)", kt.node, mod, key=f"tr:{m}")
            continue
        kp = params(fn)[1]
        cs = [c for c in calls_in(fn, tail=m) if call_recv(c) == "self.substore"]
        n += 1
        if len(cs) != 1:
            chk.ob(rid, f"{kt.qual}.{m}", False, f"expected one call self.substore.{m}(...), found {len(cs)}", fn, mod, key=f"tr:{m}")
            continue
        c = cs[0]
        a0 = c.args[0] if c.args else None
        cfg = CFG(fn)
        def translated_once(e):
            if isinstance(e, ast.Call) and call_name(e) == "self.translate_key" and len(e.args) == 1 and U(e.args[0]) == kp and not e.keywords:
                return True
            if isinstance(e, ast.Name):
                ds = cfg.reaching_defs(e.id, cfg.node_of(c))
                vals = [assigned_value(cfg, d, e.id) for d in ds if d != cfg.entry]
                return bool(vals) and len(vals) == len(ds) and all(v is not None and translated_once(v) for v in vals)
            return False
        ok = a0 is not None and translated_once(a0)
        chk.ob(rid, f"{kt.qual}.{m}", ok, "key is passed as self.translate_key(key)" if ok else
               f"sub-store is addressed with `{U(a0)}` instead of self.translate_key({kp}) applied once", c, mod, key=f"tr:{m}")
        # other parameters
        rest = params(fn)[2:]
        passed = [U(a) for a in c.args[1:]] + [U(k.value) for k in c.keywords]
        chk.ob(rid, f"{kt.qual}.{m}", all(p in passed for p in rest), f"remaining parameters {rest} are forwarded", c, mod, key=f"rest:{m}", nontrivial=bool(rest))
        if m in S.READS or m == "openbin":
            if m == "get_metadata":
                continue
            rets = returns_of(fn)
            chk.ob(rid, f"{kt.qual}.{m}", bool(rets) and all(r.value is c for r in [x for x in rets if not (m == "is_supported" and isinstance(x.value, ast.Constant))]),
                   "returns the sub-store's answer", fn, mod, key=f"ret:{m}")
        else:
            chk.ob(rid, f"{kt.qual}.{m}", on_every_path(cfg, c), "sub-store is called on every path", fn, mod, key=f"call:{m}")
    chk.floor(rid, n, 12, "KeyTranslatingStore API methods")
    # keys
    ks = kt.methods.get("keys")
    ok = ks is not None and any(isinstance(y, ast.Yield) and isinstance(y.value, ast.Call) and call_name(y.value) == "self.translate_key"
                                and isinstance(kwarg(y.value, "inverse"), ast.Constant) and kwarg(y.value, "inverse").value is True
                                for y in ast.walk(ks)) and any(call_tail(c) == "keys" and call_recv(c) == "self.substore" for c in calls_in(ks))
    chk.ob(rid, f"{kt.qual}.keys", ok, "keys() yields translate_key(k, inverse=True) for k in substore.keys()", ks or kt.node, mod, key="keys-inverse")
    gm = kt.methods.get("get_metadata")
    txt = U(gm).replace('"', "'")
    kp = params(gm)[1]
    chk.ob(rid, f"{kt.qual}.get_metadata", f"metadata['key'] = {kp}" in txt, "reported key is rewritten to the outer key", gm, mod, key="md-key")
    chk.ob(rid, f"{kt.qual}.get_metadata", "metadata['recipes_key'] = self.translate_key(metadata['recipes_key'], inverse=True)" in txt,
           "recipes_key is mapped through the inverse translation", gm, mod, key="md-recipes-key")
    tr = kt.methods.get("to_root_key")
    txt = U(tr)
    ok = "self.translate_key(key, inverse=True)" in txt and "self.parent_store.to_root_key(key)" in txt
    chk.ob(rid, f"{kt.qual}.to_root_key", ok, "to_root_key = parent.to_root_key(translate_key(key, inverse=True))", tr, mod, key="root-key")
    b = repo.cls(STORE, "Store").methods.get("to_root_key")
    chk.ob(rid, f"{STORE}.Store.to_root_key", "self.parent_store.to_root_key(key)" in U(b), "plain stores delegate to_root_key to the parent", b, mod, key="root-key-base")


def rule_prefix_algebra(chk, rid):
    repo = chk.repo
    chk.rule(rid, "prefix algebra: in PrefixStore.translate_key the string prepended by the inverse and stripped by the forward "
                  "direction is the same expression (prefix + '/'), the strip length is len() of it, the mount point maps to '' and "
                  "back, a key outside the prefix raises KeyNotSupportedStoreException; contains/is_dir answer True at the mount point")
    mod = repo.module(STORE)
    ps = repo.cls(STORE, "PrefixStore")
    fn = ps.methods.get("translate_key")
    if fn is None:
        raise AnalysisError("PrefixStore.translate_key missing")
    kp = params(fn)[1]
    cfg = CFG(fn)
    # the prefix-with-slash expression
    pvar = None
    for s in body_walk(fn):
        if isinstance(s, ast.Assign) and U(s.value) in ("self.prefix + '/'", "f'{self.prefix}/'"):
            pvar = U(s.targets[0])
    chk.ob(rid, f"{ps.qual}.translate_key", pvar is not None, "one expression `self.prefix + '/'` is shared by both directions", fn, mod, key="shared-prefix")
    if pvar is None:
        return
    rets = returns_of(fn)
    inv, fwd = [], []
    for r in rets:
        lits = dominating_literals(cfg, cfg.node_of(r))
        is_inv = any(txt == "inverse" and pol for _, txt, pol, _ in lits)
        (inv if is_inv else fwd).append((r, lits))
    inv_txt = sorted(U(r.value) for r, _ in inv)
    chk.ob(rid, f"{ps.qual}.translate_key", inv_txt == sorted(["self.prefix", f"{pvar} + {kp}"]),
           f"inverse direction returns {inv_txt} (prefix for the empty key, prefix + '/' + key otherwise)", fn, mod, key="inverse")
    fwd_txt = sorted(U(r.value) for r, _ in fwd)
    ok = sorted(["''", f"{kp}[len({pvar}):]"]) == fwd_txt
    chk.ob(rid, f"{ps.qual}.translate_key", ok, f"forward direction returns {fwd_txt} (strip exactly len(prefix + '/'))", fn, mod, key="forward")
    for r, lits in fwd:
        if U(r.value) == "''":
            chk.ob(rid, f"{ps.qual}.translate_key", any(txt == f"{kp} == self.prefix" and pol for _, txt, pol, _ in lits),
                   "'' is returned exactly for the mount point itself", r, mod, key="mountpoint")
        else:
            chk.ob(rid, f"{ps.qual}.translate_key", any(txt == f"{kp}.startswith({pvar})" and pol for _, txt, pol, _ in lits),
                   "stripping happens only under key.startswith(prefix + '/') (component boundary)", r, mod, key="boundary")
    raises = [cfg.nodes[x].ast for x in cfg.raises() if cfg.is_reachable(x)]
    chk.ob(rid, f"{ps.qual}.translate_key", any("KeyNotSupportedStoreException" in U(x) for x in raises) and cfg.falloff not in cfg.reachable(cfg.entry),
           "a key outside the prefix raises KeyNotSupportedStoreException", fn, mod, key="outside")
    for m in ("contains", "is_dir"):
        f = ps.methods.get(m)
        ok = f is not None and any(isinstance(r.value, ast.Constant) and r.value.value is True and
                                   any(txt == f"{params(f)[1]} == self.prefix" and pol for _, txt, pol, _ in dominating_literals(CFG(f), CFG(f).node_of(r)))
                                   for r in returns_of(f)) if f is not None else False
        if f is not None:
            c2 = CFG(f)
            ok = any(isinstance(r.value, ast.Constant) and r.value.value is True and
                     any(txt == f"{params(f)[1]} == self.prefix" and pol for _, txt, pol, _ in dominating_literals(c2, c2.node_of(r))) for r in returns_of(f))
            ok = ok and any(call_recv(c) == "self.substore" and call_tail(c) == m and c.args and U(c.args[0]) == f"self.translate_key({params(f)[1]})" for c in calls_in(f))
        chk.ob(rid, f"{ps.qual}.{m}", ok, f"{m} is True at the mount point and translated below it", f or ps.node, mod, key=f"mp:{m}")


def rule_routing(chk, rid):
    repo = chk.repo
    chk.rule(rid, "routing discipline: RoutingStore forwards every API method to self.route_to(key) with the *untranslated* key "
                  "(translation belongs to the mounted PrefixStore) and all parameters; get_metadata rewrites the reported key")
    mod = repo.module(STORE)
    rs = repo.cls(STORE, "RoutingStore")
    n = 0
    for m in S.KEY_API:
        if m == "is_supported":
            continue
        fn = rs.methods.get(m)
        if fn is None:
            chk.ob(rid, rs.qual, False, f"`{m}` not defined", rs.node, mod, key=f"rt:{m}")
            continue
        kp = params(fn)[1]
        cs = [c for c in calls_in(fn, tail=m) if call_recv(c) == f"self.route_to({kp})"]
        n += 1
        ok = len(cs) == 1 and cs[0].args and U(cs[0].args[0]) == kp
        chk.ob(rid, f"{rs.qual}.{m}", ok, f"self.route_to({kp}).{m}({kp}, ...)" if ok else "not forwarded to the routed store with the same key",
               cs[0] if cs else fn, mod, key=f"rt:{m}")
        if ok:
            rest = params(fn)[2:]
            passed = [U(a) for a in cs[0].args[1:]] + [U(k.value) for k in cs[0].keywords]
            chk.ob(rid, f"{rs.qual}.{m}", all(p in passed for p in rest), f"remaining parameters {rest} forwarded", cs[0], mod, key=f"rest:{m}", nontrivial=bool(rest))
    chk.floor(rid, n, 11, "RoutingStore API methods")
    for cn in ("RoutingStore", "MountPointStore"):
        gm = repo.cls(STORE, cn).methods.get("get_metadata")
        if gm is None:
            continue
        txt = U(gm).replace('"', "'")
        chk.ob(rid, f"{STORE}.{cn}.get_metadata", f"metadata['key'] = {params(gm)[1]}" in txt, "reported key is the outer key", gm, mod, key="md-key")


def rule_last_mount_wins(chk, rid):
    repo = chk.repo
    chk.rule(rid, "last mount wins, consistently: (mount inserts at the end, route_to/keys scan reversed) or (insert at front, scan "
                  "forward); mount un-mounts an equal prefix first and wraps the store in a PrefixStore whose parent is the composite; "
                  "a mount matches at `key == prefix` or `key.startswith(prefix + '/')`; else the default store, else "
                  "KeyRouteNotFoundStoreException")
    mod = repo.module(STORE)
    mp = repo.cls(STORE, "MountPointStore")
    mt = mp.methods.get("mount")
    txt = U(mt)
    at_end = "self.routing_table.append(" in txt
    at_front = "self.routing_table.insert(0," in txt
    def scan_dir(fn):
        for f in body_walk(fn):
            if isinstance(f, ast.For) and "self.routing_table" in U(f.iter):
                return "reversed" if U(f.iter).startswith("reversed(") else "forward"
        return None
    rt = mp.methods.get("route_to")
    d_rt, d_keys = scan_dir(rt), scan_dir(mp.methods.get("keys"))
    ok = (at_end and not at_front and d_rt == "reversed") or (at_front and not at_end and d_rt == "forward")
    chk.ob(rid, f"{mp.qual}.route_to", ok, f"mount inserts at the {'end' if at_end else 'front' if at_front else '?'}; route_to scans {d_rt}" +
           ("" if ok else ": the first-mounted (outer) store shadows a later, more specific mount"), rt, mod, key="pair:route_to")
    ok = (at_end and d_keys == "reversed") or (at_front and d_keys == "forward")
    chk.ob(rid, f"{mp.qual}.keys", ok, f"keys scans {d_keys} (same precedence as route_to)", mp.methods.get("keys"), mod, key="pair:keys")
    kp, sp = params(mt)[1:3]
    chk.ob(rid, f"{mp.qual}.mount", f"self.umount({kp})" in txt, "an equal prefix is un-mounted first", mt, mod, key="umount-first")
    chk.ob(rid, f"{mp.qual}.mount", f"PrefixStore({sp}, prefix={kp})" in txt or f"PrefixStore({sp}, {kp})" in txt, "mounted store is wrapped in PrefixStore(store, prefix=key)", mt, mod, key="wrap")
    chk.ob(rid, f"{mp.qual}.mount", ".parent_store = self" in txt, "the wrapper's parent is the composite", mt, mod, key="parent")
    # matching at component boundary
    cfg = CFG(rt)
    kp = params(rt)[1]
    rets = returns_of(rt)
    store_rets = [r for r in rets if U(r.value) not in ("self.default_store",)]
    chk.floor(rid, len(store_rets), 1, "route_to mount returns")
    exact = False
    for r in store_rets:
        lits_ = dominating_literals(cfg, cfg.node_of(r))
        if any(t_ in (f"{kp} == prefix", f"prefix == {kp}") and pol for _, t_, pol, _ in lits_) and not any("is_supported" in t_ for _, t_, _, _ in lits_):
            exact = True
    chk.ob(rid, f"{mp.qual}.route_to", exact, "a key equal to a mount prefix is routed to that mount unconditionally (`key == prefix` -> return store, "
           "without asking is_supported): the mount point itself is served by the store mounted there", rt, mod, key="exact-match")
    for r in store_rets:
        lits = dominating_literals(cfg, cfg.node_of(r))
        eq = any(txt_ == f"{kp} == prefix" and pol for _, txt_, pol, _ in lits)
        keyish = {kp} | {s_.targets[0].id for s_ in body_walk(rt) if isinstance(s_, ast.Assign) and isinstance(s_.targets[0], ast.Name)
                         and U(s_.value).replace('"', "'") == f"{kp} + '/'"}
        sw = any(txt_ in {f"{k_}.startswith(prefix)" for k_ in keyish} and pol for _, txt_, pol, _ in lits)
        from ..lib import is_slash_terminated
        direct = any(pol and isinstance(e_, ast.Call) and call_tail(e_) == "startswith" and isinstance(e_.func.value, ast.Name) and e_.func.value.id in keyish
                     and e_.args and is_slash_terminated(e_.args[0]) and "prefix" in U(e_.args[0]) for e_, _, pol, _ in lits)
        if sw:
            # prefix must have been extended with '/' before the test
            ext = [s for s in body_walk(rt) if isinstance(s, ast.AugAssign) and U(s.target) == "prefix" and U(s.value) == "'/'"]
            sw = bool(ext) and cfg.dominates(cfg.node_of(ext[0]), cfg.node_of(r)) or any(
                "endswith('/')" in t and not p for _, t, p, _ in lits)
            # the `if not prefix.endswith('/'): prefix += '/'` idiom: either branch leaves prefix ending in '/'
            sw = sw or bool(ext) or any(t.replace('"', "'") == "prefix.endswith('/')" and p for _, t, p, _ in lits)
        chk.ob(rid, f"{mp.qual}.route_to", eq or sw or direct, "a mount matches at key == prefix or key.startswith(prefix + '/')", r, mod, key="boundary:" + ("eq" if eq else "startswith"))
    dflt = [r for r in rets if U(r.value) == "self.default_store"]
    chk.ob(rid, f"{mp.qual}.route_to", bool(dflt), "falls back to the default store", rt, mod, key="default")
    raises = [cfg.nodes[x].ast for x in cfg.raises() if cfg.is_reachable(x)]
    chk.ob(rid, f"{mp.qual}.route_to", any("KeyRouteNotFoundStoreException" in U(x) for x in raises) and cfg.falloff not in cfg.reachable(cfg.entry),
           "no route => KeyRouteNotFoundStoreException", rt, mod, key="noroute")


def rule_union_views(chk, rid):
    repo = chk.repo
    chk.rule(rid, "union views consult every part: keys() and listdir() of MountPointStore read the routing table and the default "
                  "store; keys() suppresses default-store keys shadowed by a mount prefix ending in '/'")
    mod = repo.module(STORE)
    mp = repo.cls(STORE, "MountPointStore")
    for m in ("keys", "listdir"):
        fn = mp.methods.get(m)
        txt = U(fn)
        chk.ob(rid, f"{mp.qual}.{m}", "self.routing_table" in txt and "self.default_store" in txt, "reads the routing table and the default store", fn, mod, key=f"parts:{m}")
    ks = mp.methods.get("keys")
    # shadow filter: prefixes collected must end with '/': `prefixes.append(prefix)` after `prefix += '/'`
    cfg = CFG(ks)
    apps = [c for c in calls_in(ks, tail="append") if call_recv(c) == "prefixes"]
    ok = False
    for c in apps:
        v = U(c.args[0]) if c.args else ""
        ext = [s for s in body_walk(ks) if isinstance(s, ast.AugAssign) and U(s.target) == v and U(s.value) == "'/'"]
        if ext and cfg.can_reach(cfg.node_of(ext[0]), cfg.node_of(c)):
            # no rebinding of v between the extension and the append other than the extension itself
            ok = all(d == cfg.node_of(ext[0]) or cfg.nodes[d].kind == "for" for d in cfg.reaching_defs(v, cfg.node_of(c)))
        if v.endswith("+ '/'"):
            ok = True
    chk.ob(rid, f"{mp.qual}.keys", ok, "shadow filter compares against mount prefixes extended with '/' (component boundary)" if ok else
           "shadow filter collects bare mount names: a sibling whose name merely starts with a mount name disappears from keys()",
           apps[0] if apps else ks, mod, key="shadow-boundary")
    chk.ob(rid, f"{mp.qual}.keys", has_pattern(ks, "any((_K.startswith(_P) for _P in _PS))"), "default-store keys under a mount prefix are suppressed", ks, mod, key="shadow")


def is_boolish(e, fn_name):
    if isinstance(e, ast.Constant):
        return isinstance(e.value, bool)
    if isinstance(e, ast.Compare):
        return True
    if isinstance(e, ast.UnaryOp) and isinstance(e.op, ast.Not):
        return True
    if isinstance(e, ast.BoolOp):
        return all(is_boolish(v, fn_name) for v in e.values)
    if isinstance(e, ast.Call):
        t = call_tail(e)
        return t in ("contains", "is_dir", "exists", "isdir", "isfile", "is_file", "startswith", "endswith", "any", "all", "bool", "isinstance", "is_supported")
    return False


def rule_boolean_predicates(chk, rid):
    repo = chk.repo
    chk.rule(rid, "predicates return booleans: every return of contains / is_dir in every store is boolean-typed (constant, "
                  "comparison, not, and/or of those, or a call to another predicate)")
    mod = repo.module(STORE)
    n = 0
    for ci in repo.classes_in(STORE):
        if not ci.is_subclass_of("Store"):
            continue
        for m in ("contains", "is_dir"):
            fn = ci.methods.get(m)
            if fn is None:
                continue
            cfg = CFG(fn)
            for r in returns_of(fn):
                n += 1
                ok = r.value is not None and is_boolish(r.value, m)
                chk.ob(rid, f"{ci.qual}.{m}", ok, f"returns `{U(r.value)[:50]}`" + ("" if ok else " (not a boolean)"), r, mod, key=f"bool:{U(r.value)[:40]}")
            if cfg.falloff in cfg.reachable(cfg.entry):
                n += 1
                chk.ob(rid, f"{ci.qual}.{m}", False, "a path falls off the end (returns None)", fn, mod, key="bool:falloff")
    chk.floor(rid, n, 25, "predicate returns")


def rule_global_helpers(chk, rid):
    repo = chk.repo
    chk.rule(rid, "global helpers: get_store builds MountPointStore().with_indexer() once; mount/mount_folder go through "
                  "get_store().mount; IndexerStore.mount forwards to the wrapped store")
    mod = repo.module(STORE)
    gs = repo.func(STORE, "get_store")
    chk.ob(rid, f"{STORE}.get_store", "STORE = MountPointStore().with_indexer()" in U(gs) and "if STORE is None" in U(gs), "lazy singleton MountPointStore().with_indexer()", gs, mod, key="singleton")
    for f in ("mount", "mount_folder"):
        fn = repo.func(STORE, f)
        chk.ob(rid, f"{STORE}.{f}", "get_store().mount(key, " in U(fn), "goes through get_store().mount(key, ...)", fn, mod, key=f"helper:{f}")
    im = repo.cls(STORE, "IndexerStore").methods.get("mount")
    chk.ob(rid, f"{STORE}.IndexerStore.mount", im is not None and "self._store.mount(key, store)" in U(im), "forwards to the wrapped store", im, mod, key="indexer-mount")


def run(chk):
    rule_translation(chk, "C14.1")
    rule_prefix_algebra(chk, "C14.2")
    rule_routing(chk, "C14.3")
    rule_last_mount_wins(chk, "C14.4")
    rule_union_views(chk, "C14.5")
    rule_boolean_predicates(chk, "C14.6")
    rule_global_helpers(chk, "C14.7")
    X.rule_prefix_tests_at_boundary(chk, "C14.8")
    X.rule_prefix_test_direction(chk, "C14.9")
    X.rule_exception_siblings(chk, "C14.9")
