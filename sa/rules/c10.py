"""C10 - evaluation isolation."""
import ast
from ..core import (AnalysisError, U, calls_in, call_tail, call_recv, call_name, body_walk, dotted, walk_no_nested)
from ..cfg import CFG, assigned_value
from ..lib import params, returns_of, is_none_const, dominating_literals
from . import cachefam as F

from . import extra as X

EXPLANATION = ("Who-may-touch and copy-discipline clauses: the variable defaults are only ever deep-copied out of "
               "liquer.state; commands run on a clone of a non-volatile input; State.clone/next_state deep-copy; the "
               "in-memory cache is copy-in/copy-out; every shipped state type's copy() returns a fresh object; variables "
               "flow only rightwards. NOT decided: leaks through objects shared by user commands.")

STATE = "liquer.state"
CTX = "liquer.context"
ST = "liquer.state_types"


def rule_defaults_only_copied(chk, rid):
    repo = chk.repo
    chk.rule(rid, "configured variable defaults (liquer.state._vars) are touched only inside get_vars/set_var/"
                  "vars_clone; vars_clone is a deepcopy; every State/Context seeds its vars from vars_clone(); "
                  "get_vars() results are never stored into a state/context elsewhere")
    m = repo.module(STATE)
    allowed = {"get_vars", "set_var", "vars_clone"}
    n = 0
    for fname, fn in list(m.functions.items()) + [(f"{c}.{k}", v) for c, ci in ((c, repo.cls(STATE, c)) for c in m.classes) for k, v in ci.methods.items()]:
        uses = [x for x in body_walk(fn) if isinstance(x, ast.Name) and x.id == "_vars"]
        if uses:
            n += 1
            chk.ob(rid, f"{STATE}.{fname}", fname in allowed, f"`_vars` is referenced in {fname}", uses[0], m, key="who-may-touch")
    chk.floor(rid, n, 1, "functions touching _vars")
    vc = repo.func(STATE, "vars_clone")
    rets = returns_of(vc)
    ok = bool(rets) and all(isinstance(r.value, ast.Call) and call_tail(r.value) == "deepcopy" and r.value.args
                            and U(r.value.args[0]) == "get_vars()" for r in rets)
    chk.ob(rid, f"{STATE}.vars_clone", ok, "returns deepcopy(get_vars())" if ok else
           f"returns `{U(rets[0].value) if rets else None}`: states and contexts would share the configured defaults",
           vc, m, key="deepcopy")
    # seeds
    init = repo.func(STATE, "State.__init__")
    seeds = [k for d in ast.walk(init) if isinstance(d, ast.Call) and call_name(d) == "dict" for k in d.keywords if k.arg == "vars"]
    chk.floor(rid, len(seeds), 1, "State.__init__ vars seed")
    for k in seeds:
        chk.ob(rid, f"{STATE}.State.__init__", U(k.value) == "vars_clone()", f"vars seeded with `{U(k.value)}`", k.value, m, key="seed:state")
    cm = repo.module(CTX)
    n = 0
    for mn in ("__init__", "evaluate"):
        fn = repo.func(CTX, f"Context.{mn}")
        for a in body_walk(fn):
            if isinstance(a, ast.Assign) and any(U(t) == "self.vars" for t in a.targets) and "vars_clone" in U(a.value) or \
                    (isinstance(a, ast.Assign) and any(U(t) == "self.vars" for t in a.targets) and "get_vars" in U(a.value)):
                n += 1
                chk.ob(rid, f"{CTX}.Context.{mn}", U(a.value) in ("Vars(vars_clone())", "vars_clone()"),
                       f"context vars seeded with `{U(a.value)}`", a, cm, key="seed:context")
    chk.floor(rid, n, 2, "Context vars seeds")
    # evaluate resets vars at its start: the seed dominates the lookup/recursion
    ev = F.Evaluate(repo)
    seedn = [x.id for x in ev.cfg.nodes if x.kind == "stmt" and isinstance(x.ast, ast.Assign) and U(x.ast.targets[0]) == "self.vars" and "vars_clone" in U(x.ast.value)]
    work = [ev.node(c) for c in ev.get_calls + ev.rec_calls + ev.action_calls + ev.sub_calls]
    for w in work:
        chk.ob(rid, f"{CTX}.Context.evaluate", ev.cfg.set_dominates(seedn, w),
               "every evaluation starts from a fresh copy of the defaults (seed dominates all work)", ev.cfg.nodes[w].ast, cm,
               key="seed-dominates:" + U(ev.cfg.nodes[w].ast)[:30])
    # get_vars() outside state.py: only read
    n = 0
    for mod in repo.modules.values():
        if mod.name == STATE:
            continue
        for node in ast.walk(mod.tree):
            if isinstance(node, ast.Call) and call_tail(node) == "get_vars" and not node.args:
                n += 1
                repo.consulted.add(mod.name)
                # allowed context: get_vars().get(...) / get_vars()[...] loads / `x in get_vars()`
                parent_ok = False
                for p in ast.walk(mod.tree):
                    for ch in ast.iter_child_nodes(p):
                        if ch is node:
                            if isinstance(p, ast.Attribute) and p.attr in ("get", "keys", "items", "values", "copy"):
                                parent_ok = True
                            elif isinstance(p, ast.Subscript) and isinstance(p.ctx, ast.Load):
                                parent_ok = True
                            elif isinstance(p, ast.Compare):
                                parent_ok = True
                            elif isinstance(p, ast.Call) and call_tail(p) in ("deepcopy", "dict", "len", "sorted", "list", "jsonify", "dumps"):
                                parent_ok = True
                chk.ob(rid, f"{mod.name}", parent_ok, "get_vars() result is only read / copied", node, mod, key=f"get_vars-use@{U(node)}")
    chk.count("get_vars uses outside state.py", n)


def rule_commands_on_clone(chk, rid):
    repo = chk.repo
    chk.rule(rid, "commands run on a clone: the state handed to the command is state.clone() unless the input is "
                  "volatile; State.clone and next_state deep-copy metadata and copy data through the state type")
    ea = F.EvalAction(repo)
    cfg = ea.cfg
    call = ea.cmd_call
    a0 = call.args[0] if call.args and not isinstance(call.args[0], ast.Starred) else None
    ok = False
    why = "first argument of the command call not recognised"
    if isinstance(a0, (ast.Name, ast.IfExp)):
        from ..lib import conditional_values
        alts = conditional_values(cfg, a0, cfg.node_of(call))
        why = f"`{U(a0)}` = {sorted({U(v) for v, _ in alts})}"
        def fine(v, facts):
            if isinstance(v, ast.Call) and call_tail(v) == "clone" and call_recv(v) == ea.statevar:
                return True
            # the raw input may be handed over only where it is known to be volatile
            return U(v) == ea.statevar and any("volatile" in t and p is True for t, p in facts)
        ok = bool(alts) and all(fine(v, f) for v, f in alts) and not (isinstance(a0, ast.Name) and cfg.entry in cfg.reaching_defs(a0.id, cfg.node_of(call)))
        # the clone must be taken from the *input* state (before next_state rebinding)
        if isinstance(a0, ast.Name):
            for d in cfg.reaching_defs(a0.id, cfg.node_of(call)):
                if d != cfg.entry and cfg.reaching_defs(ea.statevar, d) != [cfg.entry]:
                    ok = False
                    why += " (taken after the input state was rebound)"
    elif isinstance(a0, ast.Call) and call_tail(a0) == "clone":
        ok = call_recv(a0) == ea.statevar
    chk.ob(rid, ea.C, ok, "command receives a clone of a non-volatile input: " + why, call, ea.mod, key="clone-before-command")
    m = repo.module(STATE)
    cl = repo.func(STATE, "State.clone")
    txt = U(cl)
    ok = ("from_dict(self.as_dict())" in txt or "deepcopy(self.metadata)" in txt) and "copy_state_data(self.data)" in txt
    chk.ob(rid, f"{STATE}.State.clone", ok, "clone = deep-copied metadata + copy_state_data(self.data)", cl, m, key="clone-shape")
    ad = repo.func(STATE, "State.as_dict")
    adcfg = CFG(ad)
    def _rv(r):
        from ..lib import resolve_local
        return resolve_local(adcfg, r.value, adcfg.node_of(r)) if isinstance(r.value, ast.Name) else r.value
    ok = all(isinstance(_rv(r), ast.Call) and call_tail(_rv(r)) == "deepcopy" and U(_rv(r).args[0]) == "self.metadata" for r in returns_of(ad)) and bool(returns_of(ad))
    chk.ob(rid, f"{STATE}.State.as_dict", ok, "as_dict returns deepcopy(self.metadata)", ad, m, key="as_dict-deep")
    fd = repo.func(STATE, "State.from_dict")
    ws = [n for n in body_walk(fd) if isinstance(n, ast.Assign) and any(U(t) == "self.metadata" for t in n.targets)]
    ok = bool(ws) and all(isinstance(n.value, ast.Call) and call_tail(n.value) == "deepcopy" for n in ws)
    chk.ob(rid, f"{STATE}.State.from_dict", ok, "from_dict deep-copies the given metadata", fd, m, key="from_dict-deep")
    ns = repo.func(STATE, "State.next_state")
    ok = "from_dict(self.as_dict())" in U(ns) or "deepcopy" in U(ns)
    chk.ob(rid, f"{STATE}.State.next_state", ok, "next_state starts from a deep copy of the metadata", ns, m, key="next_state-deep")
    cs = repo.func(ST, "copy_state_data")
    ok = all(isinstance(r.value, ast.Call) and call_tail(r.value) == "copy" for r in returns_of(cs)) and bool(returns_of(cs))
    chk.ob(rid, f"{ST}.copy_state_data", ok, "copy_state_data delegates to the state type's copy()", cs, repo.module(ST), key="copy-dispatch")


ARMED_TYPES = [(ST, "DictStateType"), (ST, "JsonStateType"), (ST, "PickleStateType"), (ST, "BytesStateType"),
               (ST, "TextStateType"), ("liquer.ext.lq_pandas", "DataframeStateType")]
IMMUTABLE_TYPES = {"TextStateType", "BytesStateType"}


def rule_type_copy(chk, rid, armed=ARMED_TYPES):
    repo = chk.repo
    chk.rule(rid, "every state type's copy() returns a fresh object for mutable values (deepcopy / .copy(deep) / "
                  "serialisation round trip); returning the argument or a shallow copy is accepted only for immutable "
                  "str/bytes types")
    for modname, cn in armed:
        ci = repo.cls(modname, cn)
        dc, fn = ci.find_method("copy")
        mod = dc.module
        dp = params(fn)[1]
        rets = returns_of(fn)
        if not rets:
            raise AnalysisError(f"{ci.qual}.copy has no return")
        for r in rets:
            v = r.value
            fresh = False
            if isinstance(v, ast.Call):
                t = call_tail(v)
                if t == "deepcopy":
                    fresh = True
                elif t == "copy" and call_recv(v) == dp:
                    # pandas DataFrame.copy() is deep by default; dict.copy() is shallow
                    fresh = ci.name not in ("DictStateType", "JsonStateType", "PickleStateType") and \
                        not any(k.arg == "deep" and isinstance(k.value, ast.Constant) and k.value.value is False for k in v.keywords)
                elif t == "from_bytes":
                    # a serialisation round trip is a faithful copy only if the type's default format is lossless
                    from .c11 import default_ext
                    fresh = default_ext(ci) in ("pickle", "pkl", "b", "txt")
            elif isinstance(v, ast.Subscript) and U(v.value) == dp:
                fresh = cn in IMMUTABLE_TYPES
            elif U(v) == dp:
                fresh = cn in IMMUTABLE_TYPES
            chk.ob(rid, f"{ci.qual}.copy", fresh, f"copy returns `{U(v)}`" + ("" if fresh else
                   ": shares mutable structure with the original (cache entries / previous states get mutated)"),
                   r, mod, key="fresh-copy")


def rule_vars_thread(chk, rid):
    repo = chk.repo
    chk.rule(rid, "variables flow only rightwards: after a successful action the context vars are rebuilt from "
                  "(context vars) + (state vars) + (vars modified through the context); evaluate resets self.vars from "
                  "the predecessor state before the last action runs")
    ea = F.EvalAction(repo)
    fn = ea.fn
    # find `self.vars = Vars(X)` in evaluate_action on the success edge
    ws = [n for n in body_walk(fn) if isinstance(n, ast.Assign) and any(U(t) == "self.vars" for t in n.targets)]
    chk.floor(rid, len(ws), 1, "self.vars rebuilds in evaluate_action")
    cfg = ea.cfg
    for w in ws:
        wn = cfg.node_of(w)
        inner = w.value.args[0] if isinstance(w.value, ast.Call) and w.value.args else w.value
        var = U(inner)
        ds = cfg.reaching_defs(var, wn)
        seed_ok = any(d != cfg.entry and U(assigned_value(cfg, d, var)) == "dict(self.vars)" for d in ds)
        ups = [c for c in calls_in(fn, tail="update") if call_recv(c) == var]
        args = [U(c.args[0]) for c in ups if c.args]
        order_ok = args == ["state.vars", "self.vars.get_modified()"]
        chk.ob(rid, ea.C, seed_ok and order_ok,
               f"vars rebuilt as dict(self.vars) then updates {args}", w, ea.mod, key="merge-order")
        lits = dominating_literals(cfg, wn)
        chk.ob(rid, ea.C, any(txt == "is_error" and pol is False for _, txt, pol, _ in lits),
               "variables are merged on the success edge only", w, ea.mod, key="success-only")
    ev = F.Evaluate(repo)
    act = ev.one(ev.action_calls, "evaluate_action call")
    resets = [n.id for n in ev.cfg.nodes if n.kind == "stmt" and isinstance(n.ast, ast.Assign)
              and U(n.ast.targets[0]) == "self.vars" and U(n.ast.value) in ("Vars(state.vars)", "Vars(dict(state.vars))")]
    ok = bool(resets) and ev.cfg.set_dominates(resets, ev.node(act))
    if ok:
        # the `state` read by the reset is the predecessor/initial state
        for r in resets:
            ds = ev.cfg.reaching_defs("state", r)
            srcs = {U(assigned_value(ev.cfg, d, "state"))[:40] for d in ds if d != ev.cfg.entry}
            ok = ok and all(("create_initial_state" in s) or (".evaluate(" in s) for s in srcs)
    chk.ob(rid, "liquer.context.Context.evaluate", ok,
           "self.vars is reset from the predecessor state before the last action runs", act, ev.mod, key="reset-before-action")


def run(chk):
    rule_defaults_only_copied(chk, "C10.1")
    rule_commands_on_clone(chk, "C10.2")
    F.rule_memory_copy(chk, chk.repo, "C10.3")
    rule_type_copy(chk, "C10.4")
    rule_vars_thread(chk, "C10.5")
    X.rule_clone_copies_data(chk, "C10.6")
    X.rule_clone_decision_from_input(chk, "C10.7")
    X.rule_initial_state_plain(chk, "C10.8")
    rule_read_bypass = F.rule_read_bypass_implies_write_bypass
    rule_read_bypass(chk, F.Evaluate(chk.repo), F.EvalAction(chk.repo), "C10.9")
