"""Rule functions shared by the cache-family properties (C04 C05 C09 C10 C12 C13).
Each function adds obligations to the Check it is given; the property modules decide
which rules belong to which property (a rule is attached only where it is a necessary
condition of that property)."""
import ast
from ..core import (AnalysisError, U, calls_in, call_tail, call_recv, call_name, kwarg, arg_or_kw,
                    body_walk, walk_no_nested, flatten_boolop, strip_not, dotted, const_str)
from ..cfg import CFG, assigned_value
from ..lib import (dominating_literals, has_literal, norm_literal, disjunct_literals, reaching_defs_attr,
                   single_def_value, resolve_local, params, returns_of, is_none_const, self_field_writes,
                   fs_write_calls, is_write_open)

CTX = "liquer.context"
CACHE = "liquer.cache"
CACHE_API = ["get", "get_metadata", "store", "store_metadata", "remove", "contains", "keys", "clean"]
LEAVES = ["MemoryCache", "FileCache", "StoreCache", "SQLCache"]
COND_WRAPPERS = ["CacheIfHasAttributes", "CacheIfHasNotAttributes", "CacheAttributeCondition"]


# --------------------------------------------------------------------------- evaluator anatomy
class Evaluate:
    """Anchors inside Context.evaluate, re-derived from the current source on every run."""

    def __init__(self, repo):
        self.repo = repo
        self.mod = repo.module(CTX)
        self.fn = repo.func(CTX, "Context.evaluate")
        self.cfg = CFG(self.fn)
        fn = self.fn
        # the cache variable: local that is assigned `self.cache()`
        cands = set()
        for n in body_walk(fn):
            if isinstance(n, ast.Assign) and isinstance(n.value, ast.Call) and call_name(n.value) == "self.cache":
                for t in n.targets:
                    if isinstance(t, ast.Name):
                        cands.add(t.id)
        if len(cands) != 1:
            raise AnalysisError(f"Context.evaluate: cannot identify the cache variable (candidates {sorted(cands)})")
        self.cachevar = cands.pop()
        if self.cachevar not in params(fn):
            raise AnalysisError("Context.evaluate: cache variable is not a parameter")
        # the parsed-query variable: second target of `x, q = self.to_query(...)`
        self.queryvar = None
        self.rawvar = None
        for n in body_walk(fn):
            if isinstance(n, ast.Assign) and isinstance(n.value, ast.Call) and call_tail(n.value) == "to_query":
                t = n.targets[0]
                if isinstance(t, ast.Tuple) and len(t.elts) == 2:
                    self.rawvar, self.queryvar = U(t.elts[0]), U(t.elts[1])
        if self.queryvar is None:
            raise AnalysisError("Context.evaluate: `raw, query = self.to_query(query)` not found")
        V = self.cachevar
        self.get_calls = [c for c in calls_in(fn, tail="get") if call_recv(c) == V]
        self.store_calls = [c for c in calls_in(fn, tail="store") if call_recv(c) == V]
        self.remove_calls = [c for c in calls_in(fn, tail="remove") if call_recv(c) == V]
        self.storemd_calls = [c for c in calls_in(fn, tail="store_metadata") if call_recv(c) == V]
        self.action_calls = [c for c in calls_in(fn, tail="evaluate_action") if call_recv(c) == "self"]
        # recursion on the predecessor: `<child>.evaluate(p, ...)` where child = self.child_context()
        self.pred_assign = None
        for n in body_walk(fn):
            if isinstance(n, ast.Assign) and isinstance(n.value, ast.Call) and call_tail(n.value) == "predecessor":
                t = n.targets[0]
                if isinstance(t, ast.Tuple) and len(t.elts) == 2:
                    self.pred_assign = n
                    self.pvar, self.rvar = U(t.elts[0]), U(t.elts[1])
        if self.pred_assign is None:
            raise AnalysisError("Context.evaluate: `p, r = query.predecessor()` not found")
        self.rec_calls = []
        for c in calls_in(fn, tail="evaluate"):
            if c.args and U(c.args[0]) == self.pvar and call_recv(c) != "self":
                self.rec_calls.append(c)
        self.sub_calls = [c for c in calls_in(fn, tail="evaluate")
                          if call_recv(c) is not None and "child_context" in call_recv(c)]
        self.init_calls = [c for c in calls_in(fn, tail="create_initial_state") if call_recv(c) == "self"]
        self.resource_calls = [c for c in calls_in(fn, tail="evaluate_resource") if call_recv(c) == "self"]
        self.store_state_calls = [c for c in calls_in(fn, tail="_store_state") if call_recv(c) == "self"]

    def node(self, astnode):
        return self.cfg.node_of(astnode)

    def one(self, lst, what):
        if len(lst) != 1:
            raise AnalysisError(f"Context.evaluate: expected exactly one {what}, found {len(lst)}")
        return lst[0]


def _is(txt, *frags):
    return all(f in txt for f in frags)


# --------------------------------------------------------------------------- C05.1
def rule_admission_guard(chk, ev, rid):
    chk.rule(rid, "the cache.store(state) site of Context.evaluate is dominated by "
                  "caching-enabled AND not-error AND not-volatile; on the complementary edge errors keep "
                  "metadata only and the rest removes the stale entry")
    st = ev.one(ev.store_calls, f"`{ev.cachevar}.store(state)` site")
    nid = ev.node(st)
    lits = dominating_literals(ev.cfg, nid)
    C = "liquer.context.Context.evaluate"
    chk.ob(rid, C, has_literal(lits, lambda t: _is(t, "caching") and ("metadata" in t), True),
           "cache.store is reached only when the result's `caching` flag is true", st, ev.mod, key="conjunct:caching")
    chk.ob(rid, C, has_literal(lits, lambda t: t.endswith("is_error"), False),
           "cache.store is reached only when the state is not an error", st, ev.mod, key="conjunct:not-error")
    chk.ob(rid, C, has_literal(lits, lambda t: "is_volatile()" in t, False),
           "cache.store is reached only when the state is not volatile", st, ev.mod, key="conjunct:not-volatile")
    # the stored object is the evaluated state
    chk.ob(rid, C, len(st.args) == 1 and U(st.args[0]) == "state",
           "the object filed is the evaluated state", st, ev.mod, key="arg")
    # complementary edge
    rem_ok = False
    for r in ev.remove_calls:
        rn = ev.node(r)
        rl = dominating_literals(ev.cfg, rn)
        arg = U(r.args[0]) if r.args else ""
        if has_literal(rl, lambda t: t.endswith("is_error"), False) and arg in ("state.query", f"{ev.queryvar}.encode()") \
                and not ev.cfg.dominates(nid, rn):
            rem_ok = True
    chk.ob(rid, C, rem_ok, "a non-admitted, non-error result removes the stale entry under its canonical key "
           "(cache.remove(state.query) on the complementary edge)", ev.fn, ev.mod, key="stale-removal")
    md_ok = False
    for m in ev.storemd_calls:
        mn = ev.node(m)
        ml = dominating_literals(ev.cfg, mn)
        if has_literal(ml, lambda t: t.endswith("is_error"), True) and ev.cfg.can_reach(ev.node(ev.action_calls[0]), mn):
            md_ok = True
    chk.ob(rid, C, md_ok, "an error result keeps metadata only (cache.store_metadata on the error edge)",
           ev.fn, ev.mod, key="error-metadata-only")


# --------------------------------------------------------------------------- C05.2 / C05.3 (evaluate_action)
class EvalAction:
    def __init__(self, repo):
        self.repo = repo
        self.mod = repo.module(CTX)
        self.fn = repo.func(CTX, "Context.evaluate_action")
        self.cfg = CFG(self.fn)
        ps = params(self.fn)
        if len(ps) < 3:
            raise AnalysisError("Context.evaluate_action: unexpected signature")
        self.statevar = ps[1]
        self.actionvar = ps[2]
        self.extravar = "extra_parameters" if "extra_parameters" in ps else None
        if self.extravar is None:
            raise AnalysisError("Context.evaluate_action: no extra_parameters parameter")
        # the command call: call whose keywords include context=self
        self.cmd_calls = [c for c in calls_in(self.fn) if kwarg(c, "context") is not None
                          and U(kwarg(c, "context")) == "self" and isinstance(c.func, ast.Name)]
        if len(self.cmd_calls) != 1:
            raise AnalysisError(f"Context.evaluate_action: expected one command call with context=self, "
                                f"found {len(self.cmd_calls)}")
        self.cmd_call = self.cmd_calls[0]
        self.cmdvar = self.cmd_call.func.id
        self.setvol = [c for c in calls_in(self.fn, tail="set_volatile")]
        self.C = "liquer.context.Context.evaluate_action"


def rule_volatility(chk, ea, rid):
    chk.rule(rid, "volatility propagates: seeded from the input state, forced by list/dict extra parameters, "
                  "and written to the result on every path from the command call to the return; the command's own "
                  "attributes are overlaid before that")
    cfg, fn, C = ea.cfg, ea.fn, ea.C
    # the volatility local: argument of set_volatile mentions it
    sv = ea.setvol
    if len(sv) != 1:
        raise AnalysisError(f"evaluate_action: expected one set_volatile call, found {len(sv)}")
    sv = sv[0]
    svn = cfg.node_of(sv)
    arg = sv.args[0] if sv.args else None
    locs = [n.id for n in ast.walk(arg) if isinstance(n, ast.Name)] if arg is not None else []
    vol = None
    for cand in locs:
        ds = cfg.defs_of(cand)
        if ds and cand not in params(fn):
            v0 = assigned_value(cfg, ds[0], cand)
            if v0 is not None and "is_volatile()" in U(v0):
                vol = cand
    chk.ob(rid, C, vol is not None,
           "set_volatile() is given a flag that was seeded from the input state's is_volatile()",
           sv, ea.mod, key="flag-in-set_volatile")
    if vol is None:
        return
    ds = cfg.defs_of(vol)
    v0 = assigned_value(cfg, ds[0], vol)
    seeded = U(v0) == f"{ea.statevar}.is_volatile()" and cfg.reaching_defs(ea.statevar, ds[0]) == [cfg.entry]
    chk.ob(rid, C, seeded, f"`{vol}` is initialised from the *input* state's is_volatile()", v0, ea.mod,
           key="seed-from-input")
    ok_shape = False
    if isinstance(arg, ast.BoolOp) and isinstance(arg.op, ast.Or):
        ok_shape = any(U(v) == vol for v in arg.values)
    elif arg is not None and U(arg) == vol:
        ok_shape = True
    chk.ob(rid, C, ok_shape, f"result volatility = `{vol}` or-ed in (never dropped)", sv, ea.mod, key="or-shape")
    # extra-parameter uses force the flag
    true_assigns = [d for d in ds if isinstance(assigned_value(cfg, d, vol), ast.Constant)
                    and assigned_value(cfg, d, vol).value is True]
    uses = []
    for n in cfg.nodes:
        if n.kind != "stmt" or n.ast is None:
            continue
        a = n.ast
        if isinstance(a, ast.Expr) and isinstance(a.value, ast.Call):
            nm = call_name(a.value) or ""
            if nm in ("self.warning", "self.error", "self.debug", "self.info", "print"):
                continue
        if isinstance(a, ast.Assign) and U(a.targets[0]) == vol:
            continue
        if ea.extravar in {x.id for x in ast.walk(a) if isinstance(x, ast.Name)}:
            uses.append(n.id)
    chk.floor(rid, len(uses), 2, "statements consuming extra_parameters")
    for u in uses:
        forced = (svn not in cfg.succ_reach(u, avoid=true_assigns)) or \
            all(d in true_assigns for d in cfg.reaching_defs(vol, u))
        chk.ob(rid, C, forced, f"extra parameters consumed by `{U(cfg.nodes[u].ast)[:50]}` force `{vol} = True`",
               cfg.nodes[u].ast, ea.mod, key="extras:" + U(cfg.nodes[u].ast)[:40])
    # set_volatile on every path command-call -> return
    cn = cfg.node_of(ea.cmd_call)
    rets = [r for r in cfg.returns() if r in cfg.succ_reach(cn)]
    chk.floor(rid, len(rets), 1, "returns after the command call")
    for r in rets:
        chk.ob(rid, C, cfg.must_pass(cn, r, [svn]),
               "every path from the command call to the return marks the result with set_volatile",
               cfg.nodes[r].ast, ea.mod, key="post-dominates-return")
    # the command's own attributes are overlaid, then merged into the state before set_volatile
    overlay = []
    for n in cfg.nodes:
        a = n.ast
        if n.kind == "stmt" and isinstance(a, ast.Assign) and U(a.targets[0]).replace('"', "'") == "metadata['attributes']" \
                and "cmd_metadata.attributes" in U(a.value):
            overlay.append(n.id)
    chk.ob(rid, C, len(overlay) >= 1, "the command's own attributes (incl. `volatile`) are overlaid on the result "
           "attributes", fn, ea.mod, key="attribute-overlay")
    upd = [cfg.node_of(c) for c in calls_in(fn, tail="update") if call_recv(c) == "state.metadata"
           and c.args and U(c.args[0]) == "metadata"]
    for o in overlay:
        chk.ob(rid, C, bool(upd) and cfg.must_pass(o, svn, upd),
               "overlaid attributes are merged into the state (state.metadata.update(metadata)) before "
               "volatility is read", cfg.nodes[o].ast, ea.mod, key="overlay-merged-before-set_volatile")
        # the overlay must come after the capital-letter filter (else the filter would drop `volatile`)
        filt = [n.id for n in cfg.nodes if n.kind == "stmt" and isinstance(n.ast, ast.Assign)
                and U(n.ast.targets[0]).replace('"', "'") == "metadata['attributes']" and n.id != o
                and "isupper" in U(n.ast.value)]
        for f in filt:
            chk.ob(rid, C, not cfg.can_reach(o, f), "the persistence filter runs before the overlay",
                   cfg.nodes[f].ast, ea.mod, key="filter-before-overlay")


def rule_caching_anded(chk, ea, rid):
    chk.rule(rid, "the result's `caching` flag is the conjunction of the context's flag and the command result's flag")
    found = []
    for n in body_walk(ea.fn):
        if isinstance(n, ast.Assign) and U(n.targets[0]).replace('"', "'") == "metadata['caching']":
            found.append(n)
    chk.floor(rid, len(found), 1, "assignments to metadata['caching']")
    for a in found:
        v = a.value
        ops = flatten_boolop(v, ast.And) if isinstance(v, ast.BoolOp) and isinstance(v.op, ast.And) else []
        txts = [U(o).replace('"', "'") for o in ops]
        ctx_side = any(t.startswith("metadata.get('caching'") or t in ("self.caching", "metadata['caching']") for t in txts)
        st_side = any(t.startswith("state.metadata.get('caching'") or t == "state.metadata['caching']" for t in txts)
        chk.ob(rid, ea.C, ctx_side and st_side,
               "`caching` = context flag AND state flag (both operands present)", a, ea.mod, key="and")


# --------------------------------------------------------------------------- C05.4 / C04.3
def rule_read_bypass_implies_write_bypass(chk, ev, ea, rid):
    chk.rule(rid, "contradiction rule: every reason for which Context.evaluate skips the cache lookup must also "
                  "make the write side unreachable (cache variable bound to NoCache() under that reason, or the "
                  "reason forces volatility through evaluate_action)")
    C = "liquer.context.Context.evaluate"
    g = ev.one(ev.get_calls, f"`{ev.cachevar}.get(...)` lookup")
    gl = dominating_literals(ev.cfg, ev.node(g))
    # the NoCache() bindings of the cache variable
    nocache_nodes = []
    for d in ev.cfg.defs_of(ev.cachevar):
        v = assigned_value(ev.cfg, d, ev.cachevar)
        if isinstance(v, ast.Call) and call_tail(v) == "NoCache":
            nocache_nodes.append(d)
    reasons = []
    st = ev.one(ev.store_calls, "cache.store site")
    stn = ev.node(st)
    common = {(txt, pol) for _, txt, pol, _ in gl}
    for e, txt, pol, tn in gl:
        # a guard literal is a *bypass reason* only if taking the other edge of its test still leads to the
        # write side (otherwise it is just another exit, e.g. the sub-query delegation)
        other = [(m, lab) for m, lab in ev.cfg.succ[tn] if lab in ("T", "F")
                 and not ev.cfg.edge_dominates(tn, lab, ev.node(g))]
        if not any(stn in ev.cfg.reachable(m) for m, _ in other):
            continue
        vars_ = sorted({n.id for n in ast.walk(e) if isinstance(n, ast.Name)} - {"len", "None"})
        reasons.append((e, txt, pol, vars_))
    chk.floor(rid, len(reasons), 2, "bypass reasons guarding the lookup")
    act = ev.one(ev.action_calls, "self.evaluate_action(...) call")
    extra_kw = kwarg(act, "extra_parameters")
    for e, txt, pol, vars_ in reasons:
        neg = (txt, not pol)   # the bypass reason: the guard literal is false
        ok = False
        how = ""
        # (a) volatility: the variable is handed to evaluate_action as extra_parameters
        if extra_kw is not None and U(extra_kw) in vars_:
            ok, how = True, "forces volatility via evaluate_action(extra_parameters=...)"
        # (b) NoCache() selected under the reason
        for d in nocache_nodes:
            for n in ev.cfg.nodes:
                if n.kind != "test":
                    continue
                if ev.cfg.edge_dominates(n.id, "T", d):
                    if neg in disjunct_literals(n.ast):
                        # all other dominating literals may only concern the cache parameter itself
                        others = [l for l in dominating_literals(ev.cfg, d) if l[3] != n.id]
                        if all(ev.cachevar in l[1] or (l[1], l[2]) in common for l in others):
                            ok, how = True, "selects NoCache()"
        chk.ob(rid, C, ok,
               f"lookup is skipped when `{txt}` is {not pol}; the write side must be bypassed too"
               + (f" ({how})" if ok else " — the real cache stays selected and nothing is volatile, "
                  "so the result is filed under the plain query"),
               e, ev.mod, key="reason:" + ",".join(vars_))


def rule_recursion_passes_cache(chk, ev, rid):
    chk.rule(rid, "the predecessor evaluation receives the cache object selected at this level "
                  "(a bypassed evaluation cannot file intermediate results; a cached one files at every level)")
    C = "liquer.context.Context.evaluate"
    chk.floor(rid, len(ev.rec_calls), 1, "recursive predecessor evaluations")
    for c in ev.rec_calls:
        kw = kwarg(c, "cache")
        if kw is None and len(c.args) > 1:
            kw = c.args[1]
        chk.ob(rid, C, kw is not None and U(kw) == ev.cachevar,
               f"recursive evaluate({ev.pvar}, ...) passes cache={ev.cachevar}", c, ev.mod, key="cache-kw")
        # no re-selection between the selection and the call: defs reaching the call are the selection ones
        ds = ev.cfg.reaching_defs(ev.cachevar, ev.node(c))
        vals = []
        for d in ds:
            if d == ev.cfg.entry:
                vals.append("<parameter>")
            else:
                vals.append(U(assigned_value(ev.cfg, d, ev.cachevar)))
        chk.ob(rid, C, all(v in ("<parameter>", "self.cache()", "NoCache()") for v in vals),
               f"cache handed down is the parameter / self.cache() / NoCache() (reaching definitions: {vals})",
               c, ev.mod, key="cache-defs")


# --------------------------------------------------------------------------- C05.5 back-end refusal / ready gate
def backend_classes(repo, names=LEAVES):
    return [repo.cls(CACHE, n) for n in names]


def _write_nodes_of_store(ci, fn, cfg):
    """CFG nodes of a cache `store` with a persistent write effect."""
    W = {"open", "write", "write_bytes", "execute", "store", "store_metadata", "commit", "dump"}
    nodes = []
    for c in calls_in(fn):
        t = call_tail(c)
        if t in W and not (t == "open" and not is_write_open(c)):
            nodes.append((cfg.node_of(c), c))
    for s in self_field_writes(fn):
        nodes.append((cfg.node_of(s), s))
    return nodes


def rule_backend_refuses_errors(chk, repo, rid):
    chk.rule(rid, "store() of every leaf back-end refuses error states before any write; get() returns a state "
                  "only on paths dominated by status == 'ready'")
    mod = repo.module(CACHE)
    n_inst = 0
    for ci in backend_classes(repo):
        _, fn = ci.find_method("store")
        if fn is None:
            raise AnalysisError(f"{ci.qual}.store missing")
        sv = params(fn)[1]
        cfg = CFG(fn)
        wn = _write_nodes_of_store(ci, fn, cfg)
        if not wn:
            raise AnalysisError(f"{ci.qual}.store: no write effect recognised")
        bad = None
        for nid, a in wn:
            lits = dominating_literals(cfg, nid)
            if not has_literal(lits, lambda t: t == f"{sv}.is_error", False):
                bad = a
                break
        n_inst += 1
        chk.ob(rid, f"{ci.qual}.store", bad is None,
               "every write is dominated by the is_error refusal" if bad is None else
               f"write `{U(bad)[:60]}` is reachable with an error state", bad or fn, mod, key="refuse-error")
        # get
        _, g = ci.find_method("get")
        gcfg = CFG(g)
        rets = [r for r in returns_of(g) if not is_none_const(r.value)]
        if not rets:
            raise AnalysisError(f"{ci.qual}.get: no state-returning exit")
        for r in rets:
            lits = dominating_literals(gcfg, gcfg.node_of(r))
            ok = has_literal(lits, lambda t: "status" in t and "ready" in t and "==" in t, True)
            n_inst += 1
            chk.ob(rid, f"{ci.qual}.get", ok, "a state is returned only under status == 'ready'", r, mod,
                   key="ready-gate")
    chk.floor(rid, n_inst, 8, "back-end store/get instances")


# --------------------------------------------------------------------------- C05.6 canonical key
def rule_filed_under_canonical_text(chk, ev, repo, rid):
    chk.rule(rid, "results are filed under the canonical text: `state.query = query.encode()` is the definition "
                  "reaching cache.store(state), and every back-end derives its key from state.query only")
    C = "liquer.context.Context.evaluate"
    st = ev.one(ev.store_calls, "cache.store site")
    ra, rb, fe = reaching_defs_attr(ev.cfg, "state", "state.query", ev.node(st))
    vals = [U(assigned_value(ev.cfg, d, "state.query")) for d in ra]
    ok = bool(ra) and not rb and not fe and all(v == f"{ev.queryvar}.encode()" for v in vals)
    qdefs = ev.cfg.reaching_defs(ev.queryvar, ev.node(st))
    ok = ok and all(d != ev.cfg.entry and call_tail(ev.cfg.nodes[d].ast.value) == "to_query" for d in qdefs)
    chk.ob(rid, C, ok, f"state.query reaching cache.store is {vals or 'not re-labelled after the action'}"
           + ("" if not rb else " (state rebound after labelling)"), st, ev.mod, key="label-before-store")
    mod = repo.module(CACHE)
    n = 0
    for ci in backend_classes(repo):
        _, fn = ci.find_method("store")
        sv = params(fn)[1]
        cfg = CFG(fn)
        keys = []
        for c in calls_in(fn, tail="to_path"):
            if c.args:
                keys.append((c.args[0], c))
        for nd in body_walk(fn):
            if isinstance(nd, ast.Assign):
                for t in nd.targets:
                    if isinstance(t, ast.Subscript) and U(t.value).startswith("self."):
                        keys.append((t.slice, nd))
        for c in calls_in(fn, tail="execute"):
            if len(c.args) > 1 and isinstance(c.args[1], (ast.List, ast.Tuple)) and c.args[1].elts:
                keys.append((c.args[1].elts[0], c))
        if not keys:
            raise AnalysisError(f"{ci.qual}.store: no key expression recognised")
        for k, site in keys:
            kk = resolve_local(cfg, k, cfg.node_of(site))
            n += 1
            chk.ob(rid, f"{ci.qual}.store", U(kk) == f"{sv}.query",
                   f"key expression `{U(k)}` resolves to `{U(kk)}` (must be {sv}.query)", site, mod,
                   key="key:" + U(k))
    chk.floor(rid, n, 4, "back-end key expressions")
