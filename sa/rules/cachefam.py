"""Rule functions shared by the cache-family properties (C04 C05 C09 C10 C12 C13).
Each function adds obligations to the Check it is given; the property modules decide
which rules belong to which property (a rule is attached only where it is a necessary
condition of that property)."""
import ast
from ..core import (AnalysisError, U, calls_in, call_tail, call_recv, call_name, kwarg, arg_or_kw,
                    body_walk, walk_no_nested, flatten_boolop, strip_not, dotted, const_str)
from ..cfg import CFG, assigned_value
from ..lib import (dominating_literals, has_literal, norm_literal, disjunct_literals, reaching_defs_attr,
                   single_def_value, resolve_local, params, returns_of, is_none_const, self_field_writes,
                   fs_write_calls, is_write_open)

CTX = "liquer.context"
CACHE = "liquer.cache"
CACHE_API = ["get", "get_metadata", "store", "store_metadata", "remove", "contains", "keys", "clean"]
LEAVES = ["MemoryCache", "FileCache", "StoreCache", "SQLCache"]
COND_WRAPPERS = ["CacheIfHasAttributes", "CacheIfHasNotAttributes", "CacheAttributeCondition"]


# --------------------------------------------------------------------------- evaluator anatomy
class Evaluate:
    """Anchors inside Context.evaluate, re-derived from the current source on every run."""

    def __init__(self, repo):
        self.repo = repo
        self.mod = repo.module(CTX)
        self.fn = repo.func(CTX, "Context.evaluate")
        self.cfg = CFG(self.fn)
        fn = self.fn
        # the cache variable: local that is assigned `self.cache()`
        cands = set()
        for n in body_walk(fn):
            if isinstance(n, ast.Assign) and isinstance(n.value, ast.Call) and call_name(n.value) == "self.cache":
                for t in n.targets:
                    if isinstance(t, ast.Name):
                        cands.add(t.id)
        if len(cands) != 1:
            raise AnalysisError(f"Context.evaluate: cannot identify the cache variable (candidates {sorted(cands)})")
        self.cachevar = cands.pop()
        if self.cachevar not in params(fn):
            raise AnalysisError("Context.evaluate: cache variable is not a parameter")
        # the parsed-query variable: second target of `x, q = self.to_query(...)`
        self.queryvar = None
        self.rawvar = None
        for n in body_walk(fn):
            if isinstance(n, ast.Assign) and isinstance(n.value, ast.Call) and call_tail(n.value) == "to_query":
                t = n.targets[0]
                if isinstance(t, ast.Tuple) and len(t.elts) == 2:
                    self.rawvar, self.queryvar = U(t.elts[0]), U(t.elts[1])
        if self.queryvar is None:
            raise AnalysisError("Context.evaluate: `raw, query = self.to_query(query)` not found")
        V = self.cachevar
        self.get_calls = [c for c in calls_in(fn, tail="get") if call_recv(c) == V]
        self.store_calls = [c for c in calls_in(fn, tail="store") if call_recv(c) == V]
        self.remove_calls = [c for c in calls_in(fn, tail="remove") if call_recv(c) == V]
        self.storemd_calls = [c for c in calls_in(fn, tail="store_metadata") if call_recv(c) == V]
        self.action_calls = [c for c in calls_in(fn, tail="evaluate_action") if call_recv(c) == "self"]
        # recursion on the predecessor: `<child>.evaluate(p, ...)` where child = self.child_context()
        self.pred_assign = None
        for n in body_walk(fn):
            if isinstance(n, ast.Assign) and isinstance(n.value, ast.Call) and call_tail(n.value) == "predecessor":
                t = n.targets[0]
                if isinstance(t, ast.Tuple) and len(t.elts) == 2:
                    self.pred_assign = n
                    self.pvar, self.rvar = U(t.elts[0]), U(t.elts[1])
        if self.pred_assign is None:
            raise AnalysisError("Context.evaluate: `p, r = query.predecessor()` not found")
        # the recursion: `<c>.evaluate(...)` on a local that holds self.child_context() (identified by its receiver,
        # not by its operand - the operand is what rule C01.1 checks)
        self.rec_calls = []
        child_locals = {U(n.targets[0]) for n in body_walk(fn) if isinstance(n, ast.Assign) and isinstance(n.value, ast.Call)
                        and call_name(n.value) == "self.child_context"}
        for c in calls_in(fn, tail="evaluate"):
            if call_recv(c) in child_locals:
                self.rec_calls.append(c)
        self.sub_calls = [c for c in calls_in(fn, tail="evaluate")
                          if call_recv(c) is not None and "child_context" in call_recv(c)]
        self.init_calls = [c for c in calls_in(fn, tail="create_initial_state") if call_recv(c) == "self"]
        self.resource_calls = [c for c in calls_in(fn, tail="evaluate_resource") if call_recv(c) == "self"]
        self.store_state_calls = [c for c in calls_in(fn, tail="_store_state") if call_recv(c) == "self"]

    def node(self, astnode):
        return self.cfg.node_of(astnode)

    def hit_test(self):
        """(test node, edge label) of the `if <looked-up state> is not None` test that follows the cache lookup"""
        from ..lib import literals_of_test
        cfg = self.cfg
        g = self.one(self.get_calls, "cache lookup")
        gn = self.node(g)
        a = cfg.nodes[gn].ast
        if not (isinstance(a, ast.Assign) and a.value is g):
            raise AnalysisError("Context.evaluate: lookup result is not bound to a local")
        var = U(a.targets[0])
        for n in cfg.nodes:
            if n.kind != "test" or not cfg.dominates(gn, n.id):
                continue
            for lab in ("T", "F"):
                for e, txt, pol in literals_of_test(n.ast, lab):
                    if txt == f"{var} is None" and pol is False:
                        # no rebinding of var between the lookup and the test
                        if cfg.reaching_defs(var, n.id) == [gn]:
                            return n.id, lab, var
        raise AnalysisError("Context.evaluate: `if state is not None` hit test not found after the lookup")

    def is_hit_exit(self, r):
        t, lab, _ = self.hit_test()
        return self.cfg.edge_dominates(t, lab, r)

    def is_delegation_exit(self, r):
        """exits of the `if self.query is not None:` sub-query delegation"""
        cfg = self.cfg
        for n in cfg.nodes:
            if n.kind == "test" and U(n.ast) in ("self.query is not None", "not self.query is None"):
                if cfg.edge_dominates(n.id, "T", r):
                    return True
        return False

    def one(self, lst, what):
        if len(lst) != 1:
            raise AnalysisError(f"Context.evaluate: expected exactly one {what}, found {len(lst)}")
        return lst[0]


def _is(txt, *frags):
    return all(f in txt for f in frags)


# --------------------------------------------------------------------------- C05.1
def rule_admission_guard(chk, ev, rid):
    chk.rule(rid, "the cache.store(state) site of Context.evaluate is dominated by "
                  "caching-enabled AND not-error AND not-volatile; on the complementary edge errors keep "
                  "metadata only and the rest removes the stale entry")
    st = ev.one(ev.store_calls, f"`{ev.cachevar}.store(state)` site")
    nid = ev.node(st)
    lits = dominating_literals(ev.cfg, nid)
    C = "liquer.context.Context.evaluate"
    chk.ob(rid, C, has_literal(lits, lambda t: _is(t, "caching") and ("metadata" in t), True),
           "cache.store is reached only when the result's `caching` flag is true", st, ev.mod, key="conjunct:caching")
    chk.ob(rid, C, has_literal(lits, lambda t: t.endswith("is_error"), False),
           "cache.store is reached only when the state is not an error", st, ev.mod, key="conjunct:not-error")
    chk.ob(rid, C, has_literal(lits, lambda t: "is_volatile()" in t, False),
           "cache.store is reached only when the state is not volatile", st, ev.mod, key="conjunct:not-volatile")
    # the stored object is the evaluated state
    chk.ob(rid, C, len(st.args) == 1 and U(st.args[0]) == "state",
           "the object filed is the evaluated state", st, ev.mod, key="arg")
    # complementary edge
    rem_ok = False
    for r in ev.remove_calls:
        rn = ev.node(r)
        rl = dominating_literals(ev.cfg, rn)
        arg = U(r.args[0]) if r.args else ""
        if has_literal(rl, lambda t: t.endswith("is_error"), False) and arg in ("state.query", f"{ev.queryvar}.encode()") \
                and not ev.cfg.dominates(nid, rn):
            rem_ok = True
    chk.ob(rid, C, rem_ok, "a non-admitted, non-error result removes the stale entry under its canonical key "
           "(cache.remove(state.query) on the complementary edge)", ev.fn, ev.mod, key="stale-removal")
    md_ok = False
    for m in ev.storemd_calls:
        mn = ev.node(m)
        ml = dominating_literals(ev.cfg, mn)
        if has_literal(ml, lambda t: t.endswith("is_error"), True) and ev.cfg.can_reach(ev.node(ev.action_calls[0]), mn):
            md_ok = True
    chk.ob(rid, C, md_ok, "an error result keeps metadata only (cache.store_metadata on the error edge)",
           ev.fn, ev.mod, key="error-metadata-only")


# --------------------------------------------------------------------------- C05.2 / C05.3 (evaluate_action)
class EvalAction:
    def __init__(self, repo):
        self.repo = repo
        self.mod = repo.module(CTX)
        self.fn = repo.func(CTX, "Context.evaluate_action")
        self.cfg = CFG(self.fn)
        ps = params(self.fn)
        if len(ps) < 3:
            raise AnalysisError("Context.evaluate_action: unexpected signature")
        self.statevar = ps[1]
        self.actionvar = ps[2]
        self.extravar = "extra_parameters" if "extra_parameters" in ps else None
        if self.extravar is None:
            raise AnalysisError("Context.evaluate_action: no extra_parameters parameter")
        # the command call: call whose keywords include context=self
        self.cmd_calls = [c for c in calls_in(self.fn) if kwarg(c, "context") is not None
                          and U(kwarg(c, "context")) == "self" and isinstance(c.func, ast.Name)]
        if len(self.cmd_calls) != 1:
            raise AnalysisError(f"Context.evaluate_action: expected one command call with context=self, "
                                f"found {len(self.cmd_calls)}")
        self.cmd_call = self.cmd_calls[0]
        self.cmdvar = self.cmd_call.func.id
        self.setvol = [c for c in calls_in(self.fn, tail="set_volatile")]
        self.C = "liquer.context.Context.evaluate_action"


def rule_volatility(chk, ea, rid):
    chk.rule(rid, "volatility propagates: seeded from the input state, forced by list/dict extra parameters, "
                  "and written to the result on every path from the command call to the return; the command's own "
                  "attributes are overlaid before that")
    cfg, fn, C = ea.cfg, ea.fn, ea.C
    # the volatility local: argument of set_volatile mentions it
    sv = ea.setvol
    if not sv:
        chk.ob(rid, C, False, "the result is never marked with set_volatile(): volatility forced by extra parameters or inherited from "
               "the input does not reach the result", fn, ea.mod, key="flag-in-set_volatile")
        return
    if len(sv) != 1:
        raise AnalysisError(f"evaluate_action: expected one set_volatile call, found {len(sv)}")
    sv = sv[0]
    svn = cfg.node_of(sv)
    arg = sv.args[0] if sv.args else None
    locs = [n.id for n in ast.walk(arg) if isinstance(n, ast.Name)] if arg is not None else []
    vol = None
    for cand in locs:
        ds = cfg.defs_of(cand)
        if ds and cand not in params(fn):
            v0 = assigned_value(cfg, ds[0], cand)
            if v0 is not None and "is_volatile()" in U(v0):
                vol = cand
    chk.ob(rid, C, vol is not None,
           "set_volatile() is given a flag that was seeded from the input state's is_volatile()",
           sv, ea.mod, key="flag-in-set_volatile")
    if vol is None:
        return
    ds = cfg.defs_of(vol)
    v0 = assigned_value(cfg, ds[0], vol)
    seeded = U(v0) == f"{ea.statevar}.is_volatile()" and cfg.reaching_defs(ea.statevar, ds[0]) == [cfg.entry]
    chk.ob(rid, C, seeded, f"`{vol}` is initialised from the *input* state's is_volatile()", v0, ea.mod,
           key="seed-from-input")
    ok_shape = False
    if isinstance(arg, ast.BoolOp) and isinstance(arg.op, ast.Or):
        ok_shape = any(U(v) == vol for v in arg.values)
    elif arg is not None and U(arg) == vol:
        ok_shape = True
    chk.ob(rid, C, ok_shape, f"result volatility = `{vol}` or-ed in (never dropped)", sv, ea.mod, key="or-shape")
    # extra-parameter uses force the flag
    true_assigns = [d for d in ds if isinstance(assigned_value(cfg, d, vol), ast.Constant)
                    and assigned_value(cfg, d, vol).value is True]
    uses = []
    for n in cfg.nodes:
        if n.kind != "stmt" or n.ast is None:
            continue
        a = n.ast
        if isinstance(a, ast.Expr) and isinstance(a.value, ast.Call):
            nm = call_name(a.value) or ""
            if nm in ("self.warning", "self.error", "self.debug", "self.info", "print"):
                continue
        if isinstance(a, ast.Assign) and U(a.targets[0]) == vol:
            continue
        if ea.extravar in {x.id for x in ast.walk(a) if isinstance(x, ast.Name)}:
            uses.append(n.id)
    chk.floor(rid, len(uses), 2, "statements consuming extra_parameters")
    for u in uses:
        forced = (svn not in cfg.succ_reach(u, avoid=true_assigns)) or \
            all(d in true_assigns for d in cfg.reaching_defs(vol, u))
        chk.ob(rid, C, forced, f"extra parameters consumed by `{U(cfg.nodes[u].ast)[:50]}` force `{vol} = True`",
               cfg.nodes[u].ast, ea.mod, key="extras:" + U(cfg.nodes[u].ast)[:40])
    # set_volatile on every path command-call -> return
    cn = cfg.node_of(ea.cmd_call)
    rets = [r for r in cfg.returns() if r in cfg.succ_reach(cn)]
    chk.floor(rid, len(rets), 1, "returns after the command call")
    for r in rets:
        chk.ob(rid, C, cfg.must_pass(cn, r, [svn]),
               "every path from the command call to the return marks the result with set_volatile",
               cfg.nodes[r].ast, ea.mod, key="post-dominates-return")
    # the command's own attributes are overlaid, then merged into the state before set_volatile
    overlay = []
    for n in cfg.nodes:
        a = n.ast
        if n.kind == "stmt" and isinstance(a, (ast.Assign, ast.Expr)) and "cmd_metadata.attributes" in U(a):
            overlay.append(n.id)      # dict(<filtered>, **cmd_metadata.attributes) or <filtered>.update(cmd_metadata.attributes), wherever it is held
    chk.ob(rid, C, len(overlay) >= 1, "the command's own attributes (incl. `volatile`) are overlaid on the result "
           "attributes", fn, ea.mod, key="attribute-overlay")
    upd = [cfg.node_of(c) for c in calls_in(fn, tail="update") if call_recv(c) == "state.metadata"
           and c.args and U(c.args[0]) == "metadata"]
    for o in overlay:
        chk.ob(rid, C, bool(upd) and cfg.must_pass(o, svn, upd),
               "overlaid attributes are merged into the state (state.metadata.update(metadata)) before "
               "volatility is read", cfg.nodes[o].ast, ea.mod, key="overlay-merged-before-set_volatile")
        # the overlay must come after the capital-letter filter (else the filter would drop `volatile`)
        filt = [n.id for n in cfg.nodes if n.kind == "stmt" and isinstance(n.ast, ast.Assign) and n.id != o
                and isinstance(n.ast.value, ast.DictComp) and "isupper" in U(n.ast.value)]
        for f in filt:
            chk.ob(rid, C, not cfg.can_reach(o, f), "the persistence filter runs before the overlay",
                   cfg.nodes[f].ast, ea.mod, key="filter-before-overlay")


def rule_caching_anded(chk, ea, rid):
    chk.rule(rid, "the result's `caching` flag is the conjunction of the context's flag and the command result's flag")
    found = []
    for n in body_walk(ea.fn):
        if isinstance(n, ast.Assign) and U(n.targets[0]).replace('"', "'") == "metadata['caching']":
            found.append(n)
    chk.floor(rid, len(found), 1, "assignments to metadata['caching']")
    for a in found:
        v = a.value
        ops = flatten_boolop(v, ast.And) if isinstance(v, ast.BoolOp) and isinstance(v.op, ast.And) else []
        txts = [U(o).replace('"', "'") for o in ops]
        ctx_side = any(t.startswith("metadata.get('caching'") or t in ("self.caching", "metadata['caching']") for t in txts)
        st_side = any(t.startswith("state.metadata.get('caching'") or t == "state.metadata['caching']" for t in txts)
        chk.ob(rid, ea.C, ctx_side and st_side,
               "`caching` = context flag AND state flag (both operands present)", a, ea.mod, key="and")


# --------------------------------------------------------------------------- C05.4 / C04.3
def rule_read_bypass_implies_write_bypass(chk, ev, ea, rid):
    chk.rule(rid, "contradiction rule: every reason for which Context.evaluate skips the cache lookup must also "
                  "make the write side unreachable (cache variable bound to NoCache() under that reason, or the "
                  "reason forces volatility through evaluate_action)")
    C = "liquer.context.Context.evaluate"
    g = ev.one(ev.get_calls, f"`{ev.cachevar}.get(...)` lookup")
    gl = dominating_literals(ev.cfg, ev.node(g))
    # the NoCache() bindings of the cache variable
    nocache_nodes = []
    for d in ev.cfg.defs_of(ev.cachevar):
        v = assigned_value(ev.cfg, d, ev.cachevar)
        if isinstance(v, ast.Call) and call_tail(v) == "NoCache":
            nocache_nodes.append(d)
    reasons = []
    st = ev.one(ev.store_calls, "cache.store site")
    stn = ev.node(st)
    common = {(txt, pol) for _, txt, pol, _ in gl}
    for e, txt, pol, tn in gl:
        # a guard literal is a *bypass reason* only if taking the other edge of its test still leads to the
        # write side (otherwise it is just another exit, e.g. the sub-query delegation)
        other = [(m, lab) for m, lab in ev.cfg.succ[tn] if lab in ("T", "F")
                 and not ev.cfg.edge_dominates(tn, lab, ev.node(g))]
        if not any(stn in ev.cfg.reachable(m) for m, _ in other):
            continue
        vars_ = sorted({n.id for n in ast.walk(e) if isinstance(n, ast.Name)} - {"len", "None"})
        reasons.append((e, txt, pol, vars_))
    chk.floor(rid, len(reasons), 2, "bypass reasons guarding the lookup")
    act = ev.one(ev.action_calls, "self.evaluate_action(...) call")
    extra_kw = kwarg(act, "extra_parameters")
    for e, txt, pol, vars_ in reasons:
        neg = (txt, not pol)   # the bypass reason: the guard literal is false
        ok = False
        how = ""
        # (a) volatility: the variable is handed to evaluate_action as extra_parameters
        if extra_kw is not None and U(extra_kw) in vars_:
            ok, how = True, "forces volatility via evaluate_action(extra_parameters=...)"
        # (b) NoCache() selected under the reason
        for d in nocache_nodes:
            for n in ev.cfg.nodes:
                if n.kind != "test":
                    continue
                if ev.cfg.edge_dominates(n.id, "T", d):
                    if neg in disjunct_literals(n.ast):
                        # all other dominating literals may only concern the cache parameter itself
                        others = [l for l in dominating_literals(ev.cfg, d) if l[3] != n.id]
                        if all(ev.cachevar in l[1] or (l[1], l[2]) in common for l in others):
                            ok, how = True, "selects NoCache()"
        chk.ob(rid, C, ok,
               f"lookup is skipped when `{txt}` is {not pol}; the write side must be bypassed too"
               + (f" ({how})" if ok else " — the real cache stays selected and nothing is volatile, "
                  "so the result is filed under the plain query"),
               e, ev.mod, key="reason:" + ",".join(vars_))


def rule_recursion_passes_cache(chk, ev, rid):
    chk.rule(rid, "the predecessor evaluation receives the cache object selected at this level "
                  "(a bypassed evaluation cannot file intermediate results; a cached one files at every level)")
    C = "liquer.context.Context.evaluate"
    chk.floor(rid, len(ev.rec_calls), 1, "recursive predecessor evaluations")
    for c in ev.rec_calls:
        kw = kwarg(c, "cache")
        if kw is None and len(c.args) > 1:
            kw = c.args[1]
        chk.ob(rid, C, kw is not None and U(kw) == ev.cachevar,
               f"recursive evaluate({ev.pvar}, ...) passes cache={ev.cachevar}", c, ev.mod, key="cache-kw")
        # no re-selection between the selection and the call: defs reaching the call are the selection ones
        ds = ev.cfg.reaching_defs(ev.cachevar, ev.node(c))
        vals = []
        for d in ds:
            if d == ev.cfg.entry:
                vals.append("<parameter>")
            else:
                vals.append(U(assigned_value(ev.cfg, d, ev.cachevar)))
        chk.ob(rid, C, all(v in ("<parameter>", "self.cache()", "NoCache()") for v in vals),
               f"cache handed down is the parameter / self.cache() / NoCache() (reaching definitions: {vals})",
               c, ev.mod, key="cache-defs")


# --------------------------------------------------------------------------- C05.5 back-end refusal / ready gate
def backend_classes(repo, names=LEAVES):
    return [repo.cls(CACHE, n) for n in names]


def _write_nodes_of_store(ci, fn, cfg):
    """CFG nodes of a cache `store` with a persistent write effect."""
    W = {"open", "write", "write_bytes", "execute", "store", "store_metadata", "commit", "dump"}
    nodes = []
    for c in calls_in(fn):
        t = call_tail(c)
        if t in W and not (t == "open" and not is_write_open(c)):
            nodes.append((cfg.node_of(c), c))
    for s in self_field_writes(fn):
        nodes.append((cfg.node_of(s), s))
    return nodes


def rule_backend_refuses_errors(chk, repo, rid):
    chk.rule(rid, "store() of every leaf back-end refuses error states before any write; get() returns a state "
                  "only on paths dominated by status == 'ready'")
    mod = repo.module(CACHE)
    n_inst = 0
    for ci in backend_classes(repo):
        _, fn = ci.find_method("store")
        if fn is None:
            raise AnalysisError(f"{ci.qual}.store missing")
        sv = params(fn)[1]
        cfg = CFG(fn)
        wn = _write_nodes_of_store(ci, fn, cfg)
        if not wn:
            raise AnalysisError(f"{ci.qual}.store: no write effect recognised")
        bad = None
        for nid, a in wn:
            lits = dominating_literals(cfg, nid)
            if not has_literal(lits, lambda t: t == f"{sv}.is_error", False):
                bad = a
                break
        n_inst += 1
        chk.ob(rid, f"{ci.qual}.store", bad is None,
               "every write is dominated by the is_error refusal" if bad is None else
               f"write `{U(bad)[:60]}` is reachable with an error state", bad or fn, mod, key="refuse-error")
        # get
        _, g = ci.find_method("get")
        gcfg = CFG(g)
        rets = [r for r in returns_of(g) if not is_none_const(r.value)]
        if not rets:
            raise AnalysisError(f"{ci.qual}.get: no state-returning exit")
        for r in rets:
            lits = dominating_literals(gcfg, gcfg.node_of(r))
            ok = has_literal(lits, lambda t: "status" in t and "ready" in t and "==" in t, True)
            n_inst += 1
            chk.ob(rid, f"{ci.qual}.get", ok, "a state is returned only under status == 'ready'", r, mod,
                   key="ready-gate")
    chk.floor(rid, n_inst, 8, "back-end store/get instances")


# --------------------------------------------------------------------------- C05.6 canonical key
def rule_filed_under_canonical_text(chk, ev, repo, rid, accept_raw=False):
    """accept_raw: for transparency (C04) a result filed under the as-typed text of the *same* query is harmless
    (a non-canonical text is canonical for no other query, C02); C05 demands the canonical text."""
    chk.rule(rid, "results are filed under the canonical text: `state.query = query.encode()` is the definition "
                  "reaching cache.store(state), and every back-end derives its key from state.query only"
                  + (" (the as-typed text of the same query is accepted too: it denotes the same query)" if accept_raw else ""))
    C = "liquer.context.Context.evaluate"
    st = ev.one(ev.store_calls, "cache.store site")
    ra, rb, fe = reaching_defs_attr(ev.cfg, "state", "state.query", ev.node(st))
    vals = [U(assigned_value(ev.cfg, d, "state.query")) for d in ra]
    accepted = {f"{ev.queryvar}.encode()"} | ({ev.rawvar, "self.raw_query"} if accept_raw else set())
    ok = bool(ra) and not rb and not fe and all(v in accepted for v in vals)
    qdefs = ev.cfg.reaching_defs(ev.queryvar, ev.node(st))
    ok = ok and all(d != ev.cfg.entry and call_tail(ev.cfg.nodes[d].ast.value) == "to_query" for d in qdefs)
    chk.ob(rid, C, ok, f"state.query reaching cache.store is {vals or 'not re-labelled after the action'}"
           + ("" if not rb else " (state rebound after labelling)"), st, ev.mod, key="label-before-store")
    mod = repo.module(CACHE)
    n = 0
    for ci in backend_classes(repo):
        _, fn = ci.find_method("store")
        sv = params(fn)[1]
        cfg = CFG(fn)
        keys = []
        for c in calls_in(fn, tail="to_path"):
            if c.args:
                keys.append((c.args[0], c))
        for nd in body_walk(fn):
            if isinstance(nd, ast.Assign):
                for t in nd.targets:
                    if isinstance(t, ast.Subscript) and U(t.value).startswith("self."):
                        keys.append((t.slice, nd))
        for c in calls_in(fn, tail="execute"):
            if len(c.args) > 1 and isinstance(c.args[1], (ast.List, ast.Tuple)) and c.args[1].elts:
                keys.append((c.args[1].elts[0], c))
        if not keys:
            raise AnalysisError(f"{ci.qual}.store: no key expression recognised")
        for k, site in keys:
            kk = resolve_local(cfg, k, cfg.node_of(site))
            n += 1
            chk.ob(rid, f"{ci.qual}.store", U(kk) == f"{sv}.query",
                   f"key expression `{U(k)}` resolves to `{U(kk)}` (must be {sv}.query)", site, mod,
                   key="key:" + U(k))
    chk.floor(rid, n, 4, "back-end key expressions")


# =========================================================================== C13 family
def fstring_text(node, consts=None):
    """Constant-fold a str / f-string / `TEMPLATE.format(k=v)` into text with `{expr}` placeholders; None if not a string form.
    `consts` maps names of class-level / module-level string constants to their value nodes (for `self.NAME` / `NAME`)."""
    consts = consts or {}
    if isinstance(node, ast.Constant) and isinstance(node.value, str):
        return node.value
    if isinstance(node, ast.Name) and node.id in consts:
        return fstring_text(consts[node.id], consts)
    if isinstance(node, ast.Attribute) and isinstance(node.value, ast.Name) and node.value.id in ("self", "cls") and node.attr in consts:
        return fstring_text(consts[node.attr], consts)
    if isinstance(node, ast.Call) and isinstance(node.func, ast.Attribute) and node.func.attr == "format" and not node.args:
        base = fstring_text(node.func.value, consts)
        if base is not None and all(k.arg for k in node.keywords):
            for k in node.keywords:
                base = base.replace("{" + k.arg + "}", "{" + U(k.value) + "}")
            return base
    if isinstance(node, ast.JoinedStr):
        out = ""
        for v in node.values:
            if isinstance(v, ast.Constant):
                out += str(v.value)
            else:
                out += "{" + U(v.value) + "}"
        return out
    if isinstance(node, ast.BinOp) and isinstance(node.op, ast.Add):
        a, b = fstring_text(node.left), fstring_text(node.right)
        if a is not None and b is not None:
            return a + b
    return None


def sql_executes(fn):
    """[(call, sql_text_upper_first_word, sql_text)] for `.execute(<sql>, ...)` calls in fn."""
    out = []
    cfg = None
    for c in calls_in(fn, tail="execute"):
        if not c.args:
            continue
        a0 = c.args[0]
        if isinstance(a0, ast.Name):
            cfg = cfg or CFG(fn)
            a0 = resolve_local(cfg, a0, cfg.node_of(c))
        t = fstring_text(a0, getattr(fn, "_class_assigns", None))
        if t is None:
            out.append((c, None, None))
            continue
        words = t.strip().split()
        out.append((c, words[0].upper() if words else "", t))
    return out


def where_clause(t):
    """Normalised text of the WHERE clause of an SQL statement (upper case, no blanks, no parentheses, no
    trailing semicolon), or None when the statement has none."""
    u = " ".join(t.upper().split())
    i = u.find(" WHERE ")
    if i < 0:
        return None
    w = u[i + 7:]
    for kw in (" ORDER BY ", " LIMIT ", " GROUP BY "):
        j = w.find(kw)
        if j >= 0:
            w = w[:j]
    return w.replace(" ", "").replace("(", "").replace(")", "").rstrip(";")


def where_is_key_only(t):
    """The statement selects its rows by `query=?` and by nothing else: an extra conjunct narrows a DELETE
    (rows of the key survive it), an extra disjunct widens it (rows of other keys are hit)."""
    return where_clause(t) in ("QUERY=?", "?=QUERY", "QUERY==?", "QUERYIS?")


def sql_family(repo):
    base = repo.cls(CACHE, "SQLCache")
    return [ci for ci in repo.classes_in(CACHE) if ci.is_subclass_of("SQLCache")]


def conditionally_evaluated(stmt_or_expr, target):
    """True if `target` (an AST node inside stmt_or_expr) sits in a short-circuit / conditional
    position: non-first operand of and/or, branch of a conditional expression, comprehension filter
    or element."""
    def rec(node, cond):
        if node is target:
            return cond
        r = None
        if isinstance(node, ast.BoolOp):
            for i, v in enumerate(node.values):
                x = rec(v, cond or i > 0)
                if x is not None:
                    return x
            return None
        if isinstance(node, ast.IfExp):
            x = rec(node.test, cond)
            if x is not None:
                return x
            for b in (node.body, node.orelse):
                x = rec(b, True)
                if x is not None:
                    return x
            return None
        if isinstance(node, (ast.ListComp, ast.SetComp, ast.GeneratorExp, ast.DictComp)):
            first = True
            for g in node.generators:
                x = rec(g.iter, cond or not first)
                if x is not None:
                    return x
                first = False
                for i in g.ifs:
                    x = rec(i, True)
                    if x is not None:
                        return x
            elts = [node.key, node.value] if isinstance(node, ast.DictComp) else [node.elt]
            for e in elts:
                x = rec(e, True)
                if x is not None:
                    return x
            return None
        for c in ast.iter_child_nodes(node):
            x = rec(c, cond)
            if x is not None:
                return x
        return None
    return bool(rec(stmt_or_expr, False))


def on_every_path(cfg, call):
    """the statement evaluating `call` lies on every entry->exit path and the call itself is not in a
    short-circuit position inside that statement"""
    nid = cfg.node_of(call)
    if cfg.exit in cfg.reachable(cfg.entry, avoid=[nid]):
        return False
    return not conditionally_evaluated(cfg.nodes[nid].ast, call)


def rule_data_presence_witness(chk, repo, rid):
    chk.rule(rid, "metadata-only writes never make data retrievable: per leaf back-end, what get() serves can "
                  "only be created by store() (separate data file / NULL blob column / bytes vs metadata half / "
                  "guarded slot)")
    mod = repo.module(CACHE)
    # ---- MemoryCache: slot written outside store() must be guarded in get()
    ci = repo.cls(CACHE, "MemoryCache")
    _, g = ci.find_method("get")
    container = None
    for c in calls_in(g, tail="get"):
        r = call_recv(c)
        if r and r.startswith("self."):
            container = r
    for n in body_walk(g):
        if isinstance(n, ast.Subscript) and U(n.value).startswith("self."):
            container = container or U(n.value)
    if container is None:
        raise AnalysisError("MemoryCache.get: container not recognised")
    writers = {}
    for mn, fn in ci.methods.items():
        for n in body_walk(fn):
            if isinstance(n, ast.Assign):
                for t in n.targets:
                    if isinstance(t, ast.Subscript) and U(t.value) == container:
                        writers.setdefault(mn, []).append(n)
    foreign = {m: w for m, w in writers.items() if m != "store"}
    gcfg = CFG(g)
    rets = [r for r in returns_of(g) if not is_none_const(r.value)]
    if not foreign:
        chk.ob(rid, f"{ci.qual}.get", True, f"only store() writes {container}[...]", g, mod, key="witness")
    else:
        # need a presence field F: get's return dominated by a literal over self.F (F != container),
        # every foreign placeholder write accompanied by marking F, store() un-marking it
        fields = set()
        for r in rets:
            for e, txt, pol, _ in dominating_literals(gcfg, gcfg.node_of(r)):
                for a in ast.walk(e):
                    if isinstance(a, ast.Attribute) and U(a.value) == "self" and U(a) != container:
                        fields.add(U(a))
        ok = False
        why = (f"{', '.join(sorted(foreign))} write(s) a placeholder into {container}[key], the slot get() serves, and "
               f"get() has no data-presence test: a metadata-only entry with status 'ready' is returned as data None")
        for F in sorted(fields):
            marks = all(any(call_recv(c) == F and call_tail(c) in ("add", "append") for c in calls_in(ci.methods[m]))
                        or any(isinstance(n, ast.Assign) and any(U(t).startswith(F + "[") for t in n.targets)
                               for n in body_walk(ci.methods[m])) for m in foreign)
            st = ci.methods.get("store")
            unmarks = st is not None and (any(call_recv(c) == F and call_tail(c) in ("discard", "remove", "pop")
                                              for c in calls_in(st))
                                          or any(isinstance(n, ast.Delete) and any(U(t).startswith(F + "[") for t in n.targets)
                                                 for n in body_walk(st)))
            if marks and unmarks:
                ok = True
                why = f"get() is guarded by presence field {F}, marked by {sorted(foreign)} and cleared by store()"
        chk.ob(rid, f"{ci.qual}.get", ok, why, g, mod, key="witness")
    # ---- FileCache: store_metadata writes a different file than get() reads data from
    ci = repo.cls(CACHE, "FileCache")
    def tp_sig(call):
        d = {k.arg: U(k.value) for k in call.keywords}
        for i, a in enumerate(call.args[1:]):
            d[params(ci.find_method("to_path")[1])[2:][i]] = U(a)
        return d
    _, g = ci.find_method("get")
    _, sm = ci.find_method("store_metadata")
    _, stf = ci.find_method("store")
    tp_def = dict(zip(params(ci.find_method("to_path")[1])[2:],
                      [U(d) for d in ci.find_method("to_path")[1].args.defaults]))
    def eff(call):
        d = dict(tp_def)
        d.update(tp_sig(call))
        return d
    data_reads = [c for c in calls_in(g, tail="to_path")]
    md_writes = [c for c in calls_in(sm, tail="to_path")]
    if not data_reads or not md_writes:
        raise AnalysisError("FileCache: to_path call sites not found in get/store_metadata")
    rp = {eff(c).get("prefix") for c in data_reads}
    wp = {eff(c).get("prefix") for c in md_writes}
    chk.ob(rid, f"{ci.qual}.store_metadata", not (rp & wp),
           f"metadata is written under prefix {sorted(wp)} and data is read from prefix {sorted(rp)} (disjoint)",
           sm, mod, key="witness")
    gcfg = CFG(g)
    fb = [c for c in calls_in(g, tail="from_bytes")]
    if not fb:
        raise AnalysisError("FileCache.get: from_bytes call not found")
    for r in [r for r in returns_of(g) if not is_none_const(r.value)]:
        ok = gcfg.must_pass(gcfg.entry, gcfg.node_of(r), [gcfg.node_of(fb[0])])
        chk.ob(rid, f"{ci.qual}.get", ok, "a state is returned only after the data file was read and decoded"
               if ok else "a state can be returned without reading the data file (metadata-only entry served as data None)",
               r, mod, key="decode-before-return")
    # ---- SQL: store_metadata inserts NULL state_data; get decodes inside a handler that yields None
    ci = repo.cls(CACHE, "SQLCache")
    _, sm = ci.find_method("store_metadata")
    ins = [(c, t) for c, w, t in sql_executes(sm) if w == "INSERT"]
    if not ins:
        raise AnalysisError("SQLCache.store_metadata: INSERT not found")
    for c, t in ins:
        cols = [x.strip() for x in t[t.index("(") + 1:t.index(")")].split(",")]
        vals = c.args[1].elts if len(c.args) > 1 and isinstance(c.args[1], (ast.List, ast.Tuple)) else []
        ok = "state_data" in cols and len(vals) == len(cols) and is_none_const(vals[cols.index("state_data")])
        chk.ob(rid, f"{ci.qual}.store_metadata", ok, "metadata-only rows carry NULL state_data", c, mod, key="witness")
    # ... and a data row never does: the payload of SQLCache.store's INSERT is self.encode(<bytes>) unconditionally (empty bytes included)
    _, st_ = ci.find_method("store")
    for c, t in [(c, t) for c, w, t in sql_executes(st_) if w == "INSERT"]:
        cols = [x.strip() for x in t[t.index("(") + 1:t.index(")")].split(",")]
        vals = c.args[1].elts if len(c.args) > 1 and isinstance(c.args[1], (ast.List, ast.Tuple)) else []
        v = vals[cols.index("state_data")] if "state_data" in cols and len(vals) == len(cols) else None
        ok = isinstance(v, ast.Call) and call_name(v) == "self.encode"
        chk.ob(rid, f"{ci.qual}.store", ok, "a data row always carries a payload: state_data = self.encode(bytes)" if ok else
               f"state_data is `{U(v) if v is not None else None}`: for some values (e.g. empty bytes) the row is indistinguishable from a metadata-only row and is never served",
               c, mod, key="witness-data")
    _, g = ci.find_method("get")
    gcfg = CFG(g)
    for r in [r for r in returns_of(g) if not is_none_const(r.value)]:
        fb = [c for c in calls_in(g, tail="from_bytes")]
        ok = bool(fb) and all(gcfg.must_pass(gcfg.entry, gcfg.node_of(r), [gcfg.node_of(c)]) for c in fb[:1])
        chk.ob(rid, f"{ci.qual}.get", ok, "a state is returned only after decoding the data column", r, mod,
               key="decode-before-return")
    # ---- StoreCache: store_metadata only writes the metadata half; get reads bytes
    ci = repo.cls(CACHE, "StoreCache")
    _, sm = ci.find_method("store_metadata")
    stor = None
    for c in calls_in(sm):
        if call_tail(c) in ("store", "store_metadata") and (call_recv(c) or "").startswith("self."):
            stor = call_recv(c)
    if stor is None:
        raise AnalysisError("StoreCache.store_metadata: no store call recognised")
    bad = [c for c in calls_in(sm, tail="store") if call_recv(c) == stor]
    chk.ob(rid, f"{ci.qual}.store_metadata", not bad, f"only {stor}.store_metadata is used (never {stor}.store)",
           sm, mod, key="witness")
    _, g = ci.find_method("get")
    gcfg = CFG(g)
    for r in [r for r in returns_of(g) if not is_none_const(r.value)]:
        gb = [c for c in calls_in(g, tail="get_bytes") if call_recv(c) == stor]
        ok = bool(gb) and gcfg.must_pass(gcfg.entry, gcfg.node_of(r), [gcfg.node_of(gb[0])])
        chk.ob(rid, f"{ci.qual}.get", ok, "a state is returned only after reading the bytes half", r, mod,
               key="bytes-before-return")


def rule_memo_invalidation(chk, repo, rid):
    chk.rule(rid, "every SQL-mutating method of the SQL cache family invalidates the key-list memo")
    mod = repo.module(CACHE)
    base = repo.cls(CACHE, "SQLCache")
    memo = None
    for mn, fn in base.methods.items():
        for n in body_walk(fn):
            if isinstance(n, ast.Assign) and "fetchall" in U(n.value):
                for t in n.targets:
                    if U(t).startswith("self."):
                        memo = U(t)
    if memo is None:
        raise AnalysisError("SQLCache: key memo field (assigned from fetchall) not found")
    chk.count("memo_field:" + memo, 1)
    n_inst = 0
    for ci in sql_family(repo):
        for mn, fn in ci.methods.items():
            if mn in ("init", "__init__"):
                continue
            muts = [(c, w) for c, w, t in sql_executes(fn) if w in ("INSERT", "DELETE", "DROP", "UPDATE")]
            if not muts:
                continue
            cfg = CFG(fn)
            assigns = cfg.defs_of(memo)
            for c, w in muts:
                x = cfg.node_of(c)
                ok = bool(assigns) and (cfg.set_dominates(assigns, x) or cfg.always_followed_by(x, assigns))
                n_inst += 1
                chk.ob(rid, f"{ci.qual}.{mn}", ok,
                       f"{w} is paired with an assignment to {memo}" if ok else
                       f"{w} leaves {memo} stale: contains()/keys() keep answering from the old key list",
                       c, mod, key=f"memo:{w}")
    chk.floor(rid, n_inst, 4, "SQL-mutating statements")


def _init_param_flow(ci, pname):
    """How does constructor parameter `pname` of class ci reach SQLCache.__init__? returns the name of the
    parameter it is passed as (following super().__init__(...)), or None."""
    return pname


def rule_one_row_per_key(chk, repo, rid):
    chk.rule(rid, "one row per key: every INSERT is preceded by DELETE of the same key under a flag that every "
                  "factory (from_sqlite) of the SQL cache family sets to True")
    mod = repo.module(CACHE)
    base = repo.cls(CACHE, "SQLCache")
    n_inst = 0
    flag = None
    for ci in sql_family(repo):
        for mn, fn in ci.methods.items():
            ins = [(c, t) for c, w, t in sql_executes(fn) if w == "INSERT"]
            if not ins:
                continue
            cfg = CFG(fn)
            dels = [(c, t) for c, w, t in sql_executes(fn) if w == "DELETE"]
            for c, t in ins:
                x = cfg.node_of(c)
                ok = False
                for d, dt in dels:
                    dn = cfg.node_of(d)
                    same_key = len(d.args) > 1 and len(c.args) > 1 and isinstance(d.args[1], (ast.List, ast.Tuple)) \
                        and isinstance(c.args[1], (ast.List, ast.Tuple)) and d.args[1].elts and c.args[1].elts \
                        and U(d.args[1].elts[0]) == U(c.args[1].elts[0]) and len(d.args[1].elts) == 1 and where_is_key_only(dt)
                    xl = {(txt, pol) for _, txt, pol, _ in dominating_literals(cfg, x)}
                    lits = [l for l in dominating_literals(cfg, dn) if (l[1], l[2]) not in xl]
                    fl = [txt for _, txt, pol, _ in lits if pol and txt.startswith("self.")]
                    # the INSERT is reached through the DELETE whenever the flag is true
                    if same_key and cfg.can_reach(dn, x) and (not lits or (fl and len(lits) == 1)):
                        ok = True
                        if fl:
                            flag = fl[0]
                n_inst += 1
                chk.ob(rid, f"{ci.qual}.{mn}", ok, "INSERT preceded by DELETE ... WHERE query=? of the same key" if ok else
                       "no DELETE whose WHERE clause is exactly `query=?` (bound to the inserted key) reaches this INSERT: "
                       "rows of the key (e.g. the data-less progress row) survive, get() keeps reading the oldest one",
                       c, mod, key="delete-before-insert")
    chk.floor(rid, n_inst, 2, "INSERT statements")
    if flag is None:
        return
    fname = flag.split(".", 1)[1]
    # factories: classmethods that return cls(...)
    n_f = 0
    for ci in sql_family(repo):
        for mn, fn in ci.methods.items():
            if not any(U(d) == "classmethod" for d in fn.decorator_list):
                continue
            for c in calls_in(fn):
                if isinstance(c.func, ast.Name) and c.func.id == params(fn)[0]:
                    val = _flag_value(repo, ci, c, fname)
                    n_f += 1
                    chk.ob(rid, f"{ci.qual}.{mn}", val is True,
                           f"factory constructs the cache with {fname}={val}"
                           + ("" if val is True else ": repeated stores of a key add rows, get() keeps serving the "
                              "oldest (progress-metadata) row, so the cache never hits / serves stale data"),
                           c, mod, key=f"factory:{fname}")
    chk.floor(rid, n_f, 2, "factory classmethods")
    # direct construction defaults: informational
    for ci in sql_family(repo):
        init = ci.methods.get("__init__")
        if init is None:
            continue
        d = dict(zip([a.arg for a in init.args.args][-len(init.args.defaults):], init.args.defaults)) \
            if init.args.defaults else {}
        if fname in d and not (isinstance(d[fname], ast.Constant) and d[fname].value is True):
            chk.xref(f"{ci.qual}.__init__ defaults {fname}={U(d[fname])}: direct construction without the factory "
                     f"keeps duplicate rows (documented entry point is from_sqlite)")


_UNKNOWN = object()


def _const_env_eval(expr, env):
    if isinstance(expr, ast.Constant):
        return expr.value
    if isinstance(expr, ast.Name) and expr.id in env:
        return env[expr.id]
    return _UNKNOWN


def _flag_value(repo, ci, call, fname, depth=0, bound=None):
    """Constant value of constructor keyword `fname` as it reaches `self.<fname>` when `call`
    constructs ci (follows super().__init__ chains, parameter defaults and keyword forwarding).
    Returns the constant, or None when it cannot be folded."""
    if depth > 4:
        return None
    dc, init = ci.find_method("__init__")
    if init is None:
        return None
    names = [a.arg for a in init.args.args]
    env = {}
    if init.args.defaults:
        for n, d in zip(names[-len(init.args.defaults):], init.args.defaults):
            env[n] = d.value if isinstance(d, ast.Constant) else _UNKNOWN
    if bound is None:
        bound = {}
        for i, a in enumerate(call.args):
            if i + 1 < len(names):
                bound[names[i + 1]] = a.value if isinstance(a, ast.Constant) else _UNKNOWN
        for k in call.keywords:
            if k.arg:
                bound[k.arg] = k.value.value if isinstance(k.value, ast.Constant) else _UNKNOWN
    env.update(bound)
    for n in body_walk(init):
        if isinstance(n, ast.Assign) and any(U(t) == f"self.{fname}" for t in n.targets):
            v = _const_env_eval(n.value, env)
            return None if v is _UNKNOWN else v
    for c in calls_in(init, tail="__init__"):
        if call_recv(c) == "super()":
            mro = dc.mro()
            if len(mro) < 2:
                return None
            parent = mro[1]
            pdc, pinit = parent.find_method("__init__")
            if pinit is None:
                return None
            pnames = [a.arg for a in pinit.args.args]
            nb = {}
            for i, a in enumerate(c.args):
                if i + 1 < len(pnames):
                    nb[pnames[i + 1]] = _const_env_eval(a, env)
            for k in c.keywords:
                if k.arg:
                    nb[k.arg] = _const_env_eval(k.value, env)
            return _flag_value(repo, parent, None, fname, depth + 1, bound=nb)
    return None


def rule_combinators_reach_both(chk, repo, rid):
    chk.rule(rid, "CacheCombine.remove/clean invoke the operation on both children on every path "
                  "(no short-circuit between the two calls); keys() enumerates both")
    mod = repo.module(CACHE)
    ci = repo.cls(CACHE, "CacheCombine")
    init = ci.methods.get("__init__")
    kids = [U(t) for n in body_walk(init) if isinstance(n, ast.Assign) for t in n.targets if U(t).startswith("self.")]
    if len(kids) != 2:
        raise AnalysisError(f"CacheCombine.__init__: expected two child fields, found {kids}")
    for op in ("remove", "clean", "keys"):
        fn = ci.methods.get(op)
        if fn is None:
            raise AnalysisError(f"CacheCombine.{op} missing")
        cfg = CFG(fn)
        for k in kids:
            cs = [c for c in calls_in(fn, tail=op) if call_recv(c) == k]
            ok = bool(cs) and any(on_every_path(cfg, c) for c in cs)
            chk.ob(rid, f"{ci.qual}.{op}", ok,
                   f"{k}.{op}() is invoked on every path" if ok else
                   f"{k}.{op}() is skipped on some path (short-circuit / early exit): the key survives in that child",
                   (cs[0] if cs else fn), mod, key=f"{op}:{k}")


def rule_wrappers_forward(chk, repo, rid, methods=("get", "get_metadata", "remove", "contains", "keys", "clean")):
    chk.rule(rid, "conditional wrappers and CacheProxy forward reads/removals verbatim to the wrapped cache "
                  "(same key, result returned unchanged)")
    mod = repo.module(CACHE)
    n = 0
    for cn in COND_WRAPPERS + ["CacheProxy"]:
        ci = repo.cls(CACHE, cn)
        init = ci.methods.get("__init__")
        p1 = params(init)[1]
        inner = None
        for nd in body_walk(init):
            if isinstance(nd, ast.Assign) and U(nd.value) == p1:
                inner = U(nd.targets[0])
        if inner is None:
            raise AnalysisError(f"{cn}.__init__: wrapped cache field not found")
        for m in methods:
            fn = ci.methods.get(m)
            if fn is None:
                chk.ob(rid, f"{ci.qual}.{m}", False, "method missing", ci.node, mod, key="forward")
                n += 1
                continue
            ps = params(fn)[1:]
            cs = [c for c in calls_in(fn, tail=m) if call_recv(c) == inner]
            ok = len(cs) >= 1 and all([U(a) for a in c.args] == ps and not c.keywords for c in cs)
            cfg = CFG(fn)
            if ok:
                if m == "clean":
                    ok = on_every_path(cfg, cs[0])
                else:
                    rets = returns_of(fn)
                    def is_fwd(v):
                        if v in cs:
                            return True
                        return isinstance(v, ast.Call) and call_name(v) in ("list", "sorted") and len(v.args) == 1 and v.args[0] in cs
                    ok = bool(rets) and all(is_fwd(r.value) for r in rets) and cfg.falloff not in cfg.reachable(cfg.entry)
            n += 1
            chk.ob(rid, f"{ci.qual}.{m}", ok, f"forwards to {inner}.{m}({', '.join(ps)}) and returns its result",
                   fn, mod, key="forward")
    chk.floor(rid, n, 24, "wrapper forwarding methods")


def rule_key_location_injective(chk, repo, rid):
    chk.rule(rid, "key -> location is injective by construction: file names come from a digest of the whole key; "
                  "SQL binds the key as a parameter (never interpolated into SQL text)")
    mod = repo.module(CACHE)
    for cn in ("FileCache", "StoreCache"):
        ci = repo.cls(CACHE, cn)
        fn = ci.methods.get("to_path")
        if fn is None:
            raise AnalysisError(f"{cn}.to_path missing")
        kp = params(fn)[1]
        # what is fed to the hash: m.update(X) calls and one-shot constructor arguments hashlib.md5(X)
        fed = [c.args[0] for c in calls_in(fn, tail="update") if len(c.args) == 1] + \
              [c.args[0] for c in calls_in(fn) if (call_name(c) or "").startswith("hashlib.") and len(c.args) == 1]
        ok = bool(fed) and all(U(a) in (f"{kp}.encode('utf-8')", f"{kp}.encode()") for a in fed) and \
            all(len(c.args) == 1 for c in calls_in(fn, tail="update"))
        hexd = [c for c in calls_in(fn, tail="hexdigest")]
        sliced = any(isinstance(n, ast.Subscript) and "digest" in U(n.value) for n in body_walk(fn))
        chk.ob(rid, f"{ci.qual}.to_path", ok and bool(hexd) and not sliced,
               "digest is computed over the whole, un-normalised key and used unsliced", fn, mod, key="digest")
    ALLOWED = {"self.table", "self.metadata_type", "self.state_data_type"}
    n = 0
    for ci in sql_family(repo):
        for mn, fn in ci.methods.items():
            for c, w, t in sql_executes(fn):
                if t is None:
                    chk.ob(rid, f"{ci.qual}.{mn}", False, "SQL text is not a foldable string", c, mod, key="sql-text")
                    continue
                import re as _re
                holes = set(_re.findall(r"\{([^}]*)\}", t))
                n += 1
                chk.ob(rid, f"{ci.qual}.{mn}", holes <= ALLOWED,
                       f"SQL text interpolates only configuration fields {sorted(holes)}", c, mod, key=f"sql:{w}")
    chk.floor(rid, n, 6, "SQL statements")


def rule_obfuscation(chk, repo, rid):
    chk.rule(rid, "obfuscating/encrypting file caches never write plain bytes: every file write in the FileCache "
                  "family goes through self.encode / self.encode_metadata, every read through self.decode*, and "
                  "the subclasses override only the codec")
    mod = repo.module(CACHE)
    ci = repo.cls(CACHE, "FileCache")
    n = 0
    for mn, fn in ci.methods.items():
        for c in calls_in(fn, tail="write"):
            a = c.args[0] if c.args else None
            ok = isinstance(a, ast.Call) and call_name(a) in ("self.encode", "self.encode_metadata")
            n += 1
            chk.ob(rid, f"{ci.qual}.{mn}", ok, f"file write argument `{U(a)[:50]}` passes through the codec", c, mod,
                   key="write:" + (call_name(a) if isinstance(a, ast.Call) else U(a)[:30]))
        for c in calls_in(fn):
            if call_tail(c) in ("write_bytes", "write_text") or call_name(c) in ("json.dump", "pickle.dump"):
                n += 1
                chk.ob(rid, f"{ci.qual}.{mn}", False, f"raw write `{U(c)[:50]}` bypasses the codec", c, mod,
                       key="rawwrite:" + call_tail(c))
        for c in calls_in(fn, tail="from_bytes"):
            a = c.args[0] if c.args else None
            ok = isinstance(a, ast.Call) and call_name(a) == "self.decode"
            n += 1
            chk.ob(rid, f"{ci.qual}.{mn}", ok, "bytes handed to from_bytes come through self.decode", c, mod, key="read:data")
        for c in calls_in(fn, name="json.loads"):
            a = c.args[0] if c.args else None
            ok = isinstance(a, ast.Call) and call_name(a) == "self.decode_metadata"
            n += 1
            chk.ob(rid, f"{ci.qual}.{mn}", ok, "metadata text comes through self.decode_metadata", c, mod, key="read:metadata")
    chk.floor(rid, n, 4, "file reads/writes in FileCache")
    em = ci.methods.get("encode_metadata")
    dm = ci.methods.get("decode_metadata")
    chk.ob(rid, f"{ci.qual}.encode_metadata", em is not None and all(isinstance(r.value, ast.Call) and call_name(r.value) == "self.encode" for r in returns_of(em)) and bool(returns_of(em)),
           "encode_metadata returns self.encode(...)", em or ci.node, mod, key="codec-md")
    chk.ob(rid, f"{ci.qual}.decode_metadata", dm is not None and any(call_name(c) == "self.decode" for c in calls_in(dm)),
           "decode_metadata goes through self.decode", dm or ci.node, mod, key="codec-md")
    subs = [c for c in repo.classes_in(CACHE) if c.is_subclass_of("FileCache") and c.name != "FileCache"]
    chk.floor(rid, len(subs), 2, "FileCache subclasses")
    PROTECTED = {"store", "store_metadata", "get", "get_metadata", "_load_metadata", "encode_metadata",
                 "decode_metadata", "remove", "keys", "contains", "to_path", "clean"}
    for s in subs:
        over = set(s.methods) & PROTECTED
        chk.ob(rid, s.qual, not over, f"overrides only the codec (overridden I/O methods: {sorted(over)})", s.node, mod,
               key="override-set")
        chk.ob(rid, s.qual, "encode" in s.methods and "decode" in s.methods, "overrides both encode and decode",
               s.node, mod, key="codec-pair")


def rule_remove_both_halves(chk, repo, rid):
    chk.rule(rid, "FileCache.remove deletes the data file and the state file; clean removes everything in the directory")
    mod = repo.module(CACHE)
    ci = repo.cls(CACHE, "FileCache")
    fn = ci.methods.get("remove")
    cfg = CFG(fn)
    rm = [c for c in calls_in(fn) if call_name(c) in ("os.remove", "os.unlink")]
    prefixes = set()
    for c in rm:
        a = resolve_local(cfg, c.args[0], cfg.node_of(c))
        if isinstance(a, ast.Call) and call_tail(a) == "to_path":
            pk = kwarg(a, "prefix")
            prefixes.add(U(pk) if pk is not None else "<default>")
    chk.ob(rid, f"{ci.qual}.remove", len(prefixes) >= 2 and "<default>" in prefixes,
           f"both halves are removed (to_path prefixes {sorted(prefixes)})", fn, mod, key="both-halves")
    cl = ci.methods.get("clean")
    ok = any(call_name(c) in ("os.remove", "os.unlink") for c in calls_in(cl)) and \
        any(call_tail(c) == "glob" and "'*'" in U(c) for c in calls_in(cl))
    chk.ob(rid, f"{ci.qual}.clean", ok, "clean removes every file under the cache directory", cl, mod, key="clean")


def rule_location_agreement(chk, repo, rid):
    chk.rule(rid, "store/get location agreement per back-end: the location expression used by the writer equals "
                  "the one used by get/get_metadata/contains/remove")
    mod = repo.module(CACHE)
    # FileCache
    ci = repo.cls(CACHE, "FileCache")
    tp = ci.find_method("to_path")[1]
    tp_def = dict(zip(params(tp)[2:], [U(d) for d in tp.args.defaults]))
    def sig(c):
        d = dict(tp_def)
        for i, a in enumerate(c.args[1:]):
            d[params(tp)[2:][i]] = U(a)
        d.update({k.arg: U(k.value) for k in c.keywords})
        return tuple(sorted(d.items()))
    sigs = {}
    for mn in ("store", "store_metadata", "get", "get_metadata", "remove", "contains"):
        fn = ci.methods.get(mn)
        if fn is None:
            raise AnalysisError(f"FileCache.{mn} missing")
        sigs[mn] = {sig(c) for c in calls_in(fn, tail="to_path")}
    data_w = {s for s in sigs["store"] if dict(s).get("prefix") != tp_def.get("prefix")}
    data_r = {s for s in sigs["get"] if dict(s).get("prefix") != tp_def.get("prefix")}
    chk.ob(rid, f"{ci.qual}", bool(data_w) and data_w == data_r,
           f"data file location: store {sorted(data_w)} == get {sorted(data_r)}", ci.methods["get"], mod, key="file:data")
    data_rm = {s for s in sigs["remove"] if dict(s).get("prefix") != tp_def.get("prefix")}
    chk.ob(rid, f"{ci.qual}", data_w == data_rm, "data file location: store == remove", ci.methods["remove"], mod, key="file:data-remove")
    md_w = sigs["store_metadata"]
    for mn in ("get_metadata", "contains", "remove"):
        md_r = {s for s in sigs[mn] if dict(s).get("prefix") == tp_def.get("prefix")}
        chk.ob(rid, f"{ci.qual}", bool(md_w) and md_w == md_r, f"state file location: store_metadata == {mn}",
               ci.methods[mn], mod, key=f"file:state-{mn}")
    # the type used for the data extension comes from the same metadata field on both sides
    def type_src(fn):
        out = set()
        for c in calls_in(fn, tail="get"):
            if call_recv(c) == "state_types_registry()":
                out.add(U(c.args[0]).replace('"', "'") if c.args else "")
        return out
    ts, tg = type_src(ci.methods["store"]), type_src(ci.methods["get"])
    norm = lambda s: {x.replace("state.type_identifier", "TI").replace("metadata['type_identifier']", "TI") for x in s}
    chk.ob(rid, f"{ci.qual}", norm(ts) == norm(tg) == {"TI"},
           f"extension's state type resolved from the type identifier on both sides ({sorted(ts)} / {sorted(tg)})",
           ci.methods["get"], mod, key="file:type-src")
    # StoreCache
    ci = repo.cls(CACHE, "StoreCache")
    all_s = set()
    for mn in ("store", "store_metadata", "get", "get_metadata", "remove", "contains"):
        fn = ci.methods.get(mn)
        if fn is None:
            raise AnalysisError(f"StoreCache.{mn} missing")
        s = {tuple([U(a) for a in c.args[1:]] + [f"{k.arg}={U(k.value)}" for k in c.keywords]) for c in calls_in(fn, tail="to_path")}
        if not s:
            raise AnalysisError(f"StoreCache.{mn}: no to_path call")
        all_s |= s
    chk.ob(rid, f"{ci.qual}", len(all_s) == 1, f"one location signature for all operations ({sorted(all_s)})", ci.node, mod, key="store:sig")
    # SQL
    ci = repo.cls(CACHE, "SQLCache")
    for mn in ("get", "get_metadata", "remove"):
        fn = ci.methods.get(mn)
        ex = [(c, t) for c, w, t in sql_executes(fn) if t and w in ("SELECT", "DELETE")]
        ok = bool(ex) and all("WHEREQUERY=?" in t.upper().replace(" ", "").replace("\n", "") and len(c.args) > 1
                              and U(c.args[1]) == f"[{params(fn)[1]}]" for c, t in ex) \
            and all(where_is_key_only(t) for c, t in ex if t.strip().upper().startswith("DELETE"))
        chk.ob(rid, f"{ci.qual}.{mn}", ok, "row selected by `WHERE query=?` bound to the key", fn, mod, key="sql:where")
    for mn in ("store", "store_metadata"):
        fn = ci.methods.get(mn)
        for c, w, t in sql_executes(fn):
            if w == "INSERT":
                cols = [x.strip() for x in t[t.index("(") + 1:t.index(")")].split(",")]
                chk.ob(rid, f"{ci.qual}.{mn}", cols and cols[0] == "query", "key is inserted into column `query`", c, mod, key="sql:insert-col")
    # Memory
    ci = repo.cls(CACHE, "MemoryCache")
    g = ci.methods["get"]
    st = ci.methods["store"]
    gk = [U(c.args[0]) for c in calls_in(g, tail="get") if (call_recv(c) or "").startswith("self.")]
    sk = [U(t.slice) for n in body_walk(st) if isinstance(n, ast.Assign) for t in n.targets if isinstance(t, ast.Subscript)
          and U(t.value).startswith("self.")]
    chk.ob(rid, f"{ci.qual}", gk == [params(g)[1]] and sk == [f"{params(st)[1]}.query"],
           f"slot read by get ({gk}) is the key; slot written by store ({sk}) is state.query", g, mod, key="memory:slot")


def cache_classes(repo):
    return [ci for ci in repo.classes_in(CACHE) if ci.find_method("get")[1] is not None
            and ci.find_method("store")[1] is not None]


def rule_api_complete(chk, repo, rid):
    chk.rule(rid, "every cache class defines or inherits the 8 cache-API methods")
    mod = repo.module(CACHE)
    cls = cache_classes(repo)
    chk.floor(rid, len(cls), 13, "cache classes")
    for ci in cls:
        missing = [m for m in CACHE_API if ci.find_method(m)[1] is None]
        chk.ob(rid, ci.qual, not missing, f"defines/inherits all of {CACHE_API}" if not missing else f"missing {missing}",
               ci.node, mod, key="api")


# =========================================================================== C10 / C04 / C09 / C12 rules
def is_deep_copy_expr(e):
    """`x.clone()`, `deepcopy(x)`, `copy.deepcopy(x)`, `x.as_dict()`, `json.loads(json.dumps(x))`"""
    if not isinstance(e, ast.Call):
        return False
    t = call_tail(e)
    if t in ("clone", "deepcopy", "as_dict"):
        return True
    if call_name(e) == "json.loads" and e.args and isinstance(e.args[0], ast.Call) and call_name(e.args[0]) == "json.dumps":
        return True
    return False


def rule_memory_copy(chk, repo, rid):
    chk.rule(rid, "the in-memory cache is copy-in / copy-out: every value written into its container and every "
                  "value returned by get / get_metadata is a fresh deep copy (clone / deepcopy / as_dict)")
    mod = repo.module(CACHE)
    ci = repo.cls(CACHE, "MemoryCache")
    g = ci.methods.get("get")
    container = None
    for c in calls_in(g, tail="get"):
        r = call_recv(c)
        if r and r.startswith("self."):
            container = r
    if container is None:
        raise AnalysisError("MemoryCache.get: container not recognised")
    st = ci.methods.get("store")
    w = [n for n in body_walk(st) if isinstance(n, ast.Assign) and any(isinstance(t, ast.Subscript) and U(t.value) == container for t in n.targets)]
    if not w:
        raise AnalysisError("MemoryCache.store: container write not found")
    for n in w:
        chk.ob(rid, f"{ci.qual}.store", is_deep_copy_expr(n.value),
               f"value stored is `{U(n.value)}`" + ("" if is_deep_copy_expr(n.value) else
               ": the cache entry aliases the caller's state (the evaluator keeps mutating it: file name, query label)"),
               n, mod, key="copy-in:data")
    rets = [r for r in returns_of(g) if not is_none_const(r.value)]
    if not rets:
        raise AnalysisError("MemoryCache.get: no state-returning exit")
    for r in rets:
        chk.ob(rid, f"{ci.qual}.get", is_deep_copy_expr(r.value),
               f"value returned is `{U(r.value)}`" + ("" if is_deep_copy_expr(r.value) else
               ": callers (and the evaluator's in-place labelling) mutate the cached object"), r, mod, key="copy-out:data")
    gm = ci.methods.get("get_metadata")
    rets = [r for r in returns_of(gm) if not is_none_const(r.value)]
    if not rets:
        raise AnalysisError("MemoryCache.get_metadata: no returning exit")
    for r in rets:
        chk.ob(rid, f"{ci.qual}.get_metadata", is_deep_copy_expr(r.value),
               f"metadata returned is `{U(r.value)}`" + ("" if is_deep_copy_expr(r.value) else
               " (shallow: nested vars/log are shared with the cache entry)"), r, mod, key="copy-out:metadata")
    sm = ci.methods.get("store_metadata")
    mp = params(sm)[1]
    ws = [n for n in body_walk(sm) if isinstance(n, ast.Assign) and any(U(t).endswith(".metadata") for t in n.targets)]
    if not ws:
        raise AnalysisError("MemoryCache.store_metadata: metadata write not found")
    for n in ws:
        chk.ob(rid, f"{ci.qual}.store_metadata", is_deep_copy_expr(n.value),
               f"metadata stored is `{U(n.value)}`" + ("" if is_deep_copy_expr(n.value) else
               " (the caller's dictionary itself is kept)"), n, mod, key="copy-in:metadata")


def rule_lookup_key(chk, ev, rid):
    chk.rule(rid, "the cache lookup key is the canonical text of the parsed query (same text the result is filed under)")
    g = ev.one(ev.get_calls, "cache lookup")
    a = g.args[0] if g.args else None
    ok = a is not None and U(a) == f"{ev.queryvar}.encode()"
    if ok:
        qdefs = ev.cfg.reaching_defs(ev.queryvar, ev.node(g))
        ok = all(d != ev.cfg.entry and call_tail(ev.cfg.nodes[d].ast.value) == "to_query" for d in qdefs)
    chk.ob(rid, "liquer.context.Context.evaluate", ok,
           f"lookup key is `{U(a)}`" + ("" if ok else f" (must be {ev.queryvar}.encode(): the as-typed text may hold a "
           "metadata-only / foreign entry)"), g, ev.mod, key="lookup-key")


def rule_lookup_before_work(chk, ev, rid):
    chk.rule(rid, "lookup before work and early return on hit: the cache lookup precedes the predecessor recursion "
                  "and the action on every non-bypass path, and the hit branch returns without reaching either")
    C = "liquer.context.Context.evaluate"
    cfg = ev.cfg
    g = ev.one(ev.get_calls, "cache lookup")
    gn = ev.node(g)
    # the innermost test whose T edge dominates the lookup and whose F edge leads to the write side = G
    st = ev.one(ev.store_calls, "cache.store site")
    stn = ev.node(st)
    gtests = []
    for n in cfg.nodes:
        for lab_in, lab_out in (("T", "F"), ("F", "T")):      # the lookup may sit on either branch of the guard
            if n.kind == "test" and cfg.edge_dominates(n.id, lab_in, gn):
                fs = [m for m, lab in cfg.succ[n.id] if lab == lab_out]
                if fs and stn in cfg.reachable(fs[0]):
                    gtests.append((n.id, fs[0], lab_out))
    if not gtests:
        raise AnalysisError(f"Context.evaluate: expected a bypass guard around the lookup, found {len(gtests)}")
    # an if/elif chain yields one guard per reason: every guard's other edge is a bypass edge
    bypass_edges = [(g_[0], g_[2]) for g_ in gtests]
    work = [ev.node(c) for c in ev.rec_calls + ev.action_calls]
    chk.floor(rid, len(work), 2, "work sites (recursion, action)")
    for wn in work:
        ok = wn not in cfg.reachable(cfg.entry, avoid=[gn], avoid_edges=bypass_edges)
        chk.ob(rid, C, ok, f"`{U(cfg.nodes[wn].ast)[:50]}` is reached only after the lookup (or via the bypass edge)",
               cfg.nodes[wn].ast, ev.mod, key="lookup-dominates:" + U(cfg.nodes[wn].ast)[:30])
    # hit branch: the test on the looked-up value
    hit, hlab, var = ev.hit_test()
    tsucc = [m for m, lab in cfg.succ[hit] if lab == hlab][0]
    reach = cfg.reachable(tsucc)
    ok = not any(wn in reach for wn in work) and stn not in reach and cfg.exit in reach
    chk.ob(rid, C, ok, "the hit branch returns the cached state without reaching the recursion, the action or cache.store",
           cfg.nodes[hit].ast, ev.mod, key="hit-returns")
    rets = [r for r in cfg.returns() if r in reach]
    for r in rets:
        v = cfg.nodes[r].ast.value
        chk.ob(rid, C, v is not None and U(v) in (var, f"self.index_state({var})"), f"the hit branch returns the looked-up state (`{U(v)}`)",
               cfg.nodes[r].ast, ev.mod, key="hit-value")


def rule_every_level_files(chk, ev, rid):
    chk.rule(rid, "every recursion level files its own result: cache.store(state) is in Context.evaluate itself, after "
                  "evaluate_action, on the admitted path")
    C = "liquer.context.Context.evaluate"
    st = ev.one(ev.store_calls, "cache.store site")
    act = ev.one(ev.action_calls, "evaluate_action call")
    cfg = ev.cfg
    chk.ob(rid, C, cfg.dominates(ev.node(act), ev.node(st)), "the action evaluated at this level precedes the filing",
           st, ev.mod, key="store-after-action")
    # the state filed is the result of the action
    ds = cfg.reaching_defs("state", ev.node(st))
    ok = len(ds) == 1 and ds[0] == ev.node(act)
    chk.ob(rid, C, ok, "the state filed is the value returned by evaluate_action", st, ev.mod, key="store-action-result")
    # store failure is contained (try/except) so that a cache problem cannot fail the evaluation
    # (informational only; not an obligation)


def rule_combinator_store(chk, repo, rid):
    chk.rule(rid, "combinators store when their condition admits and consult both children on lookups")
    mod = repo.module(CACHE)
    for cn in COND_WRAPPERS:
        ci = repo.cls(CACHE, cn)
        fn = ci.methods.get("store")
        inner = [c for c in calls_in(fn, tail="store") if (call_recv(c) or "").startswith("self.") and call_recv(c) != "self"]
        sp = params(fn)[1]
        ok = bool(inner) and all([U(a) for a in c.args] == [sp] for c in inner) and \
            any(isinstance(r.value, ast.Call) and r.value in inner for r in returns_of(fn))
        chk.ob(rid, f"{ci.qual}.store", ok, "the admitting branch returns the wrapped cache's store(state) result", fn, mod, key="admit-store")
    ci = repo.cls(CACHE, "CacheCombine")
    for m in ("store", "get", "contains", "get_metadata"):
        fn = ci.methods.get(m)
        recv = {call_recv(c) for c in calls_in(fn, tail=m)}
        chk.ob(rid, f"{ci.qual}.{m}", {"self.cache1", "self.cache2"} <= recv, f"consults both children ({sorted(x for x in recv if x)})", fn, mod, key="both")


def rule_ready_marker_order(chk, repo, ev, ea, rid):
    chk.rule(rid, "the `ready` marker is never visible before the data: per back-end the data write precedes the marker "
                  "write (or both are one statement); at evaluator level a READY store_metadata before cache.store is "
                  "harmless only for back-ends with a data-presence witness")
    mod = repo.module(CACHE)
    # FileCache.store: the marker (status-ready metadata) may precede the data only if the data file is
    # published atomically (temporary file + replace) - get() serves the data file whenever it exists
    from .fsproto import write_effects, FINAL, TEMP, ctor_kind
    ci = repo.cls(CACHE, "FileCache")
    fn = ci.methods.get("store")
    cfg, effs = write_effects(fn)
    md = [c for c in calls_in(fn, tail="store_metadata") if call_recv(c) == "self"]
    data_w = [e for e in effs if e.kind == "write"]
    if not md or not data_w:
        raise AnalysisError("FileCache.store: marker/data writes not recognised")
    mdn = cfg.node_of(md[0])
    inplace = [e for e in data_w if e.cls != TEMP]
    marker_first = any(cfg.can_reach(mdn, e.node) for e in data_w)
    published = [e for e in effs if e.kind == "replace" and ctor_kind(e.ctor) == "data"]
    atomic = not inplace and bool(published) and all(
        cfg.always_followed_by(e.node, [p.node for p in published if p.text == e.text]) and
        any(p.text == e.text for p in published) for e in data_w)
    ok = atomic or not marker_first
    chk.ob(rid, f"{ci.qual}.store", ok,
           ("data file is published atomically (temporary file + replace)" if atomic else "data is written before the status-ready metadata") if ok else
           "metadata with status 'ready' is written before the data file is truncated and written in place: a concurrent "
           "get() in between decodes an empty/partial file as a value", md[0], mod, key="marker-before-data")
    # single-statement back-ends
    for cn, m in (("SQLCache", "store"), ("MemoryCache", "store")):
        c2 = repo.cls(CACHE, cn)
        f2 = c2.methods.get(m)
        if cn == "SQLCache":
            ins = [c for c, w, t in sql_executes(f2) if w == "INSERT"]
            ok = len(ins) == 1 and len(ins[0].args) > 1 and len(ins[0].args[1].elts) == 3
            chk.ob(rid, f"{c2.qual}.store", ok, "metadata and data are inserted by one INSERT statement", f2, mod, key="atomic")
        else:
            ws = [n for n in body_walk(f2) if isinstance(n, ast.Assign) and any(isinstance(t, ast.Subscript) and U(t.value).startswith("self.") for t in n.targets)]
            chk.ob(rid, f"{c2.qual}.store", len(ws) == 1, "the entry (metadata + data) is published by one slot assignment", f2, mod, key="atomic")


def methods_reaching(ci, target):
    """Names of methods in ci's MRO that (transitively, through self.<m>() calls) call self.<target>()."""
    allm = {}
    for c in reversed(ci.mro()):
        allm.update(c.methods)
    callers = {target}
    changed = True
    while changed:
        changed = False
        for name, fn in allm.items():
            if name in callers:
                continue
            for c in calls_in(fn):
                if call_recv(c) == "self" and call_tail(c) in callers:
                    callers.add(name)
                    changed = True
                    break
    return callers


def rule_progress_metadata_guard(chk, ev, rid):
    chk.rule(rid, "progress metadata cannot overwrite a finished cache entry before the lookup: every call made by "
                  "Context.evaluate before the lookup that can reach Context.store_metadata runs with "
                  "enable_store_metadata == False")
    C = "liquer.context.Context.evaluate"
    ci = ev.repo.cls(CTX, "Context")
    sm = ci.find_method("store_metadata")[1]
    if sm is None or "self.enable_store_metadata" not in U(sm.body[0] if sm.body else ""):
        # the guard field must gate the write
        if sm is None or "enable_store_metadata" not in U(sm):
            raise AnalysisError("Context.store_metadata: enable_store_metadata gate not found")
    S = methods_reaching(ci, "store_metadata")
    cfg = ev.cfg
    g = ev.one(ev.get_calls, "cache lookup")
    gn = ev.node(g)
    n = 0
    for c in calls_in(ev.fn):
        if call_recv(c) == "self" and call_tail(c) in S:
            cn = cfg.node_of(c)
            if not cfg.can_reach(cn, gn):
                continue
            n += 1
            ds = cfg.reaching_defs("self.enable_store_metadata", cn)
            vals = ["<entry>" if d == cfg.entry else U(assigned_value(cfg, d, "self.enable_store_metadata")) for d in ds]
            ok = vals and all(v == "False" for v in vals)
            chk.ob(rid, C, ok, f"`{U(c)[:40]}` precedes the lookup with enable_store_metadata in {vals}"
                   + ("" if ok else ": progress metadata (status not ready) can replace the finished entry, turning the next lookup into a miss"),
                   c, ev.mod, key="pre-lookup:" + call_tail(c))
    chk.floor(rid, n, 2, "metadata-writing calls before the lookup")
    # and it is re-enabled on the miss path before work
    act = ev.one(ev.action_calls, "evaluate_action call")
    ds = cfg.reaching_defs("self.enable_store_metadata", ev.node(act))
    vals = ["<entry>" if d == cfg.entry else U(assigned_value(cfg, d, "self.enable_store_metadata")) for d in ds]
    chk.ob(rid, C, bool(vals) and all(v == "True" for v in vals), f"progress metadata is enabled again for the miss path ({vals})",
           act, ev.mod, key="re-enabled")
