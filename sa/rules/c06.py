"""C06 - error containment: a failing step never yields a normal-looking result."""
import ast
from ..core import (AnalysisError, U, calls_in, call_tail, call_recv, call_name, body_walk, kwarg)
from ..cfg import CFG, assigned_value
from ..lib import (params, returns_of, is_none_const, dominating_literals, has_literal)
from . import cachefam as F

from . import extra as X

EXPLANATION = ("Error-path shape rules: short-circuit after a failed predecessor; total exception capture around the command call "
               "that marks the state; the error flag written after the last metadata merge; position and query on every failure "
               "report in the evaluator and the argument parsers; positions originating in the parse actions; link failures "
               "surfacing before the value is used; State.get raising on error with the last error entry's position/query; unknown "
               "commands reported; resource failures marking the *state* through methods that exist; caches serving only 'ready' "
               "entries. NOT decided: correctness of position values; failures swallowed inside user commands.")
CTX = "liquer.context"
CMD = "liquer.commands"
PARSER = "liquer.parser"
STATE = "liquer.state"


def rule_short_circuit(chk, rid):
    ev = F.Evaluate(chk.repo)
    chk.rule(rid, "short-circuit: evaluate_action is reached only on the false edge of an is_error test on the predecessor state "
                  "whose true branch returns on all paths a state derived from the failed one")
    C = f"{CTX}.Context.evaluate"
    cfg = ev.cfg
    act = ev.one(ev.action_calls, "evaluate_action call")
    an = ev.node(act)
    lits = dominating_literals(cfg, an)
    tests = [tn for _, txt, pol, tn in lits if txt == "state.is_error" and pol is False]
    chk.ob(rid, C, bool(tests), "the last action runs only if the predecessor state is not an error" if tests else
           "the last action is reachable with an erroneous predecessor state: commands to the right of a failed step run on None",
           act, ev.mod, key="guard")
    for tn in tests[:1]:
        tsucc = [m for m, lab in cfg.succ[tn] if lab == "T"][0]
        reach = cfg.reachable(tsucc)
        ok = an not in reach and cfg.exit in reach
        chk.ob(rid, C, ok, "the error branch returns without running the action", cfg.nodes[tn].ast, ev.mod, key="returns")
        rets = [r for r in cfg.returns() if r in reach]
        for r in rets:
            # the returned state derives from the failed state via next_state()
            ds = [d for d in cfg.reaching_defs("state", r) if d in reach]
            vals = [U(assigned_value(cfg, d, "state")) for d in ds]
            ok = bool(vals) and any("state.next_state()" == v for v in vals) or all("index_state(state)" in v for v in vals)
            chk.ob(rid, C, ok, f"the returned state derives from the failed one ({vals})", cfg.nodes[r].ast, ev.mod, key="derived")
        # the test reads the state produced by the predecessor evaluation / initial state
        ds = cfg.reaching_defs("state", tn)
        srcs = [U(assigned_value(cfg, d, "state")) for d in ds if d != cfg.entry]
        ok = bool(srcs) and all(("create_initial_state" in s) or (".evaluate(" in s) for s in srcs)
        chk.ob(rid, C, ok, "the tested state is the predecessor's result", cfg.nodes[tn].ast, ev.mod, key="tested-state")


def rule_exception_capture(chk, rid):
    ea = F.EvalAction(chk.repo)
    chk.rule(rid, "exception capture is total and marks the state: the command call sits in a try whose handlers cover Exception; "
                  "every handler sets state.is_error = True and a state.exception (or re-raises); afterwards is_error joins the "
                  "state's and the context's flag; on the error edge status ERROR and state.is_error = True are written after the "
                  "last metadata merge")
    fn, cfg, C = ea.fn, ea.cfg, ea.C
    call = ea.cmd_call
    tr = None
    for t in body_walk(fn):
        if isinstance(t, ast.Try) and any(call in list(ast.walk(s)) for s in t.body):
            tr = t
    chk.ob(rid, C, tr is not None, "the command call is inside a try block", call, ea.mod, key="in-try")
    if tr is None:
        return
    covers = any(h.type is None or U(h.type) in ("Exception", "BaseException") for h in tr.handlers)
    chk.ob(rid, C, covers, "a handler covers Exception", tr, ea.mod, key="covers-exception")
    for h in tr.handlers:
        hb = ast.Module(body=h.body, type_ignores=[])
        reraises = any(isinstance(s, ast.Raise) for s in h.body)
        sets_err = any(isinstance(s, ast.Assign) and U(s.targets[0]) == "state.is_error" and isinstance(s.value, ast.Constant) and s.value.value is True for s in ast.walk(hb))
        sets_exc = any(isinstance(s, ast.Assign) and U(s.targets[0]) == "state.exception" for s in ast.walk(hb))
        chk.ob(rid, C, reraises or (sets_err and sets_exc), f"handler `except {U(h.type) if h.type else ''}` marks the state (is_error, exception)",
               h, ea.mod, key=f"handler:{U(h.type) if h.type else 'bare'}")
    joins = [s for s in body_walk(fn) if isinstance(s, ast.Assign) and U(s.targets[0]) == "is_error"]
    ok = any(isinstance(s.value, ast.BoolOp) and isinstance(s.value.op, ast.Or) and {U(v) for v in s.value.values} >= {"state.is_error", "self.is_error"} for s in joins)
    chk.ob(rid, C, ok, "is_error = state.is_error or self.is_error", joins[0] if joins else fn, ea.mod, key="join")
    # error edge
    errs = [n for n in cfg.nodes if n.kind == "stmt" and isinstance(n.ast, ast.Assign) and U(n.ast.targets[0]) == "state.is_error"
            and isinstance(n.ast.value, ast.Constant) and n.ast.value.value is True
            and any(txt == "is_error" and pol for _, txt, pol, _ in dominating_literals(cfg, n.id))]
    chk.ob(rid, C, bool(errs), "the error edge sets state.is_error = True", fn, ea.mod, key="error-edge-flag")
    upd = [cfg.node_of(c) for c in calls_in(fn, tail="update") if call_recv(c) == "state.metadata"]
    for e in errs:
        later = [u for u in upd if cfg.can_reach(e.id, u)]
        chk.ob(rid, C, not later, "state.is_error = True is written after the last state.metadata.update(...)" if not later else
               "state.metadata.update(metadata) runs after state.is_error = True and overwrites it with the context's flag (False when "
               "only the state was marked, e.g. an EvaluationException raised by the command)", e.ast, ea.mod, key="flag-after-merge")
    on_err = lambda nid: any(txt == "is_error" and pol for _, txt, pol, _ in dominating_literals(cfg, nid))
    stat = [n for n in cfg.nodes if n.kind == "stmt" and isinstance(n.ast, ast.Assign) and U(n.ast.targets[0]) == "self.status"]
    err_stat = [n for n in stat if on_err(n.id) and "ERROR" in U(n.ast.value)]
    md = [n.id for n in cfg.nodes if n.kind == "stmt" and isinstance(n.ast, ast.Assign) and U(n.ast.targets[0]).replace('"', "'") == "metadata['status']"
          and U(n.ast.value) in ("self.status.value", "Status.ERROR.value")]
    ok = bool(err_stat) and bool(md)
    for s_ in err_stat:
        rets_ = [r for r in cfg.returns() if cfg.can_reach(s_.id, r)]
        ok = ok and bool(rets_) and all(cfg.must_pass(s_.id, r, md) for r in rets_)
        ok = ok and not [x for x in stat if x.id != s_.id and cfg.can_reach(s_.id, x.id) and any(cfg.can_reach(x.id, m_) for m_ in md)]
    chk.ob(rid, C, ok, "the error edge writes status ERROR into the metadata", fn, ea.mod, key="error-edge-status")


def rule_position_and_query(chk, rid):
    repo = chk.repo
    chk.rule(rid, "failures carry query and position: every error()/exception()/EvaluationException in evaluate_action / "
                  "evaluate_parameter passes position= and query=self.raw_query; every ArgumentParserException passes query= and, when "
                  "the offending token is an action parameter, its position")
    m = repo.module(CTX)
    WL = {"Unsupported type for extra parameters"}   # not one of the listed failure kinds (caller error, no action position)
    n = 0
    for fname in ("Context.evaluate_action", "Context.evaluate_parameter"):
        fn = repo.func(CTX, fname)
        for c in calls_in(fn):
            nm = call_name(c)
            if nm in ("self.error", "self.exception", "EvaluationException"):
                if any(w in U(c) for w in WL):
                    continue
                n += 1
                pos, q = kwarg(c, "position"), kwarg(c, "query")
                ok = pos is not None and q is not None and U(q) == "self.raw_query" and U(pos).endswith(".position")
                chk.ob(rid, f"{CTX}.{fname}", ok, f"`{nm}(...)` names position ({U(pos)}) and query ({U(q)})" if ok else
                       f"`{U(c)[:60]}` reports a failure without position/query", c, m, key=f"{nm}:{U(c.args[0])[:30] if c.args else U(kwarg(c, 'message'))[:30]}")
    chk.floor(rid, n, 7, "failure reports in the evaluator")
    cm = repo.module(CMD)
    n2 = 0
    for ci in repo.classes_in(CMD):
        for mn, fn in ci.methods.items():
            cfg = None
            for c in calls_in(fn):
                if call_name(c) != "ArgumentParserException":
                    continue
                n2 += 1
                q = kwarg(c, "query") or (c.args[2] if len(c.args) > 2 else None)
                okq = q is not None and U(q) == "query"
                chk.ob(rid, f"{ci.qual}.{mn}", okq, "names the query", c, cm, key=f"query:{U(c.args[0])[:40] if c.args else ''}")
                # position when the token is an ActionParameter
                cfg = cfg or CFG(fn)
                lits = dominating_literals(cfg, cfg.node_of(c))
                tok = None
                for _, txt, pol, _ in lits:
                    if pol and txt.startswith("isinstance(") and ("ActionParameter" in txt):
                        tok = txt[len("isinstance("):].split(",")[0]
                if tok is not None:
                    pos = kwarg(c, "position") or (c.args[1] if len(c.args) > 1 else None)
                    ok = pos is not None and U(pos) == f"{tok}.position"
                    chk.ob(rid, f"{ci.qual}.{mn}", ok, f"names the position of the offending parameter ({tok}.position)" if ok else
                           "offending action parameter's position is dropped", c, cm, key=f"position:{U(c.args[0])[:40] if c.args else ''}")
    chk.floor(rid, n2, 15, "ArgumentParserException sites")
    pa = repo.func(CMD, "CommandExecutable.parse_argv")
    rer = [c for c in calls_in(pa) if call_name(c) == "ArgumentParserException" and "e.original_message" in U(c)]
    ok = len(rer) == 1 and U(kwarg(rer[0], "position")) == "e.position" and U(kwarg(rer[0], "query")) == "query"
    chk.ob(rid, f"{CMD}.CommandExecutable.parse_argv", ok, "re-raises with the inner exception's position", pa, cm, key="reraise-position")
    tm = [c for c in calls_in(pa) if call_name(c) == "ArgumentParserException" and "Too many arguments" in U(c)]
    chk.ob(rid, f"{CMD}.CommandExecutable.parse_argv", len(tm) >= 1 and all(kwarg(t_, "position") is not None for t_ in tm), "too many arguments is reported with the first surplus token's position", pa, cm, key="too-many")
    miss = [c for c in calls_in(pa) if call_name(c) == "ArgumentParserException" and "no default" in U(c)]
    chk.ob(rid, f"{CMD}.CommandExecutable.parse_argv", len(miss) == 1, "a missing argument without default raises", pa, cm, key="missing")


def rule_positions_from_parser(chk, rid):
    repo = chk.repo
    chk.rule(rid, "positions originate from the parser: every parse action constructing ActionRequest / StringActionParameter / "
                  "LinkActionParameter / ResourceName passes position=Position.from_loc(loc, s)")
    m = repo.module(PARSER)
    n = 0
    for fname, fn in m.functions.items():
        if not fname.endswith("_parse_action") and not fname.endswith("_action"):
            continue
        for c in calls_in(fn):
            if isinstance(c.func, ast.Name) and c.func.id in ("ActionRequest", "StringActionParameter", "LinkActionParameter", "ResourceName"):
                n += 1
                pos = kwarg(c, "position")
                ok = False
                if pos is not None:
                    src = pos
                    if isinstance(pos, ast.Name):
                        for s in body_walk(fn):
                            if isinstance(s, ast.Assign) and U(s.targets[0]) == pos.id:
                                src = s.value
                    flp = [a.arg for a in repo.func(PARSER, "Position.from_loc").args.args if a.arg not in ("cls", "self")]
                    from ..core import arg_or_kw
                    ok = isinstance(src, ast.Call) and call_name(src) == "Position.from_loc" and len(flp) >= 2 \
                        and U(arg_or_kw(src, 0, flp[0])) == params(fn)[1] and U(arg_or_kw(src, 1, flp[1])) == params(fn)[0]
                chk.ob(rid, f"{PARSER}.{fname}", ok, f"{c.func.id} gets position=Position.from_loc(loc, s)", c, m, key=f"pos:{c.func.id}")
    chk.floor(rid, n, 4, "node constructions in parse actions")
    fl = repo.func(PARSER, "Position.from_loc")
    ok = any(isinstance(r.value, ast.Call) and r.value.args and U(r.value.args[0]) == params(fl)[1] for r in returns_of(fl))
    chk.ob(rid, f"{PARSER}.Position.from_loc", ok, "offset = loc", fl, m, key="from_loc")


def rule_link_failures(chk, rid):
    repo = chk.repo
    chk.rule(rid, "link failures surface: in both branches of evaluate_parameter the sub-evaluation's is_error is tested before "
                  "value.get() is used and the error branch raises EvaluationException")
    m = repo.module(CTX)
    fn = repo.func(CTX, "Context.evaluate_parameter")
    cfg = CFG(fn)
    gets = [c for c in calls_in(fn, tail="get") if call_recv(c) == "value"]
    chk.floor(rid, len(gets), 1, "value.get() uses")
    from ..lib import literals_of_test
    # edges on which `value.is_error` is known to be False / True
    ok_edges = [(t.id, lab) for t in cfg.nodes if t.kind == "test" for lab in ("T", "F")
                if any(x[1] == "value.is_error" and x[2] is False for x in literals_of_test(t.ast, lab))]
    err_edges = [(t.id, lab) for t in cfg.nodes if t.kind == "test" for lab in ("T", "F")
                 if any(x[1] == "value.is_error" and x[2] is True for x in literals_of_test(t.ast, lab))]
    evals = [cfg.node_of(c) for c in calls_in(fn) if call_recv(c) == "self" and call_tail(c) in ("evaluate", "apply")]
    chk.floor(rid, len(evals), 2, "link evaluations")
    for g in gets:
        gn = cfg.node_of(g)
        # from every sub-evaluation that can reach this use, each path passes an edge that established `not value.is_error`
        srcs = [e for e in evals if cfg.can_reach(e, gn)]
        ok = bool(srcs) and all(gn not in cfg.reachable(e, avoid_edges=ok_edges) or e == gn for e in srcs)
        # ... and every error edge ends in raise EvaluationException
        for tid, lab in err_edges:
            succ = [mm for mm, l2 in cfg.succ[tid] if l2 == lab]
            if succ and cfg.can_reach(tid, gn) or True:
                r = cfg.reachable(succ[0]) if succ else set()
                if succ and not (cfg.exit not in r and any(cfg.nodes[x].kind == "raise" and "EvaluationException" in U(cfg.nodes[x].ast) for x in r)):
                    ok = False
        ok = ok and bool(err_edges)
        chk.ob(rid, f"{CTX}.Context.evaluate_parameter", ok, "value.get() is reached only for a successful sub-evaluation; the error "
               "branch raises EvaluationException" if ok else "a failed link evaluation can flow into value.get()/the command", g, m, key="link-guard")


def rule_state_get(chk, rid):
    repo = chk.repo
    chk.rule(rid, "State.get raises on error: every path under is_error ends in raise; position and query are taken from the last "
                  "error log entry")
    m = repo.module(STATE)
    fn = repo.func(STATE, "State.get")
    cfg = CFG(fn)
    # every normal exit (return / falling off the end) lies on the `self.is_error is False` side of a test
    exits_ = [r for r in cfg.returns() if cfg.is_reachable(r)] + [n.id for n in cfg.nodes if n.kind == "falloff" and cfg.is_reachable(n.id)]
    ok = bool(exits_) and all(any(txt_ == "self.is_error" and pol is False for _, txt_, pol, _ in dominating_literals(cfg, r)) for r in exits_)
    chk.ob(rid, f"{STATE}.State.get", ok, "an error state never returns data", fn, m, key="raises")
    txt = U(fn)
    from ..lib import find_pattern
    k = find_pattern(fn, "_E.get('kind') == 'error'")
    ok = bool(k) and bool(find_pattern(fn, "_Pos = Position.from_dict(_E.get('position'))")) and bool(find_pattern(fn, "_Q = _E.get('query')"))
    if ok:
        e = k[0][1]["_E"]
        ok = any(b["_E"] == e for _, b in find_pattern(fn, "_Pos = Position.from_dict(_E.get('position'))")) and any(b["_E"] == e for _, b in find_pattern(fn, "_Q = _E.get('query')"))
    chk.ob(rid, f"{STATE}.State.get", ok, "position/query come from the error entries of the log (last one wins)", fn, m, key="entry")
    ok = "raise self.exception" in txt and "EvaluationException(" in txt
    chk.ob(rid, f"{STATE}.State.get", ok, "re-raises the recorded exception or an EvaluationException", fn, m, key="reraise")


def rule_unknown_command(chk, rid):
    ea = F.EvalAction(chk.repo)
    chk.rule(rid, "an unknown command is an error: the `command is None` branch calls self.error with the action's position")
    cfg = ea.cfg
    errs = [c for c in calls_in(ea.fn) if call_name(c) == "self.error" and "Unknown action" in U(c)]
    ok = False
    for c in errs:
        lits = dominating_literals(cfg, cfg.node_of(c))
        if any(txt == f"{ea.cmdvar} is None" and pol for _, txt, pol, _ in lits) and U(kwarg(c, "position")) == "action.position":
            ok = True
    chk.ob(rid, ea.C, ok, "unknown command -> self.error(..., position=action.position, query=self.raw_query)", ea.fn, ea.mod, key="unknown")
    # the command call is on the other edge
    lits = dominating_literals(cfg, cfg.node_of(ea.cmd_call))
    chk.ob(rid, ea.C, any(txt == f"{ea.cmdvar} is None" and pol is False for _, txt, pol, _ in lits), "the command is called only when it was resolved", ea.cmd_call, ea.mod, key="resolved")


def rule_resource_failures(chk, rid):
    repo = chk.repo
    chk.rule(rid, "resource failures mark the *state*: every method called on the state in evaluate_resource exists on State, and every "
                  "except handler that lets the function return marks the state as error (log_error / log_exception / is_error = True)")
    m = repo.module(CTX)
    fn = repo.func(CTX, "Context.evaluate_resource")
    st = repo.cls(STATE, "State")
    names = set()
    for c in st.mro():
        names |= set(c.methods)
    n = 0
    for c in calls_in(fn):
        if call_recv(c) == "state":
            n += 1
            ok = call_tail(c) in names
            chk.ob(rid, f"{CTX}.Context.evaluate_resource", ok, f"state.{call_tail(c)}() exists" if ok else
                   f"state.{call_tail(c)}() is not a method of State: the AttributeError is swallowed by the bare except and the state "
                   "stays normal-looking", c, m, key=f"method:{call_tail(c)}")
    chk.floor(rid, n, 4, "calls on the state")
    hs = [h for t in body_walk(fn) if isinstance(t, ast.Try) for h in t.handlers]
    chk.floor(rid, len(hs), 2, "except handlers")
    for i, h in enumerate(hs):
        reraises = any(isinstance(s, ast.Raise) for s in h.body)
        marks = any((isinstance(x, ast.Call) and call_recv(x) == "state" and call_tail(x) in ("log_error", "log_exception")) or
                    (isinstance(x, ast.Assign) and U(x.targets[0]) == "state.is_error" and U(x.value) == "True")
                    for s in h.body for x in ast.walk(s))
        chk.ob(rid, f"{CTX}.Context.evaluate_resource", reraises or marks, "the handler marks the returned state as error" if (reraises or marks) else
               "the handler logs on the context only: the function returns a state with is_error False and data None", h, m, key=f"handler:{i}")
    # failure reports carry position and query
    for c in calls_in(fn):
        if call_recv(c) == "state" and call_tail(c) in ("log_error", "log_exception"):
            ok = kwarg(c, "position") is not None and kwarg(c, "query") is not None
            chk.ob(rid, f"{CTX}.Context.evaluate_resource", ok, "failure names position and query", c, m, key=f"posq:{U(c.args[0])[:30] if c.args else ''}")


def run(chk):
    rule_short_circuit(chk, "C06.1")
    rule_exception_capture(chk, "C06.2")
    rule_position_and_query(chk, "C06.3")
    rule_positions_from_parser(chk, "C06.4")
    rule_link_failures(chk, "C06.5")
    rule_state_get(chk, "C06.6")
    rule_unknown_command(chk, "C06.7")
    rule_resource_failures(chk, "C06.8")
    F.rule_backend_refuses_errors(chk, chk.repo, "C06.9")
    X.rule_sequence_remainder(chk, "C06.10")
    X.rule_error_kind_agreement(chk, "C06.11")
    X.rule_initial_state_plain(chk, "C06.12")
    from .c01 import rule_default_filling
    rule_default_filling(chk, "C06.13")
