"""C05 - cache admission."""
from . import cachefam as F

from . import extra as X

EXPLANATION = ("Structural necessary conditions of cache admission, decided on the CFG of Context.evaluate / "
               "evaluate_action and on every leaf cache back-end: admission guard, volatility propagation, "
               "caching-flag conjunction, read-bypass => write-bypass, error refusal + ready gate per back-end, "
               "canonical filing key, data-presence witness. NOT decided: that the served value equals a fresh evaluation.")


def run(chk):
    ev = F.Evaluate(chk.repo)
    ea = F.EvalAction(chk.repo)
    F.rule_admission_guard(chk, ev, "C05.1")
    F.rule_volatility(chk, ea, "C05.2")
    F.rule_caching_anded(chk, ea, "C05.3")
    F.rule_read_bypass_implies_write_bypass(chk, ev, ea, "C05.4")
    F.rule_backend_refuses_errors(chk, chk.repo, "C05.5")
    F.rule_filed_under_canonical_text(chk, ev, chk.repo, "C05.6")
    F.rule_data_presence_witness(chk, chk.repo, "C05.7")
    F.rule_memory_copy(chk, chk.repo, "C05.8")
    X.rule_metadata_keyed_by_own_query(chk, "C05.9")
    X.rule_memory_per_key_locality(chk, "C05.10")
    X.rule_state_clone_deep(chk, "C05.11")
    from .c10 import rule_type_copy
    rule_type_copy(chk, "C05.12")
    from .c06 import rule_exception_capture
    rule_exception_capture(chk, "C05.13")
