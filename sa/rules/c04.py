"""C04 - cache transparency (only clauses whose violation lets a hit differ from a miss)."""
from . import cachefam as F

from . import extra as X

EXPLANATION = ("Necessary conditions of transparency decided on Context.evaluate and the memory back-end: a bypassed "
               "read implies a bypassed write (no polluted entry), the filing key denotes the evaluated query (canonical or as-typed text of it), the "
               "bypass decision covers the whole evaluation tree, and the in-memory cache is copy-in/copy-out (the "
               "evaluator labels states in place). NOT decided: equality of outcomes over cache kinds x histories.")


def run(chk):
    ev = F.Evaluate(chk.repo)
    ea = F.EvalAction(chk.repo)
    F.rule_read_bypass_implies_write_bypass(chk, ev, ea, "C04.1")
    F.rule_filed_under_canonical_text(chk, ev, chk.repo, "C04.2", accept_raw=True)
    F.rule_recursion_passes_cache(chk, ev, "C04.3")
    F.rule_memory_copy(chk, chk.repo, "C04.4")
    F.rule_backend_refuses_errors(chk, chk.repo, "C04.5")
    F.rule_data_presence_witness(chk, chk.repo, "C04.6")
    X.rule_codec_pairs(chk, "C04.7")
    X.rule_metadata_keyed_by_own_query(chk, "C04.8")
    X.rule_store_metadata_fresh(chk, "C04.9")
    X.rule_state_clone_deep(chk, "C04.10")
    from .c10 import rule_type_copy
    rule_type_copy(chk, "C04.11")
    F.rule_admission_guard(chk, ev, "C04.12")
    F.rule_volatility(chk, ea, "C04.13")
