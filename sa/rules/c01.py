"""C01 - pipeline semantics: a query means left-to-right function composition (skeleton clauses)."""
import ast
from ..core import (AnalysisError, U, calls_in, call_tail, call_recv, call_name, body_walk, kwarg, const_str)
from ..cfg import CFG, assigned_value
from ..lib import (params, returns_of, is_none_const, dominating_literals, has_pattern, find_pattern)
from . import cachefam as F
from . import c10

from . import extra as X

EXPLANATION = ("Necessary conditions of the composition law, decided on every path of the named functions: recursion on "
               "(predecessor, last step) with the right operands; input value / extra parameters forwarded to the right places; "
               "order-preserving argument expansion and the call shape command(input, *parameters, context=self, **extras); variables "
               "threaded left to right; absolute vs relative link routing; executable wrappers; the parser-selection table agreeing "
               "with the converters and the sibling isinstance ladders; namespace resolution order; default filling; the initial "
               "state carrying the injected value unless it is None. NOT decided: equality of value / variables / last command with a "
               "reference interpretation for every query.")
CTX = "liquer.context"
CMD = "liquer.commands"


def rule_recursion_skeleton(chk, rid):
    ev = F.Evaluate(chk.repo)
    chk.rule(rid, "recursion skeleton: p, r come from predecessor() of the query being evaluated; the state reaching evaluate_action is "
                  "the initial state (empty predecessor) or the recursive evaluation of p on a child context; r (not p, not the whole "
                  "query) is the action applied")
    cfg, C = ev.cfg, f"{CTX}.Context.evaluate"
    pa = ev.pred_assign
    chk.ob(rid, C, call_recv(pa.value) == ev.queryvar, f"(p, r) = {U(pa.value)}", pa, ev.mod, key="predecessor-of-query")
    act = ev.one(ev.action_calls, "evaluate_action call")
    chk.ob(rid, C, len(act.args) >= 2 and U(act.args[0]) == "state" and U(act.args[1]) == ev.rvar,
           f"evaluate_action(state, {ev.rvar}, ...) applies the last step", act, ev.mod, key="action-operand")
    ds = cfg.reaching_defs("state", ev.node(act))
    vals = sorted(U(assigned_value(cfg, d, "state"))[:60] for d in ds if d != cfg.entry)
    ok = cfg.entry not in ds and len(vals) == 2 and any("create_initial_state" in v for v in vals) and any(f".evaluate({ev.pvar}" in v for v in vals)
    chk.ob(rid, C, ok, f"state handed to the action comes from {vals}", act, ev.mod, key="state-sources")
    rec = ev.one(ev.rec_calls, "recursive predecessor evaluation")
    chk.ob(rid, C, U(rec.args[0]) == ev.pvar, "the predecessor (not the whole query) is evaluated recursively", rec, ev.mod, key="rec-operand")
    recv = call_recv(rec)
    rds = cfg.reaching_defs(recv, ev.node(rec)) if recv and recv.isidentifier() else []
    ok = bool(rds) and all(d != cfg.entry and U(assigned_value(cfg, d, recv)) == "self.child_context()" for d in rds)
    chk.ob(rid, C, ok, "the recursion runs on a child context", rec, ev.mod, key="child-context")
    # branch selection: empty predecessor -> initial state
    init = ev.one(ev.init_calls, "create_initial_state call")
    lits_i = dominating_literals(cfg, ev.node(init))
    lits_r = dominating_literals(cfg, ev.node(rec))
    def emptiness(lits, pol):
        return any(tn for _, txt, p_, tn in lits if p_ is pol and (f"{ev.pvar} is None" in txt or f"{ev.pvar}.is_empty()" in txt))
    t_i = {tn for _, txt, p_, tn in lits_i if ev.pvar in txt}
    t_r = {tn for _, txt, p_, tn in lits_r if ev.pvar in txt}
    ok = False
    for tn in t_i | t_r:
        if cfg.edge_dominates(tn, "T", ev.node(init)) and cfg.edge_dominates(tn, "F", ev.node(rec)):
            t = U(cfg.nodes[tn].ast)
            ok = f"{ev.pvar} is None" in t and f"{ev.pvar}.is_empty()" in t
    chk.ob(rid, C, ok, "initial state iff the predecessor is None or empty; recursion otherwise", init, ev.mod, key="branch")


def rule_parameter_forwarding(chk, rid):
    ev = F.Evaluate(chk.repo)
    chk.rule(rid, "parameter forwarding: input_value reaches the initial-state constructor and (with input_value_specified) the "
                  "recursive call and the sub-query delegation; extra_parameters reaches evaluate_action of the last action only and "
                  "never the recursion")
    C = f"{CTX}.Context.evaluate"
    init = ev.one(ev.init_calls, "create_initial_state call")
    chk.ob(rid, C, U(kwarg(init, "input_value") or (init.args[0] if init.args else None)) == "input_value", "initial state is built from input_value", init, ev.mod, key="init-input")
    rec = ev.one(ev.rec_calls, "recursive predecessor evaluation")
    for k in ("input_value", "input_value_specified"):
        chk.ob(rid, C, U(kwarg(rec, k)) == k, f"recursion forwards {k}", rec, ev.mod, key=f"rec-{k}")
    chk.ob(rid, C, kwarg(rec, "extra_parameters") is None and len(rec.args) == 1, "recursion does not receive extra_parameters (only the last action gets them)", rec, ev.mod, key="rec-no-extra")
    act = ev.one(ev.action_calls, "evaluate_action call")
    chk.ob(rid, C, U(kwarg(act, "extra_parameters")) == "extra_parameters", "the last action receives extra_parameters", act, ev.mod, key="action-extra")
    for sc in ev.sub_calls:
        for k in ("input_value", "input_value_specified", "store_key", "store_to"):
            chk.ob(rid, C, U(kwarg(sc, k)) == k, f"sub-query delegation forwards {k}", sc, ev.mod, key=f"sub-{k}", nontrivial=False)
    ci = repo_func = chk.repo.func(CTX, "Context.create_initial_state")
    cfg = CFG(ci)
    rets = returns_of(ci)
    with_data = [c for c in calls_in(ci, tail="with_data")]
    ok = len(with_data) == 1 and U(with_data[0].args[0]) == "input_value"
    if ok:
        lits = dominating_literals(cfg, cfg.node_of(with_data[0]))
        ok = any(txt == "input_value is None" and pol is False for _, txt, pol, _ in lits)
    chk.ob(rid, f"{CTX}.Context.create_initial_state", ok, "the injected value is attached whenever it is not None (identity test, not truthiness)" if ok else
           "the injected value is attached under a different test than `is not None` (falsy inputs such as 0, '', [] are dropped)", ci, ev.mod, key="init-identity-test")


def rule_action_shape(chk, rid):
    ea = F.EvalAction(chk.repo)
    chk.rule(rid, "action evaluation shape: the callable comes from resolve_command(state, action.name); parameters is an order-"
                  "preserving image of action.parameters through evaluate_parameter; list extras are appended after the textual ones, "
                  "dict extras go to **kwargs; the call is command(<input state>, *parameters, context=self, **extras)")
    fn, cfg, C = ea.fn, ea.cfg, ea.C
    rc = [c for c in calls_in(fn, tail="resolve_command")]
    ok = len(rc) == 1 and len(rc[0].args) == 2 and U(rc[0].args[1]) == "action.name"
    chk.ob(rid, C, ok, "command = registry.resolve_command(state, action.name)", rc[0] if rc else fn, ea.mod, key="resolve")
    call = ea.cmd_call
    star = [a for a in call.args if isinstance(a, ast.Starred)]
    kws = [k for k in call.keywords if k.arg is None]
    ok = len(call.args) == 2 and len(star) == 1 and U(star[0].value) == "parameters" and len(kws) == 1
    chk.ob(rid, C, ok, f"`{U(call)[:70]}`", call, ea.mod, key="call-shape")
    # parameters built in order
    loops = [f for f in body_walk(fn) if isinstance(f, ast.For) and U(f.iter) == "action.parameters"]
    comps = [s for s in body_walk(fn) if isinstance(s, ast.Assign) and U(s.targets[0]) == "parameters" and isinstance(s.value, (ast.ListComp,))
             and U(s.value.generators[0].iter) == "action.parameters"]
    ok = False
    if len(loops) == 1:
        f = loops[0]
        v = U(f.target)
        ok = len(f.body) == 1 and U(f.body[0]) == f"parameters.append(self.evaluate_parameter({v}, action))"
    elif len(comps) == 1:
        c = comps[0].value
        ok = U(c.elt) == f"self.evaluate_parameter({U(c.generators[0].target)}, action)" and not c.generators[0].ifs
    chk.ob(rid, C, ok, "parameters = [evaluate_parameter(p, action) for p in action.parameters] in order", loops[0] if loops else fn, ea.mod, key="order-preserving")
    bad = [c for c in calls_in(fn) if call_recv(c) == "parameters" and call_tail(c) in ("insert", "reverse", "sort")]
    chk.ob(rid, C, not bad, "no reordering of the parameter list", bad[0] if bad else fn, ea.mod, key="no-reorder")
    ext = [c for c in calls_in(fn, tail="extend") if call_recv(c) == "parameters"]
    ok = len(ext) == 1 and U(ext[0].args[0]) == ea.extravar
    if ok and loops:
        ok = cfg.can_reach(cfg.node_of(loops[0]), cfg.node_of(ext[0])) and not cfg.can_reach(cfg.node_of(ext[0]), cfg.node_of(loops[0]))
        lits = dominating_literals(cfg, cfg.node_of(ext[0]))
        ok = ok and any("list" in txt and ea.extravar in txt and pol for _, txt, pol, _ in lits)
    chk.ob(rid, C, ok, "list-type extra parameters are appended after the textual ones", ext[0] if ext else fn, ea.mod, key="list-extras")
    dk = U(kws[0].value) if kws else None
    das = [s for s in body_walk(fn) if isinstance(s, ast.Assign) and dk and U(s.targets[0]) == dk]
    ok = dk is not None and any(U(s.value) == "{}" for s in das) and any(U(s.value) == ea.extravar for s in das)
    chk.ob(rid, C, ok, "dict-type extra parameters become keyword arguments", call, ea.mod, key="dict-extras")


def rule_link_routing(chk, rid):
    repo = chk.repo
    chk.rule(rid, "link routing: an absolute link is evaluated stand-alone, a relative link through apply() which evaluates "
                  "parse(parent_query) + link; parent_query is set from p.encode() (or '') before evaluate_action; the expanded value "
                  "is wrapped as ExpandedActionParameter(value.get(), link, position)")
    m = repo.module(CTX)
    fn = repo.func(CTX, "Context.evaluate_parameter")
    cfg = CFG(fn)
    pp = params(fn)[1]
    C = f"{CTX}.Context.evaluate_parameter"
    evs = [c for c in calls_in(fn) if call_recv(c) == "self" and call_tail(c) in ("evaluate", "apply")]
    chk.floor(rid, len(evs), 2, "link evaluations")
    for c in evs:
        lits = dominating_literals(cfg, cfg.node_of(c))
        absol = [pol for _, txt, pol, _ in lits if txt == f"{pp}.link.absolute"]
        if not absol:
            chk.ob(rid, C, False, "link evaluation is not selected by link.absolute", c, m, key=f"route:{call_tail(c)}")
            continue
        want = "evaluate" if absol[0] else "apply"
        ok = call_tail(c) in ((want,) if want == "evaluate" else ("apply",)) or (want == "evaluate" and call_tail(c) == "apply")
        chk.ob(rid, C, ok and U(c.args[0]) == f"{pp}.link", f"{'absolute' if absol[0] else 'relative'} link -> self.{call_tail(c)}({pp}.link)" if ok else
               f"{'absolute' if absol[0] else 'relative'} link is routed to self.{call_tail(c)}() (must be {want})", c, m, key=f"route:{'abs' if absol[0] else 'rel'}")
    wraps = [c for c in calls_in(fn) if call_tail(c) == "ExpandedActionParameter"]
    chk.floor(rid, len(wraps), 1, "ExpandedActionParameter constructions")
    for w in wraps:
        ok = len(w.args) == 3 and U(w.args[0]) == "value.get()" and U(w.args[1]) == f"{pp}.link" and U(w.args[2]) == f"{pp}.position"
        chk.ob(rid, C, ok, "expanded parameter carries the link's value, the link and the position", w, m, key="wrap")
    ap = repo.func(CTX, "Context.apply")
    acfg = CFG(ap)
    qp = params(ap)[1]
    rets = returns_of(ap)
    kinds = {}
    for r in rets:
        lits = dominating_literals(acfg, acfg.node_of(r))
        v = U(r.value)
        if any("self.parent_query in" in txt and pol for _, txt, pol, _ in lits):
            kinds["no-parent"] = v
        elif any(txt == f"{qp}.absolute" and pol for _, txt, pol, _ in lits):
            kinds["absolute"] = v
        else:
            kinds["relative"] = v
    chk.ob(rid, f"{CTX}.Context.apply", kinds.get("no-parent", "").startswith(f"self.evaluate({qp}") and kinds.get("absolute", "").startswith(f"self.evaluate({qp}"),
           "without a parent query, or for an absolute query, the query is evaluated alone", ap, m, key="apply-alone")
    conc = [s for s in body_walk(ap) if isinstance(s, ast.Assign) and "parse(self.parent_query) + " in U(s.value)]
    ok = len(conc) == 1 and kinds.get("relative", "").startswith(f"self.evaluate({U(conc[0].targets[0])}")
    chk.ob(rid, f"{CTX}.Context.apply", ok, "relative: evaluate((parse(self.parent_query) + transform_query).encode())", ap, m, key="apply-relative")
    ev = F.Evaluate(repo)
    act = ev.one(ev.action_calls, "evaluate_action call")
    ds = ev.cfg.reaching_defs("self.parent_query", ev.node(act))
    vals = sorted(U(assigned_value(ev.cfg, d, "self.parent_query")) for d in ds if d != ev.cfg.entry)
    ok = ev.cfg.entry not in ds and vals == sorted(["''", f"{ev.pvar}.encode()"])
    chk.ob(rid, f"{CTX}.Context.evaluate", ok, f"parent_query reaching the action is {vals}", act, ev.mod, key="parent-before-action")


def rule_executables(chk, rid):
    repo = chk.repo
    chk.rule(rid, "executable wrappers: first-commands call f(*argv) with no state; others call f(state_or_data, *argv) where the first "
                  "argument is the state iff pass_state else state.get(); non-State results are wrapped by state.with_data(result)")
    m = repo.module(CMD)
    ce = repo.func(CMD, "CommandExecutable.__call__")
    from ..lib import conditional_values
    from ..cfg import CFG as _CFG
    ccfg = _CFG(ce)
    fcalls = [c for c in calls_in(ce) if call_name(c) == "self.f"]
    ok = len(fcalls) == 1 and len(fcalls[0].args) == 2 and isinstance(fcalls[0].args[1], ast.Starred) and U(fcalls[0].args[1].value) == "argv"
    if ok:
        alts = conditional_values(ccfg, fcalls[0].args[0], ccfg.node_of(fcalls[0]))
        PS = "self.metadata.state_argument['pass_state']"
        got = {(U(v), (PS, True) in {(t.replace('"', "'"), p) for t, p in f}, (PS, False) in {(t.replace('"', "'"), p) for t, p in f}) for v, f in alts}
        ok = got == {("state", True, False), ("state.get()", False, True)}
    chk.ob(rid, f"{CMD}.CommandExecutable.__call__", ok, "f(state if pass_state else state.get(), *argv)", ce, m, key="command-call")
    fe = repo.func(CMD, "FirstCommandExecutable.__call__")
    chk.ob(rid, f"{CMD}.FirstCommandExecutable.__call__", "self.f(*argv)" in U(fe), "first command: f(*argv)", fe, m, key="first-call")
    for q, fn in (("CommandExecutable", ce), ("FirstCommandExecutable", fe)):
        t = U(fn)
        ok = "isinstance(result, State)" in t and "return state.with_data(result)" in t and "return result" in t
        chk.ob(rid, f"{CMD}.{q}.__call__", ok, "State results pass through, other results are wrapped by state.with_data(result)", fn, m, key="wrap")
        pa = [c for c in calls_in(fn, tail="parse_argv")]
        ok = len(pa) == 1 and U(pa[0].args[0]) == "args" and U(kwarg(pa[0], "kwargs")) == "kwargs" and U(kwarg(pa[0], "context")) == "context"
        chk.ob(rid, f"{CMD}.{q}.__call__", ok, "arguments are parsed with parse_argv(args, kwargs=kwargs, context=context)", fn, m, key="parse_argv")
    rcm = repo.func(CMD, "CommandRegistry.register_command")
    t = U(rcm)
    ok = "metadata.state_argument is None" in t and "FirstCommandExecutable(f, metadata, parser)" in t and "CommandExecutable(f, metadata, parser)" in t
    chk.ob(rid, f"{CMD}.CommandRegistry.register_command", ok, "first-commands (no state argument) get FirstCommandExecutable", rcm, m, key="select")


def ladder(fn):
    """rungs of the isinstance ladder on args[0] in a parse_meta method: [(type name, body)]; the last rung is "<else>".
    An `else:` may be spelled out or implied by a rung that ends in raise/return followed by the remaining statements of its block."""
    out = []

    def walk(stmts):
        for i, s in enumerate(stmts):
            if isinstance(s, ast.If):
                t = U(s.test)
                if t.startswith("isinstance(args[0], "):
                    out.append((t[len("isinstance(args[0], "):-1], s.body))
                    if s.orelse:
                        if isinstance(s.orelse[0], ast.If) and U(s.orelse[0].test).startswith("isinstance(args[0], "):
                            walk(s.orelse)
                        else:
                            out.append(("<else>", s.orelse))
                    elif s.body and isinstance(s.body[-1], (ast.Raise, ast.Return)) and stmts[i + 1:]:
                        out.append(("<else>", stmts[i + 1:]))
                    return
                walk(s.body)
    walk(fn.body)
    return out


def rule_parser_table(chk, rid):
    repo = chk.repo
    chk.rule(rid, "parser-selection table agrees with the converters: keys int/float/bool/str/list/context map to the singleton whose "
                  "class converts with the same builtin on every rung; the typed parsers are siblings with the same isinstance ladder "
                  "(str / StringActionParameter / ExpandedActionParameter / other ActionParameter -> raise / other); a variadic argument "
                  "selects ARGV_AP and ends the sequence; the context parser consumes no token; the declared type comes from the "
                  "annotation and only falls back to the default's type when there is no annotation")
    m = repo.module(CMD)
    fn = repo.func(CMD, "argument_parser_from_command_metadata")
    table = None
    for d in ast.walk(fn):
        if isinstance(d, ast.Call) and call_name(d) == "dict" and {k.arg for k in d.keywords} >= {"int", "float", "bool"}:
            table = {k.arg: U(k.value) for k in d.keywords}
    if table is None:
        # the table may live in a module-level constant named by the function
        for nm in ast.walk(fn):
            if isinstance(nm, ast.Name) and len(m.assigns.get(nm.id, [])) == 1:
                d = m.assigns[nm.id][0]
                if isinstance(d, ast.Call) and call_name(d) == "dict" and {k.arg for k in d.keywords} >= {"int", "float", "bool"}:
                    table = {k.arg: U(k.value) for k in d.keywords}
    if table is None:
        raise AnalysisError("argument_parser_from_command_metadata: selection table not found")
    singles = {n: U(v[0]) for n, v in m.assigns.items() if n.endswith("_AP") and len(v) == 1}
    WANT = {"int": ("IntArgumentParser", "int"), "float": ("FloatArgumentParser", "float"), "bool": ("BooleanArgumentParser", "to_bool"),
            "str": ("ArgumentParser", None), "list": ("ListArgumentParser", None), "context": ("ContextArgumentParser", None)}
    for k, (cls, conv) in WANT.items():
        sing = table.get(k)
        ok = sing is not None and singles.get(sing) == f"{cls}()"
        chk.ob(rid, f"{CMD}.argument_parser_from_command_metadata", ok, f"type `{k}` selects {sing} = {singles.get(sing)}" + ("" if ok else f" (must be an instance of {cls})"),
               fn, m, key=f"table:{k}")
    t = U(fn)
    ok = "arg.get('multiple', False)" in t and "ap += ARGV_AP" in t
    lp = [f for f in body_walk(fn) if isinstance(f, ast.For)]
    ok = ok and any(isinstance(s, ast.If) and "multiple" in U(s.test) and any(isinstance(x, ast.Break) for x in s.body) for f in lp for s in f.body)
    chk.ob(rid, f"{CMD}.argument_parser_from_command_metadata", ok, "a variadic argument selects ARGV_AP and terminates the sequence", fn, m, key="variadic")
    # converters per rung
    for cls, conv in (("IntArgumentParser", "int"), ("FloatArgumentParser", "float"), ("BooleanArgumentParser", "to_bool")):
        ci = repo.cls(CMD, cls)
        pm = ci.methods.get("parse_meta")
        lad = ladder(pm)
        names = [r[0] for r in lad]
        want = ["str", "StringActionParameter", "ExpandedActionParameter", "ActionParameter", "<else>"]
        chk.ob(rid, f"{ci.qual}.parse_meta", names == want, f"ladder rungs {names}" + ("" if names == want else f" (siblings have {want}: a dropped rung sends that token kind to the wrong branch)"),
               pm, m, key="ladder")
        srcmap = {"str": "args[0]", "StringActionParameter": "args[0].string", "ExpandedActionParameter": "args[0].value", "<else>": "args[0]"}
        for name, body in lad:
            if name == "ActionParameter":
                ok = any(isinstance(s, ast.Raise) for s in body)
                chk.ob(rid, f"{ci.qual}.parse_meta", ok, "an unexpanded action parameter raises", body[0] if body else pm, m, key="rung:ActionParameter")
                continue
            assigns = [s for st in body for s in ast.walk(st) if isinstance(s, ast.Assign) and U(s.targets[0]) == "value"]
            ok = bool(assigns)
            for a in assigns:
                v = a.value
                if conv == "to_bool" and isinstance(v, ast.Call) and call_name(v) != "to_bool":
                    # inline truth table spelled out: must look up str(x).lower() in the same table
                    ok = ok and ".get(str(" + srcmap.get(name, "") + ").lower(), False)" in U(v)
                else:
                    ok = ok and isinstance(v, ast.Call) and call_name(v) == conv and len(v.args) == 1 and U(v.args[0]) == srcmap.get(name)
            chk.ob(rid, f"{ci.qual}.parse_meta", ok, f"rung {name}: value = {conv}({srcmap.get(name)})" if ok else
                   f"rung {name} converts with `{U(assigns[0].value)[:40] if assigns else None}` (must be {conv}({srcmap.get(name)}))", body[0] if body else pm, m, key=f"rung:{name}")
        rets = returns_of(pm)
        ok = bool(rets) and all(U(r.value) == "(value, (value, metadata), args[1:])" for r in rets)
        chk.ob(rid, f"{ci.qual}.parse_meta", ok, "consumes exactly one token", pm, m, key="consumes-one")
    # bool truth table identical in parse / parse_meta
    bp = repo.cls(CMD, "BooleanArgumentParser")
    tables = []
    for d in ast.walk(bp.node):
        if isinstance(d, ast.Call) and call_name(d) == "dict" and {k.arg for k in d.keywords} >= {"y", "n"}:
            tables.append(tuple(sorted((k.arg, U(k.value)) for k in d.keywords)))
    # a table shared through a module-level constant counts once per method that names it
    for nm in ast.walk(bp.node):
        if isinstance(nm, ast.Name) and len(m.assigns.get(nm.id, [])) == 1:
            d = m.assigns[nm.id][0]
            if isinstance(d, ast.Call) and call_name(d) == "dict" and {k.arg for k in d.keywords} >= {"y", "n"}:
                tables.append(tuple(sorted((k.arg, U(k.value)) for k in d.keywords)))
    chk.ob(rid, f"{bp.qual}", len(tables) >= 2 and len(set(tables)) == 1, f"{len(tables)} truth tables, all identical", bp.node, m, key="bool-table")
    cx = repo.cls(CMD, "ContextArgumentParser").methods.get("parse_meta")
    chk.ob(rid, f"{CMD}.ContextArgumentParser.parse_meta", all(U(r.value) == "(context, (context, metadata), args)" for r in returns_of(cx)), "the context parser consumes no token", cx, m, key="context")
    la = repo.cls(CMD, "ListArgumentParser").methods.get("parse_meta")
    t = U(la)
    ok = "value.append(x.string)" in t and "value.append(x.value)" in t and "value.append(x)" in t and all(U(r.value) == "(value, (value, metadata), [])" for r in returns_of(la))
    chk.ob(rid, f"{CMD}.ListArgumentParser.parse_meta", ok, "variadic tail collects every remaining token in order", la, m, key="list")
    chk.ob(rid, f"{CMD}.ArgvArgumentParser", U(repo.cls(CMD, "ArgvArgumentParser").class_assigns.get("is_argv")) == "True", "ARGV parser splices its list into the arguments", repo.cls(CMD, "ArgvArgumentParser").node, m, key="is_argv")
    sq = repo.cls(CMD, "SequenceArgumentParser").methods.get("parse_meta")
    t = U(sq)
    ext = find_pattern(sq, "_PA.extend(_P)")
    app = find_pattern(sq, "_PA.append(_P)")
    ok = has_pattern(sq, "zip(self.sequence, metadata)") and bool(ext) and any(b == ext[0][1] for _, b in app)
    chk.ob(rid, f"{CMD}.SequenceArgumentParser.parse_meta", ok, "sequence parser applies the parsers left to right, threading the remaining tokens", sq, m, key="sequence")
    # declared type: annotation first
    cm = repo.func(CMD, "command_metadata_from_callable")
    cfg = CFG(cm)
    fbm = find_pattern(cm, "_T = type(_P.default).__name__")
    fb = [n for n, _ in fbm]
    ok = len(fb) == 1
    if ok:
        tv = fbm[0][1]["_T"]
        lits = dominating_literals(cfg, cfg.node_of(fb[0]))
        ok = any(txt == f"{tv} is None" and pol for _, txt, pol, _ in lits)
    chk.ob(rid, f"{CMD}.command_metadata_from_callable", ok, "the default's type is used only when there is no annotation" if ok else
           "the default's type overrides the annotation (e.g. `factor: float = 1` becomes an int parameter)", fb[0] if fb else cm, m, key="annotation-first")
    an = [n for n, b in find_pattern(cm, "_T = _A.__name__") if fbm and b["_T"] == fbm[0][1]["_T"] and (b["_A"].isidentifier() or "annotations[" in b["_A"])]
    chk.ob(rid, f"{CMD}.command_metadata_from_callable", len(an) == 1, "the annotation's type name is the declared type", cm, m, key="annotation")
    t = U(cm)
    chk.ob(rid, f"{CMD}.command_metadata_from_callable", "arg['multiple'] = p.kind is inspect.Parameter.VAR_POSITIONAL" in t.replace('"', "'"), "*args parameters are marked variadic", cm, m, key="var-positional")
    chk.ob(rid, f"{CMD}.command_metadata_from_callable", "arg['default'] = p.default" in t.replace('"', "'"), "defaults are recorded", cm, m, key="defaults")


def rule_namespace_resolution(chk, rid):
    repo = chk.repo
    chk.rule(rid, "namespace resolution: resolve_command scans state.vars['active_namespaces'] in list order and stops at the first "
                  "namespace that has the command")
    m = repo.module(CMD)
    fn = repo.func(CMD, "CommandRegistry.resolve_command")
    loops = [f for f in body_walk(fn) if isinstance(f, ast.For)]
    ok = len(loops) == 1 and "active_namespaces" in U(loops[0].iter) and not U(loops[0].iter).startswith(("reversed(", "sorted("))
    chk.ob(rid, f"{CMD}.CommandRegistry.resolve_command", ok, f"iterates `{U(loops[0].iter) if loops else None}` in list order", fn, m, key="order")
    if loops:
        f = loops[0]
        v = U(f.target)
        stops = any(isinstance(s, ast.If) and f"command_name in self.executables[{v}]" in U(s.test) and any(isinstance(x, (ast.Break, ast.Return)) for x in s.body) for s in f.body)
        chk.ob(rid, f"{CMD}.CommandRegistry.resolve_command", stops, "first matching namespace wins (break / return)", f, m, key="first-match")
    chk.ob(rid, f"{CMD}.CommandRegistry.resolve_command", "['root']" in U(fn), "default namespace list is ['root']", fn, m, key="default-ns")
    rets = [U(r.value) for r in returns_of(fn)]
    chk.ob(rid, f"{CMD}.CommandRegistry.resolve_command", "(None, None, None)" in rets, "an unknown command resolves to (None, None, None)", fn, m, key="unknown")


def rule_default_filling(chk, rid):
    repo = chk.repo
    chk.rule(rid, "default filling: missing trailing arguments are taken from kwargs by name, else from the declared default, else "
                  "ArgumentParserException; variadic and context arguments are skipped; leftover tokens raise 'Too many arguments'")
    m = repo.module(CMD)
    fn = repo.func(CMD, "CommandExecutable.parse_argv")
    t = U(fn).replace('"', "'")
    C = f"{CMD}.CommandExecutable.parse_argv"
    cfg = CFG(fn)
    Q = lambda x: x.replace('"', "'")

    def lits_at(node_ast):
        return {(Q(t_), p_) for _, t_, p_, _ in dominating_literals(cfg, cfg.node_of(node_ast))}

    # the filling loop runs over the declared arguments beyond the supplied tokens
    loops = [f for f in body_walk(fn) if isinstance(f, ast.For) and "self.metadata.arguments" in U(f.iter)]
    tail_ok = False
    for f in loops:
        it = Q(U(f.iter)).replace(" ", "")
        tail_ok = tail_ok or "self.metadata.arguments[len(args):]" in it or "list(enumerate(self.metadata.arguments))[len(args):]" in it
    chk.ob(rid, C, tail_ok, "only the arguments beyond the supplied tokens are filled", loops[0] if loops else fn, m, key="tail-only")
    apps = [c for c in calls_in(fn, tail="append") if call_recv(c) == "args" and len(c.args) == 1]
    kw_apps = [c for c in apps if Q(U(c.args[0])) == "kwargs[a['name']]"]
    df_apps = [c for c in apps if Q(U(c.args[0])) == "a['default']"]
    ok = bool(kw_apps) and all(("a['name'] in kwargs", True) in lits_at(c) for c in kw_apps)
    chk.ob(rid, C, ok, "keyword extras fill by name first", kw_apps[0] if kw_apps else fn, m, key="kwargs-first")
    no_default = [r for r in body_walk(fn) if isinstance(r, ast.Raise) and "no default" in U(r)]
    skip_ok = bool(df_apps) and bool(no_default)
    for site in df_apps + no_default:
        L = lits_at(site)
        skip_ok = skip_ok and ("a.get('multiple', False)", False) in L and ("a['name'] == 'context'", False) in L and ("a['name'] in kwargs", False) in L
    chk.ob(rid, C, skip_ok, "variadic and context arguments are skipped", df_apps[0] if df_apps else fn, m, key="skip")
    ok = bool(df_apps) and all(("'default' in a", True) in lits_at(c) for c in df_apps) and bool(no_default) and \
        all(("'default' in a", False) in lits_at(r) for r in no_default)
    chk.ob(rid, C, ok, "declared defaults fill next", df_apps[0] if df_apps else fn, m, key="default")
    too_many = [r for r in body_walk(fn) if isinstance(r, ast.Raise) and "Too many arguments" in U(r)]
    ok = bool(no_default) and bool(too_many) and all(any(t_ in ("len(remainder) == 0",) and p_ is False or t_ in ("len(remainder)", "remainder") and p_ is True
                                                         for t_, p_ in lits_at(r)) for r in too_many)
    chk.ob(rid, C, ok, "missing without default / surplus tokens raise", too_many[0] if too_many else fn, m, key="raise")
    pm = [c for c in calls_in(fn, tail="parse_meta")]
    ok = len(pm) == 1 and U(pm[0].args[0]) == "self.metadata.arguments" and U(pm[0].args[1]) == "args"
    chk.ob(rid, C, ok, "the completed token list is converted by the command's argument parser", fn, m, key="convert")


def run(chk):
    rule_recursion_skeleton(chk, "C01.1")
    rule_parameter_forwarding(chk, "C01.2")
    rule_action_shape(chk, "C01.3")
    c10.rule_vars_thread(chk, "C01.4")
    rule_link_routing(chk, "C01.5")
    rule_executables(chk, "C01.6")
    rule_parser_table(chk, "C01.7")
    rule_namespace_resolution(chk, "C01.8")
    rule_default_filling(chk, "C01.9")
    X.rule_sequence_remainder(chk, "C01.10")
    from .c02 import rule_token_canonicalisation
    rule_token_canonicalisation(chk, "C01.11")
    X.rule_to_list_raw(chk, "C01.12")
    X.rule_predecessor_keeps_absolute(chk, "C01.13")
