"""C19 - relative resource paths resolve like POSIX normalisation (structural clauses)."""
import ast
from ..core import (AnalysisError, U, calls_in, call_tail, call_recv, call_name, body_walk, kwarg, flatten_boolop)
from ..cfg import CFG, assigned_value
from ..lib import (params, returns_of, is_none_const, dominating_literals, norm_literal)

from . import extra as X

EXPLANATION = ("Typestate UNANCHORED -> ANCHORED on the accumulator of ResourceQuerySegment._query_to_absolute: the test that "
               "selects 'copy the base directory in' is re-derived from the source, and no accumulator-derived argument of a "
               "recursive call may re-enable it (abstract values NONE / EMPTY / NONEMPTY / LIST); every '..' shortens a provably "
               "non-empty list or raises; Query.to_absolute passes transform segments and non-selected resource segments through "
               "unchanged with an exact selection test; callers resolve against a directory key. NOT decided: equivalence with "
               "posixpath.normpath on all inputs, idempotence.")
P = "liquer.parser"


def absval(expr, acc, lits_here, sentinel_kind):
    """Abstract value of an accumulator-derived expression: NONE / EMPTY / NONEMPTY / LIST (maybe empty) / OTHER."""
    if isinstance(expr, ast.Constant) and expr.value is None:
        return "NONE"
    if isinstance(expr, (ast.List, ast.Tuple)):
        return "NONEMPTY" if expr.elts else "EMPTY"
    if isinstance(expr, ast.Name) and expr.id == acc:
        # refine by dominating literals
        v = "ANY"
        for _, txt, pol, _ in lits_here:
            if txt == f"{acc} is None":
                v = "NONE" if pol else ("NOTNONE" if v == "ANY" else v)
            if txt in (f"len({acc}) == 0",):
                v = "EMPTY" if pol else "NONEMPTY"
            if txt in (f"len({acc}) > 0", f"len({acc})") and pol:
                v = "NONEMPTY"
        return v
    if isinstance(expr, ast.BinOp) and isinstance(expr.op, ast.Add):
        l, r = absval(expr.left, acc, lits_here, sentinel_kind), absval(expr.right, acc, lits_here, sentinel_kind)
        if "NONEMPTY" in (l, r):
            return "NONEMPTY"
        return "LIST"
    if isinstance(expr, ast.BoolOp) and isinstance(expr.op, ast.Or):
        vals = [absval(v, acc, lits_here, sentinel_kind) for v in expr.values]
        if vals[-1] in ("EMPTY", "LIST", "NONEMPTY"):
            return "NONEMPTY" if all(v == "NONEMPTY" for v in vals) else "LIST"
        return "ANY"
    if isinstance(expr, ast.Subscript) and isinstance(expr.slice, ast.Slice):
        return "LIST"      # a slice is a list of unknown (possibly zero) length
    if isinstance(expr, ast.Call) and call_name(expr) == "list":
        return "LIST"
    return "ANY"


def may_equal_sentinel(v, sentinel_kind):
    if sentinel_kind == "none":
        return v in ("NONE", "ANY")
    if sentinel_kind == "empty":
        return v in ("EMPTY", "LIST", "ANY")
    if sentinel_kind == "falsy":
        return v in ("NONE", "EMPTY", "LIST", "ANY")
    return True


def rule_no_reanchoring(chk, rid):
    repo = chk.repo
    chk.rule(rid, "no re-anchoring: the accumulator state that selects 'copy the base directory in' (the sentinel passed by the "
                  "entry call) can never be re-created by an accumulator-derived argument of a recursive call")
    m = repo.module(P)
    fn = repo.func(P, "ResourceQuerySegment._query_to_absolute")
    ps = params(fn)
    if len(ps) < 4:
        raise AnalysisError("_query_to_absolute: unexpected signature")
    base, acc, rest = ps[1], ps[2], ps[3]
    cfg = CFG(fn)
    C = f"{P}.ResourceQuerySegment._query_to_absolute"
    # anchoring sites: the base directory flows into the accumulator
    anchors = []
    for c in calls_in(fn, tail=fn.name):
        if len(c.args) >= 2 and base in {n.id for n in ast.walk(c.args[1]) if isinstance(n, ast.Name)}:
            anchors.append(cfg.node_of(c))
    for s in body_walk(fn):
        if isinstance(s, ast.Assign) and U(s.targets[0]) == acc and base in {n.id for n in ast.walk(s.value) if isinstance(n, ast.Name)}:
            anchors.append(cfg.node_of(s))
    if not anchors:
        chk.ob(rid, C, False, "no site copies the base directory into the accumulator: './x' is never resolved against the directory", fn, m, key="entry-sentinel")
        return
    kinds = set()
    for a in anchors:
        ak = set()
        for _, txt, pol, _ in dominating_literals(cfg, a):
            if txt == f"{acc} is None" and pol:
                ak.add("none")
            if txt == f"len({acc}) == 0" and pol:
                ak.add("empty")
            if txt in (acc, f"len({acc})", f"bool({acc})") and not pol:
                ak.add("falsy")      # `not acc`: true for None *and* for the empty list
        if not ak:
            ak.add("falsy")          # anchors without a recognised un-anchored test: treated as the weakest test
        kinds |= ak
    if "falsy" in kinds or len(kinds) > 1:
        sk = "falsy"
    elif len(kinds) == 1:
        sk = next(iter(kinds))
    else:
        raise AnalysisError(f"_query_to_absolute: cannot derive the anchoring test (found {sorted(kinds)})")
    chk.count(f"anchoring sentinel: {sk}", 1)
    # entry call passes the sentinel
    ta = repo.func(P, "ResourceQuerySegment.to_absolute")
    entry = [c for c in calls_in(ta, tail=fn.name)]
    if len(entry) != 1:
        raise AnalysisError("to_absolute: entry call not found")
    ev = absval(entry[0].args[1], acc, [], sk)
    chk.ob(rid, f"{P}.ResourceQuerySegment.to_absolute", (sk == "none" and ev == "NONE") or (sk == "empty" and ev == "EMPTY") or (sk == "falsy" and ev in ("NONE", "EMPTY")),
           f"entry call starts un-anchored (accumulator `{U(entry[0].args[1])}`)", entry[0], m, key="entry-sentinel")
    # recursive calls: accumulator-derived arguments
    rec = [c for c in calls_in(fn, tail=fn.name)]
    chk.floor(rid, len(rec), 3, "recursive calls")
    for c in rec:
        a = c.args[1]
        names = {n.id for n in ast.walk(a) if isinstance(n, ast.Name)}
        if acc not in names:
            continue    # the anchoring itself (base-derived)
        cn = cfg.node_of(c)
        lits = dominating_literals(cfg, cn)
        # a local rebinding `acc = base[:]` under the sentinel test makes acc a LIST afterwards
        v = absval(a, acc, lits, sk)
        if isinstance(a, ast.Name) and a.id == acc:
            ds = cfg.reaching_defs(acc, cn)
            if cfg.entry not in ds:
                v = "LIST"
            elif sk == "none" and all(d == cfg.entry or d in anchors for d in ds):
                # `if acc is None: acc = base[:]` followed by the call: on the paths that keep the received value the test's false
                # edge was taken (acc is not None); on the others acc was just anchored (a list)
                from ..lib import literals_of_test
                notnone_edges = [(t.id, lab) for t in cfg.nodes if t.kind == "test" for lab in ("T", "F")
                                 if any(x[1] == f"{acc} is None" and x[2] is False for x in literals_of_test(t.ast, lab))]
                unguarded = cn in cfg.reachable(cfg.entry, avoid=[d for d in ds if d != cfg.entry], avoid_edges=notnone_edges)
                if not unguarded:
                    v = "LIST"
        ok = not may_equal_sentinel(v, sk)
        chk.ob(rid, C, ok, f"recursive call passes `{U(a)}` ({v}) which cannot look un-anchored" if ok else
               f"recursive call passes `{U(a)}` ({v}) which may equal the un-anchored sentinel: after '..' empties the path the "
               "next '.'/'..' copies the base directory in again instead of being rejected", c, m, key=f"acc:{U(a)}")


def rule_dotdot(chk, rid):
    repo = chk.repo
    chk.rule(rid, "climbing above the root raises: every `[:-1]` shortening in _query_to_absolute acts on a list that is provably "
                  "non-empty on that path (a dominating emptiness test whose other edge raises)")
    m = repo.module(P)
    fn = repo.func(P, "ResourceQuerySegment._query_to_absolute")
    cfg = CFG(fn)
    C = f"{P}.ResourceQuerySegment._query_to_absolute"
    n = 0
    for s in body_walk(fn):
        if isinstance(s, ast.Subscript) and isinstance(s.slice, ast.Slice) and s.slice.lower is None and U(s.slice.upper) == "-1":
            x = U(s.value)
            lits = dominating_literals(cfg, cfg.node_of(s))
            ok = any((txt == f"len({x}) == 0" and pol is False) or (txt in (f"len({x}) > 0", f"len({x})") and pol) for _, txt, pol, _ in lits)
            n += 1
            chk.ob(rid, C, ok, f"`{U(s)}` shortens a list known to be non-empty" if ok else
                   f"`{U(s)}` may act on an empty list: '..' at the root is silently absorbed instead of rejected", s, m, key=f"shorten:{x}")
    chk.floor(rid, n, 1, "shortening sites")
    raises = [cfg.nodes[r].ast for r in cfg.raises() if cfg.is_reachable(r)]
    chk.ob(rid, C, bool(raises), "a root-climb raise exists", fn, m, key="raise-exists")


def rule_untouched(chk, rid):
    repo = chk.repo
    chk.rule(rid, "everything else is untouched: Query.to_absolute appends transform segments and non-selected resource segments "
                  "unchanged, keeps `absolute`, selects by `name is None or name == segment_name()` exactly; "
                  "ResourceQuerySegment.to_absolute keeps the header")
    m = repo.module(P)
    fn = repo.func(P, "Query.to_absolute")
    cfg = CFG(fn)
    C = f"{P}.Query.to_absolute"
    namep = params(fn)[2]
    loop = [f for f in body_walk(fn) if isinstance(f, ast.For) and U(f.iter) == "self.segments"]
    if len(loop) != 1:
        raise AnalysisError("Query.to_absolute: segment loop not found")
    var = U(loop[0].target)
    apps = [c for c in calls_in(fn, tail="append")]
    conv = [c for c in apps if c.args and isinstance(c.args[0], ast.Call) and call_tail(c.args[0]) == "to_absolute"]
    same = [c for c in apps if c.args and U(c.args[0]) == var]
    chk.ob(rid, C, len(conv) == 1 and len(same) >= 1, f"{len(same)} pass-through appends, {len(conv)} resolving append", fn, m, key="appends")
    for c in conv:
        lits = dominating_literals(cfg, cfg.node_of(c))
        sel = [(e, txt, pol) for e, txt, pol, _ in lits if namep in txt]
        tests = set()
        from ..lib import nnf, nnf_mentions, nnf_lits
        for n_ in cfg.nodes:
            for lab_ in ("T", "F"):      # the resolving append may sit on either branch of the selection test
                if n_.kind == "test" and namep in U(n_.ast) and cfg.edge_dominates(n_.id, lab_, cfg.node_of(c)):
                    tree = nnf(n_.ast, lab_ == "T")
                    parts = tree[1] if tree[0] == "and" else [tree]
                    mine = [p_ for p_ in parts if nnf_mentions(p_, namep)]
                    if len(mine) == 1 and nnf_lits(mine[0]) is not None:
                        tests = nnf_lits(mine[0])
        want = {(f"{namep} is None", True), (f"{namep} == {var}.segment_name()", True)}
        chk.ob(rid, C, tests == want, f"selection test is {sorted(tests)}" + ("" if tests == want else
               f" (must be exactly {sorted(want)}: '' selects only the unnamed resource, None selects all)"), c, m, key="selection")
        isres = any("isinstance" in txt and "ResourceQuerySegment" in txt and pol for _, txt, pol, _ in lits)
        chk.ob(rid, C, isres, "only resource segments are resolved", c, m, key="only-resource")
    rets = returns_of(fn)
    ok = any(isinstance(r.value, ast.Call) and call_tail(r.value) == "Query" and U(kwarg(r.value, "absolute")) == "self.absolute" for r in rets)
    chk.ob(rid, C, ok, "result keeps absolute=self.absolute", fn, m, key="absolute")
    ta = repo.func(P, "ResourceQuerySegment.to_absolute")
    ok = any(isinstance(r.value, ast.Call) and call_tail(r.value) == "ResourceQuerySegment" and U(kwarg(r.value, "header")) == "self.header" for r in returns_of(ta))
    chk.ob(rid, f"{P}.ResourceQuerySegment.to_absolute", ok, "the segment header is kept", ta, m, key="header")


def rule_call_sites(chk, rid):
    repo = chk.repo
    chk.rule(rid, "call sites resolve against a directory key: resolve_recipe_definition (both forms) and evaluate_template pass "
                  "a store directory to to_absolute")
    rm = repo.module("liquer.recipes")
    fn = repo.func("liquer.recipes", "resolve_recipe_definition")
    dirp = params(fn)[1]
    ps = [c for c in calls_in(fn) if call_name(c) == "parse"]
    chk.floor(rid, len(ps), 2, "parse calls in resolve_recipe_definition")
    for c in ps:
        ok = any(x.func.value is c and x.args and U(x.args[0]) == dirp for x in calls_in(fn, tail="to_absolute"))
        chk.ob(rid, "liquer.recipes.resolve_recipe_definition", ok, f"`{U(c)}` is resolved against the recipe directory `{dirp}`" if ok else
               f"`{U(c)}` is not resolved against the recipe directory", c, rm, key=f"recipe-dir:{U(c.args[0])}")
    cm = repo.module("liquer.context")
    et = repo.func("liquer.context", "Context.evaluate_template")
    cs = [c for c in calls_in(et, tail="to_absolute")]
    chk.ob(rid, "liquer.context.Context.evaluate_template", len(cs) == 1 and U(cs[0].args[0]) == "path", "template queries resolve against the `path` argument", et, cm, key="template-dir")


def run(chk):
    rule_no_reanchoring(chk, "C19.1")
    rule_dotdot(chk, "C19.2")
    rule_untouched(chk, "C19.3")
    rule_call_sites(chk, "C19.4")
    X.rule_to_absolute_early_return(chk, "C19.5")
    X.rule_regex_action_agreement(chk, "C19.6")
