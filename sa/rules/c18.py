"""C18 - metadata truthfully describes every result (structural clauses)."""
import ast
from ..core import (AnalysisError, U, calls_in, call_tail, call_recv, call_name, body_walk, kwarg)
from ..cfg import CFG, assigned_value
from ..lib import (params, returns_of, is_none_const, dominating_literals, reaching_defs_attr)
from . import cachefam as F

from . import extra as X

EXPLANATION = ("Edge rules in evaluate_action (status <=> error flag on both edges, flag written after the last metadata merge), "
               "canonical query label dominating every state-returning exit of evaluate, the filed object being the returned object, "
               "the last action recorded with namespace + command metadata, the attribute persistence rule (capital-letter filter then "
               "overlay), file-name labelling from one split rule, type identifier recomputed whenever State.data is (re)written, copies "
               "kept by the in-memory cache being real copies. NOT decided: truthfulness of metadata values; agreement of copies after "
               "serialisation.")
CTX = "liquer.context"
STATE = "liquer.state"


def rule_status_flag(chk, rid):
    ea = F.EvalAction(chk.repo)
    chk.rule(rid, "status <=> error flag at the end of evaluate_action: error edge -> status ERROR in the metadata and "
                  "state.is_error = True after the last metadata merge; success edge -> status READY and no is_error write afterwards")
    fn, cfg, C = ea.fn, ea.cfg, ea.C
    def on_edge(node, pol):
        return any(txt == "is_error" and p is pol for _, txt, p, _ in dominating_literals(cfg, node))
    stat = [n for n in cfg.nodes if n.kind == "stmt" and isinstance(n.ast, ast.Assign) and U(n.ast.targets[0]) == "self.status"]
    err_stat = [n for n in stat if on_edge(n.id, True) and "ERROR" in U(n.ast.value)]
    ok_stat = [n for n in stat if on_edge(n.id, False) and "READY" in U(n.ast.value)]
    chk.ob(rid, C, bool(err_stat), "error edge sets Status.ERROR", fn, ea.mod, key="error:status")
    chk.ob(rid, C, bool(ok_stat), "success edge sets Status.READY", fn, ea.mod, key="success:status")
    mds = [n for n in cfg.nodes if n.kind == "stmt" and isinstance(n.ast, ast.Assign) and U(n.ast.targets[0]).replace('"', "'") == "metadata['status']"]
    good_md = [n.id for n in mds if U(n.ast.value) == "self.status.value"]
    upd_nodes = [cfg.node_of(c) for c in calls_in(fn, tail="update") if call_recv(c) == "state.metadata" and c.args and U(c.args[0]) == "metadata"]
    for sel_stat, name in ((err_stat, "error"), (ok_stat, "success")):
        # path form (robust to a merged tail): every path from the edge's status assignment to a return copies self.status.value into
        # the metadata - with no other status assignment in between - and then merges the metadata into the state
        ok = bool(sel_stat) and bool(good_md)
        ok2 = ok and bool(upd_nodes)
        for s_ in sel_stat:
            rets_ = [r for r in cfg.returns() if cfg.can_reach(s_.id, r)]
            ok = ok and bool(rets_) and all(cfg.must_pass(s_.id, r, good_md) for r in rets_)
            others = [x.id for x in stat if x.id != s_.id and cfg.can_reach(s_.id, x.id) and any(cfg.can_reach(x.id, m_) for m_ in good_md)]
            ok = ok and not others
            bad_md = [n.id for n in mds if n.id not in good_md and cfg.can_reach(s_.id, n.id)]
            ok = ok and not bad_md
            for m_ in good_md:
                if cfg.can_reach(s_.id, m_):
                    ok2 = ok2 and all(cfg.must_pass(m_, r, upd_nodes) for r in rets_ if cfg.can_reach(m_, r))
        chk.ob(rid, C, ok, f"{name} edge copies the status into the result's metadata", fn, ea.mod, key=f"{name}:metadata-status")
        chk.ob(rid, C, ok2, f"{name} edge merges the metadata into the state after setting the status", fn, ea.mod, key=f"{name}:merge")
    flags = [n for n in cfg.nodes if n.kind == "stmt" and isinstance(n.ast, ast.Assign) and U(n.ast.targets[0]) == "state.is_error"]
    eflags = [n for n in flags if on_edge(n.id, True) and U(n.ast.value) == "True"]
    chk.ob(rid, C, bool(eflags), "error edge sets state.is_error = True", fn, ea.mod, key="error:flag")
    upd_all = [cfg.node_of(c) for c in calls_in(fn, tail="update") if call_recv(c) == "state.metadata"]
    for e in eflags:
        later = [u for u in upd_all if cfg.can_reach(e.id, u)]
        chk.ob(rid, C, not later, "the flag is written after the last metadata merge" if not later else
               "a later state.metadata.update(metadata) overwrites the flag with the context's value", e.ast, ea.mod, key="error:flag-last")
    sflags = [n for n in flags if on_edge(n.id, False)]
    chk.ob(rid, C, not sflags, "success edge never touches state.is_error", fn, ea.mod, key="success:no-flag")
    sst = [n for n in cfg.nodes if n.kind == "stmt" and isinstance(n.ast, ast.Assign) and U(n.ast.targets[0]) == "state.status" and on_edge(n.id, True)]
    chk.ob(rid, C, bool(sst), "error edge sets state.status", fn, ea.mod, key="error:state-status")


def rule_label_every_exit(chk, rid):
    ev = F.Evaluate(chk.repo)
    chk.rule(rid, "every state-returning exit of evaluate labels the state with the canonical text (state.query = query.encode() is "
                  "the reaching label), except the cache hit (the state carries its key) and the sub-query delegation (the child does it)")
    cfg = ev.cfg
    C = f"{CTX}.Context.evaluate"
    g = ev.one(ev.get_calls, "cache lookup")
    gn = ev.node(g)
    n = 0
    for r in cfg.returns():
        if not cfg.is_reachable(r):
            continue
        # classify exit
        if ev.is_delegation_exit(r) or ev.is_hit_exit(r):
            continue   # the child context labels its own result / a cached state carries its key
        n += 1
        ra, rb, fe = reaching_defs_attr(cfg, "state", "state.query", r)
        # `state = self.index_state(state)` rebinding keeps the object: treat defs of state by index_state as transparent
        rb2 = [d for d in rb if "index_state(state)" not in U(cfg.nodes[d].ast)]
        vals = [U(assigned_value(cfg, d, "state.query")) for d in ra]
        if not ra and rb and not rb2:
            # walk back through index_state
            d0 = rb[0]
            ra, rb3, fe = reaching_defs_attr(cfg, "state", "state.query", d0)
            rb2 = [d for d in rb3 if "index_state(state)" not in U(cfg.nodes[d].ast)]
            vals = [U(assigned_value(cfg, d, "state.query")) for d in ra]
        ok = bool(ra) and not rb2 and not fe and all(v == f"{ev.queryvar}.encode()" for v in vals)
        chk.ob(rid, C, ok, f"exit at line {cfg.nodes[r].lineno} returns a state labelled {vals}" if ok else
               f"exit at line {cfg.nodes[r].lineno} can return a state whose query label is not the canonical text of this query", cfg.nodes[r].ast, ev.mod,
               key=f"exit:{len([x for x in cfg.returns() if x < r])}")
    chk.floor(rid, n, 4, "labelled exits")


def rule_kept_is_returned(chk, rid):
    ev = F.Evaluate(chk.repo)
    chk.rule(rid, "the kept copy is the returned copy: the object given to cache.store and to _store_state is the `state` that is "
                  "returned, and no metadata assignment other than the indexer's happens between filing and returning")
    cfg = ev.cfg
    C = f"{CTX}.Context.evaluate"
    st = ev.one(ev.store_calls, "cache.store site")
    sn = ev.node(st)
    chk.ob(rid, C, U(st.args[0]) == "state", "cache.store files `state`", st, ev.mod, key="store-arg")
    for c in ev.store_state_calls:
        chk.ob(rid, C, c.args and U(c.args[0]) == "state", "_store_state files `state`", c, ev.mod, key="store_state-arg", nontrivial=False)
    rets = [r for r in cfg.returns() if cfg.can_reach(sn, r)]
    for r in rets:
        chk.ob(rid, C, U(cfg.nodes[r].ast.value) == "state", "the returned object is `state`", cfg.nodes[r].ast, ev.mod, key="returned")
    muts = []
    for n in cfg.nodes:
        if n.kind == "stmt" and isinstance(n.ast, (ast.Assign, ast.AugAssign)) and cfg.can_reach(sn, n.id):
            for t in (n.ast.targets if isinstance(n.ast, ast.Assign) else [n.ast.target]):
                if U(t).startswith("state.") or U(t).startswith("state["):
                    muts.append(n)
                if U(t) == "state" and "index_state(state)" not in U(n.ast.value):
                    muts.append(n)
    chk.ob(rid, C, not muts, "nothing re-labels or rebinds the state between filing and returning" if not muts else
           f"`{U(muts[0].ast)[:50]}` changes the state after it was filed: the cached copy disagrees with the returned one", (muts[0].ast if muts else st), ev.mod, key="no-mutation-after-filing")


def rule_last_action_recorded(chk, rid):
    ea = F.EvalAction(chk.repo)
    chk.rule(rid, "the last action is recorded: commands = previous + [action.to_list()], extended_commands gets one entry with "
                  "command_name / ns / qcommand / action text / command_metadata, and the command dependency (name, version) is recorded "
                  "on the known-command path")
    fn, C = ea.fn, ea.C
    txt = U(fn).replace('"', "'")
    chk.ob(rid, C, "metadata['commands'] = metadata.get('commands', []) + [action.to_list()]" in txt, "commands list is extended by this action", fn, ea.mod, key="commands")
    ext = [s for s in body_walk(fn) if isinstance(s, ast.Assign) and U(s.targets[0]).replace('"', "'") == "metadata['extended_commands']"]
    keys = set()
    for s in ext:
        for d in ast.walk(s.value):
            if isinstance(d, ast.Call) and call_name(d) == "dict":
                keys |= {k.arg for k in d.keywords}
    need = {"command_name", "ns", "qcommand", "action", "command_metadata"}
    chk.ob(rid, C, need <= keys, f"extended_commands entry carries {sorted(need)}", ext[0] if ext else fn, ea.mod, key="extended")
    for s in ext:
        vals = {k.arg: U(k.value) for d in ast.walk(s.value) if isinstance(d, ast.Call) and call_name(d) == "dict" for k in d.keywords}
        chk.ob(rid, C, vals.get("ns") == "ns" and vals.get("command_name") == "action.name" and vals.get("qcommand") == "action.to_list()",
               "entry describes this action and the namespace it was resolved in", s, ea.mod, key="extended-values")
    dep = [c for c in calls_in(fn, tail="add_command_dependency")]
    ok = len(dep) == 1 and [U(a) for a in dep[0].args] == ["ns", "cmd_metadata"]
    if ok:
        lits = dominating_literals(ea.cfg, ea.cfg.node_of(dep[0]))
        ok = any(txt_ == f"{ea.cmdvar} is None" and pol is False for _, txt_, pol, _ in lits)
    chk.ob(rid, C, ok, "command dependency (ns, metadata incl. version) recorded for resolved commands", fn, ea.mod, key="dependency")
    chk.ob(rid, C, "metadata['query'] = self.raw_query" in txt, "metadata query is this context's query text", fn, ea.mod, key="query")
    chk.ob(rid, C, "metadata['type_identifier'] = state.type_identifier" in txt, "type identifier is taken from the result state", fn, ea.mod, key="type-id")


def rule_attribute_persistence(chk, rid):
    ea = F.EvalAction(chk.repo)
    chk.rule(rid, "attribute persistence: carried-over attributes are the result state's attributes filtered by first-character-"
                  "upper-case, then overlaid with the command's own attributes (in that order)")
    fn, cfg, C = ea.fn, ea.cfg, ea.C
    Q = lambda t: t.replace('"', "'")
    stmts = [n for n in cfg.nodes if n.kind == "stmt" and n.ast is not None]
    # the filter: a dict comprehension (assigned to metadata['attributes'] or to a local that ends up there)
    filt = [n for n in stmts if isinstance(n.ast, ast.Assign) and isinstance(n.ast.value, ast.DictComp) and "attributes" in Q(U(n.ast.value.generators[0].iter))]
    ok = len(filt) == 1
    holder = None
    if ok:
        dc = filt[0].ast.value
        g = dc.generators[0]
        kv = U(g.target.elts[0]) if isinstance(g.target, ast.Tuple) else ""
        ok = len(g.ifs) == 1 and U(g.ifs[0]) == f"{kv}[0].isupper()" and "state.metadata['attributes'].items()" in Q(U(g.iter)) \
            and isinstance(g.target, ast.Tuple) and U(dc.key) == kv and U(dc.value) == U(g.target.elts[1])
        holder = Q(U(filt[0].ast.targets[0]))
    chk.ob(rid, C, ok, "persistence filter is `key[0].isupper()` over the state's attributes", filt[0].ast if filt else fn, ea.mod, key="filter")
    # the overlay: dict(<filtered>, **cmd_metadata.attributes) or <filtered>.update(cmd_metadata.attributes)
    over = [n for n in stmts if not isinstance(n.ast, (ast.If, ast.While)) and "cmd_metadata.attributes" in U(n.ast)]
    ok = len(over) == 1 and bool(filt) and cfg.can_reach(filt[0].id, over[0].id) and not cfg.can_reach(over[0].id, filt[0].id)
    chk.ob(rid, C, ok, "the command's own attributes are overlaid after the filter", over[0].ast if over else fn, ea.mod, key="overlay-order")
    if over and holder:
        a = over[0].ast
        base_ok = lambda t: Q(t) == holder or (holder == "metadata['attributes']" and "metadata.get('attributes'" in Q(t))
        ok = False
        if isinstance(a, ast.Assign) and isinstance(a.value, ast.Call) and call_name(a.value) == "dict" and a.value.args:
            ok = base_ok(U(a.value.args[0])) and any(k.arg is None and U(k.value) == "cmd_metadata.attributes" for k in a.value.keywords) \
                and Q(U(a.targets[0])) in (holder, "metadata['attributes']")
        elif isinstance(a, ast.Expr) and isinstance(a.value, ast.Call) and call_tail(a.value) == "update":
            ok = base_ok(call_recv(a.value) or "") and len(a.value.args) == 1 and U(a.value.args[0]) == "cmd_metadata.attributes"
        chk.ob(rid, C, ok, "overlay = dict(filtered, **cmd_metadata.attributes) or filtered.update(cmd_metadata.attributes)", a, ea.mod, key="overlay-shape")
        if holder != "metadata['attributes']":
            fin = [n for n in stmts if isinstance(n.ast, ast.Assign) and Q(U(n.ast.targets[0])) == "metadata['attributes']" and Q(U(n.ast.value)) == holder]
            chk.ob(rid, C, bool(fin) and all(cfg.can_reach(over[0].id, f.id) and not cfg.can_reach(f.id, over[0].id) for f in fin),
                   f"the filtered and overlaid `{holder}` is what ends up in metadata['attributes']", fin[0].ast if fin else fn, ea.mod, key="overlay-stored")


def rule_filename(chk, rid):
    repo = chk.repo
    chk.rule(rid, "file name handling: a file-name remainder reaches State.with_filename, which sets filename, extension (the part "
                  "after the LAST dot, same rule as Query.extension) and the media type of that extension")
    ea = F.EvalAction(repo)
    wf = [c for c in calls_in(ea.fn, tail="with_filename")]
    ok = len(wf) == 1 and U(wf[0].args[0]) == "action.filename"
    if ok:
        lits = dominating_literals(ea.cfg, ea.cfg.node_of(wf[0]))
        ok = any(txt == "action.is_filename()" and pol for _, txt, pol, _ in lits)
    chk.ob(rid, ea.C, ok, "a file-name step returns state.with_filename(action.filename)", ea.fn, ea.mod, key="route")
    m = repo.module(STATE)
    fn = repo.func(STATE, "State.with_filename")
    fp = params(fn)[1]
    txt = U(fn).replace('"', "'")
    chk.ob(rid, f"{STATE}.State.with_filename", f"self.metadata['filename'] = {fp}" in txt, "records the file name", fn, m, key="filename")
    ext = [s for s in body_walk(fn) if isinstance(s, ast.Assign) and U(s.targets[0]) in ("self.extension", "self.metadata['extension']")]
    ok = len(ext) == 1 and f"{fp}.split('.')[-1]" in U(ext[0].value)
    chk.ob(rid, f"{STATE}.State.with_filename", ok, f"extension = part after the last dot (`{U(ext[0].value) if ext else None}`)" if ok else
           f"extension is derived as `{U(ext[0].value) if ext else None}`: for a name with several dots it disagrees with Query.extension() and the media type table",
           ext[0] if ext else fn, m, key="extension-last-dot")
    chk.ob(rid, f"{STATE}.State.with_filename", "self.metadata['mimetype'] = mimetype_from_extension(self.extension)" in txt, "media type follows the extension", fn, m, key="mimetype")
    qe = repo.func("liquer.parser", "Query.extension")
    chk.ob(rid, "liquer.parser.Query.extension", "v[-1]" in U(qe) or "[-1]" in U(qe), "Query.extension() uses the same last-dot rule", qe, repo.module("liquer.parser"), key="sibling")
    chk.xref("Context.evaluate pre-sets metadata['extension'] with a different split rule ('.'.join(parts[1:])) that with_filename then overwrites - no behavioural effect today")


def rule_data_writers(chk, rid):
    repo = chk.repo
    chk.rule(rid, "type identifier follows the data: State.data is (re)written only by State.__init__, with_data (which recomputes "
                  "type_identifier and data_characteristics), clone, and the cache get()s (which restore data together with its stored metadata)")
    m = repo.module(STATE)
    wd = repo.func(STATE, "State.with_data")
    txt = U(wd).replace('"', "'")
    ok = "self.data = data" in txt and "self.metadata['type_identifier'] = type_identifier_of(data)" in txt and "self.metadata['data_characteristics'] = data_characteristics(data)" in txt
    chk.ob(rid, f"{STATE}.State.with_data", ok, "with_data recomputes type_identifier and data_characteristics", wd, m, key="with_data")
    ALLOWED = {("liquer.state", "State.__init__"), ("liquer.state", "State.with_data"), ("liquer.state", "State.clone"),
               ("liquer.cache", "FileCache.get"), ("liquer.cache", "StoreCache.get"), ("liquer.cache", "SQLCache.get")}
    n = 0
    for modname in ("liquer.state", "liquer.context", "liquer.cache", "liquer.commands", "liquer.query"):
        mod = repo.module(modname)
        fns = list(mod.functions.items()) + [(f"{c}.{k}", v) for c in mod.classes for k, v in repo.cls(modname, c).methods.items()]
        for fname, fn in fns:
            for s in body_walk(fn):
                if isinstance(s, (ast.Assign, ast.AugAssign)):
                    for t in (s.targets if isinstance(s, ast.Assign) else [s.target]):
                        if isinstance(t, ast.Attribute) and t.attr == "data" and U(t.value) in ("self", "state", "old_state", "result"):
                            if modname in ("liquer.cache",) and U(t.value) == "self":
                                continue
                            cls = fname.split(".")[0]
                            if U(t.value) == "self" and cls != "State":
                                continue
                            n += 1
                            chk.ob(rid, f"{modname}.{fname}", (modname, fname) in ALLOWED, f"`{U(s)[:50]}` writes State.data", s, mod, key=f"writer:{fname}")
    chk.floor(rid, n, 5, "State.data writers")


def rule_context_status_flag(chk, rid):
    repo = chk.repo
    chk.rule(rid, "the kept copy is marked in status AND flag: in every Context method, a `self.status = Status.ERROR` that reaches a "
                  "self.store_metadata(...) is accompanied by self.is_error = True (directly or through self.error()/self.exception()) "
                  "on every path to that write")
    m = repo.module(CTX)
    ci = repo.cls(CTX, "Context")
    n = 0
    for mn, fn in ci.methods.items():
        errs = [s for s in body_walk(fn) if isinstance(s, ast.Assign) and U(s.targets[0]) == "self.status" and U(s.value) == "Status.ERROR"]
        if not errs:
            continue
        cfg = CFG(fn)
        marks = [cfg.node_of(s) for s in body_walk(fn) if isinstance(s, ast.Assign) and U(s.targets[0]) == "self.is_error" and U(s.value) == "True"]
        marks += [cfg.node_of(c) for c in calls_in(fn) if call_name(c) in ("self.error", "self.exception")]
        joins = [cfg.node_of(s) for s in body_walk(fn) if isinstance(s, ast.Assign) and U(s.targets[0]) == "is_error" and "self.is_error" in U(s.value)]
        writes = [cfg.node_of(c) for c in calls_in(fn) if call_name(c) in ("self.store_metadata", "self.info", "self.debug", "self.warning")]
        for e in errs:
            en = cfg.node_of(e)
            # within evaluate_action the flag is the disjunction tested by the error edge itself
            lits = dominating_literals(cfg, en)
            if any(txt == "is_error" and pol for _, txt, pol, _ in lits) and joins:
                continue
            first = [w for w in writes if cfg.can_reach(en, w)]
            if not first:
                continue
            n += 1
            ok = all(cfg.set_dominates(marks, w) or not cfg.must_pass(cfg.entry, w, [en], strict=False) and False for w in first[:1]) if marks else False
            if marks:
                ok = all(w not in cfg.succ_reach(en, avoid=marks) or cfg.set_dominates(marks, en) for w in first)
            chk.ob(rid, f"{CTX}.Context.{mn}", ok, "status ERROR is accompanied by is_error = True before the metadata is written" if ok else
                   "status ERROR is written to the kept metadata with is_error still False (kept copy disagrees with the returned error state)",
                   e, m, key=f"status-flag:{len([x for x in errs if x.lineno < e.lineno])}")
    chk.floor(rid, n, 2, "status ERROR sites followed by a metadata write")


def run(chk):
    rule_context_status_flag(chk, "C18.9")
    rule_status_flag(chk, "C18.1")
    rule_label_every_exit(chk, "C18.2")
    rule_kept_is_returned(chk, "C18.3")
    rule_last_action_recorded(chk, "C18.4")
    rule_attribute_persistence(chk, "C18.5")
    rule_filename(chk, "C18.6")
    rule_data_writers(chk, "C18.7")
    F.rule_memory_copy(chk, chk.repo, "C18.8")
    X.rule_store_key_before_materialise(chk, "C18.10")
    X.rule_to_list_raw(chk, "C18.11")
    X.rule_metadata_exception_flags(chk, "C18.12")
    from .c01 import rule_executables
    rule_executables(chk, "C18.13")
