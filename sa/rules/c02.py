"""C02 - canonical query text is a fixed point of parse . encode (clauses decided statically)."""
import ast
import itertools
import re
from urllib.parse import quote   # stdlib only: used as the model of the library call that encode_token makes
from ..core import (AnalysisError, U, calls_in, call_tail, call_recv, call_name, body_walk, kwarg, walk_no_nested)
from ..cfg import CFG, assigned_value
from ..grammar import Grammar
from ..printer import PrinterExtractor
from ..lib import params, returns_of, reaching_defs_attr
from . import c03

from . import extra as X

EXPLANATION = ("C02.1 language inclusion printer <= parser on bounded sentences: the printer grammar is extracted from the "
               "encode() methods by abstract interpretation, its guarded productions are instantiated for every constructor "
               "shape the parse actions can build, and each sentence is tested for membership in a relaxed CFG reading of "
               "the pyparsing grammar (a superset of the real parser's language, so every alarm is a certain rejection). "
               "C02.2 encode reads every structural field; C02.3 both parser entry points consume the whole input; C02.5 "
               "token-level canonicalisation premises. (The 'identity = canonical text' clause of the design was withdrawn from "
               "C02: it is the reason the property matters, not a necessary condition of it; it lives in C05.6 / C09.1b / C18.2.) NOT decided: structural identity of the "
               "re-parse for every accepted string.")
P = "liquer.parser"
NODE_CLASSES = ["Query", "TransformQuerySegment", "ResourceQuerySegment", "SegmentHeader", "ActionRequest",
                "LinkActionParameter", "StringActionParameter", "ResourceName"]
# which classes populate which field (confirmed by reading the parse actions; one line of reason each)
FIELD_CLASSES = {
    ("Query", "segments"): ["TransformQuerySegment", "ResourceQuerySegment"],   # query_segment alternatives
    ("TransformQuerySegment", "query"): ["ActionRequest"],                      # action_path_nonempty -> action_request
    ("TransformQuerySegment", "header"): ["SegmentHeader"],                     # segment_header
    ("ResourceQuerySegment", "query"): ["ResourceName"],                        # resource_path -> resource_name
    ("ResourceQuerySegment", "header"): ["SegmentHeader"],                      # built in the resource parse action
    ("ActionRequest", "parameters"): ["StringActionParameter", "LinkActionParameter"],   # parameter rule
    ("SegmentHeader", "parameters"): ["StringActionParameter", "LinkActionParameter"],   # parameter rule
    ("LinkActionParameter", "link"): ["Query"],                                  # expand_entity -> parse_query
}
LIST_FIELDS = {("Query", "segments"), ("TransformQuerySegment", "query"), ("ResourceQuerySegment", "query"),
               ("ActionRequest", "parameters"), ("SegmentHeader", "parameters")}


# --------------------------------------------------------------------------- constructor shapes
def init_fields(repo, cname):
    """param name -> (field name, list_default?) from `self.f = p` / `self.f = p or []` / `[] if p is None else p`"""
    ci = repo.cls(P, cname)
    dc, init = ci.find_method("__init__")
    out = {}
    pnames = params(init)[1:]
    defaults = {}
    d = init.args.defaults
    for n, dv in zip(pnames[len(pnames) - len(d):], d):
        defaults[n] = dv
    for st in body_walk(init):
        if isinstance(st, ast.Assign) and len(st.targets) == 1 and U(st.targets[0]).startswith("self."):
            f = U(st.targets[0])[5:]
            v = st.value
            names = [n.id for n in ast.walk(v) if isinstance(n, ast.Name) and n.id in pnames]
            if len(set(names)) == 1:
                none_to_empty = isinstance(v, ast.BoolOp) and isinstance(v.op, ast.Or) and U(v.values[-1]) == "[]" or \
                    (isinstance(v, ast.IfExp) and "[]" in (U(v.body), U(v.orelse)))
                out[names[0]] = (f, bool(none_to_empty))
    # super().__init__(position) etc. are position-only: ignored
    return pnames, defaults, out


def classify(arg):
    if arg is None:
        return "NONE"
    if isinstance(arg, ast.Constant):
        if arg.value is None:
            return "NONE"
        return ("CONST", arg.value)
    if isinstance(arg, (ast.List, ast.Tuple)) and not arg.elts:
        return "EMPTY"
    if isinstance(arg, (ast.List, ast.Tuple)):
        return "NONEMPTY"
    return "UNKNOWN"


def constructor_shapes(repo):
    """{class: [ {field: kind}, ... ]} from the constructor calls in module-level functions (parse actions)."""
    m = repo.module(P)
    shapes = {c: [] for c in NODE_CLASSES}
    sites = {c: [] for c in NODE_CLASSES}
    for fname, fn in m.functions.items():
        for c in calls_in(fn):
            if isinstance(c.func, ast.Name) and c.func.id in NODE_CLASSES:
                cname = c.func.id
                pnames, defaults, fmap = init_fields(repo, cname)
                bound = {}
                for i, a in enumerate(c.args):
                    if i < len(pnames):
                        bound[pnames[i]] = a
                for k in c.keywords:
                    if k.arg:
                        bound[k.arg] = k.value
                shape = {}
                for p in pnames:
                    if p not in fmap:
                        continue
                    f, n2e = fmap[p]
                    if f == "position":
                        continue
                    kind = classify(bound[p]) if p in bound else classify(defaults.get(p))
                    if n2e and kind == "NONE":
                        kind = "EMPTY"
                    shape[f] = kind
                if shape not in shapes[cname]:
                    shapes[cname].append(shape)
                    sites[cname].append(f"{fname}:{c.lineno}")
    return shapes, sites


# --------------------------------------------------------------------------- sentence enumeration
class Enumerator:
    def __init__(self, repo, g, px, rows, tier, unknown_may_be_empty=False):
        self.repo, self.g, self.px, self.rows, self.tier = repo, g, px, rows, tier
        self.unknown_may_be_empty = unknown_may_be_empty
        self.shapes, self.sites = constructor_shapes(repo)
        self.lens = [1, 2] if tier == "quick" else [1, 2, 3]
        self.link_depth = 1 if tier == "quick" else 2
        self._pool = {}
        rx = lambda name: g.IR[name].kw["s"] if name in g.IR and g.IR[name].kind == "re" else None
        def pick(pattern, cands, n=2):
            out = [c for c in cands if pattern is not None and re.fullmatch(pattern, c)]
            return out[:n]
        self.dom = {
            "identifier": pick(rx("identifier"), ["a", "ab_c1", "x"]),
            "filename": pick(rx("filename"), ["f.txt", "a.b.c", ".x"]),
            "resname": pick(rx("resource_name"), ["x", "a.txt", ".", ".."], n=3 if tier == "thorough" else 2),
            "hname": [n for n in ["", "ns", "a_1"] if g.accepts("-" + n, ["segment_identifier"])][:2],
            "rname": [n for n in ["", "meta", "A1"] if g.accepts("-R" + n, ["resource_identifier"])][:2],
        }
        for k, v in self.dom.items():
            if not v:
                raise AnalysisError(f"C02: no representative found for terminal class {k}")
        srcs = "".join(s for s, _, _ in rows if len(s) == 1)
        self.strings = ["", "a", "1.5", "x" + srcs + "y"] + (["https://u/p q", "é"] if tier == "thorough" else [])

    def enctok(self, s):
        for src, code, _ in self.rows:
            s = s.replace(src, code)
        return quote(s).replace("%7E", "~").replace("%7e", "~")

    # ---- instances
    def reps(self, insts, n):
        """up to n representatives covering every distinct local shape first; within a shape bucket the
        shortest, the longest, then evenly spaced printed texts"""
        by = {}
        for x in sorted(insts, key=lambda i_: (len(self.text(i_)), self.text(i_))):
            by.setdefault((x["__class__"], local_shape(x)), []).append(x)
        order = {}
        for k, v in by.items():
            idx = [0, len(v) - 1, len(v) // 2, len(v) // 4, (3 * len(v)) // 4] + list(range(len(v)))
            seen, o = set(), []
            for i in idx:
                if 0 <= i < len(v) and i not in seen:
                    seen.add(i)
                    o.append(v[i])
            order[k] = o
        out = []
        k = 0
        while any(len(o) > k for o in order.values()) and (k == 0 or len(out) < n):
            for o in order.values():
                if len(o) > k and (k == 0 or len(out) < n):
                    out.append(o[k])
            k += 1
        return out

    def kinds_to_values(self, cname, f, kind, depth, ctx):
        if (cname, f) in LIST_FIELDS:
            if kind == "EMPTY":
                return [[]]
            elems = []
            for ec in FIELD_CLASSES[(cname, f)]:
                elems += self.pool(ec, depth, {**ctx, "owner": cname})
            top = cname == "Query"
            E = self.reps(elems, (60 if top else 6) if self.tier == "quick" else (150 if top else 10))
            if not E:
                return []
            out = [[]] if (self.unknown_may_be_empty and kind == "UNKNOWN" and (cname, f) in self.unknown_may_be_empty) else []
            for n in self.lens:
                if n == 1:
                    out += [[e] for e in E]
                else:
                    for off in ((1, 7, 13) if top else (1,)):
                        for i in range(len(E)):
                            out.append([E[(i + d * off) % len(E)] for d in range(n)])
                    out.append([E[0]] * n)
            return out
        if (cname, f) in FIELD_CLASSES:
            if kind == "NONE":
                return [None]
            vals = []
            for ec in FIELD_CLASSES[(cname, f)]:
                vals += self.pool(ec, depth, {**ctx, "owner": cname})
            return self.reps(vals, 4 if self.tier == "quick" else 8)
        if isinstance(kind, tuple):
            return [kind[1]]
        if f == "absolute":
            return [False, True]
        if f == "resource":
            return [False, True] if kind == "UNKNOWN" else [False]
        if f == "level":
            return [1, 2]
        if f == "filename":
            return [None] if kind == "NONE" else [None] + self.dom["filename"][:1 if self.tier == "quick" else 2]
        if f == "string":
            return list(self.strings)
        if f == "name":
            if cname == "ActionRequest":
                return self.dom["identifier"][:1 if self.tier == "quick" else 2]
            if cname == "ResourceName":
                return self.dom["resname"]
            if cname == "SegmentHeader":
                return None   # depends on `resource`: resolved in pool()
        if f in ("value",):
            return [None]
        raise AnalysisError(f"C02: no value domain for {cname}.{f} ({kind})")

    def pool(self, cname, depth, ctx=None):
        ctx = ctx or {}
        key = (cname, depth, ctx.get("owner") if cname == "SegmentHeader" else None)
        if key in self._pool:
            return self._pool[key]
        self._pool[key] = []     # recursion guard
        if cname == "Query" and depth > self.link_depth:
            return []
        if cname == "LinkActionParameter" and depth >= self.link_depth:
            return []
        out = []
        nd = depth + 1 if cname == "LinkActionParameter" else depth
        for shape in self.shapes[cname]:
            if cname == "SegmentHeader":
                # a header built for a resource segment has resource=True (constant at that site)
                want_res = ctx.get("owner") == "ResourceQuerySegment"
                res_kind = shape.get("resource")
                is_res = isinstance(res_kind, tuple) and res_kind[1] is True
                if want_res != is_res:
                    continue
            fields = list(shape)
            doms = []
            for f in fields:
                doms.append(self.kinds_to_values(cname, f, shape[f], nd, ctx))
            if cname == "SegmentHeader":
                res = shape.get("resource")
                doms[fields.index("name")] = self.dom["rname"] if (isinstance(res, tuple) and res[1] is True) else self.dom["hname"]
            if any(len(d) == 0 for d in doms):
                continue
            # pairwise-style covering: vary one field at a time around each "base" of the others' first values,
            # plus the full product when it is small
            total = 1
            for d in doms:
                total *= len(d)
            combos = set()
            if total <= (5000 if cname == "Query" else 160):
                idx = itertools.product(*[range(len(d)) for d in doms])
                combos = set(idx)
            else:
                base = [0] * len(doms)
                for fi, d in enumerate(doms):
                    for vi in range(len(d)):
                        c = list(base)
                        c[fi] = vi
                        combos.add(tuple(c))
                        for fj, d2 in enumerate(doms):
                            if fj != fi:
                                for vj in range(min(len(d2), 3)):
                                    c2 = list(c)
                                    c2[fj] = vj
                                    combos.add(tuple(c2))
            for c in sorted(combos):
                inst = {"__class__": cname, "__shape__": self.shapes[cname].index(shape)}
                inst.update({f: doms[i][c[i]] for i, f in enumerate(fields)})
                out.append(inst)
        self._pool[key] = out
        return out

    # ---- guards / terms on an instance
    def guard(self, inst, key):
        k = key[0]
        if k == "nonempty":
            return len(inst[key[1][5:]]) > 0
        if k == "notnone":
            return inst[key[1][5:]] is not None
        if k == "true":
            return bool(inst[key[1][5:]])
        if k == "strnonempty":
            return len(self.term_text(inst, key[1])) > 0
        if k == "startswith":
            return self.term_text(inst, key[1]).startswith(key[2])
        if k == "pred":
            return self.pred(inst, key[1])
        raise AnalysisError(f"C02: unknown guard {key}")

    def pred(self, inst, mname):
        fn = self.px.method(inst["__class__"], mname)
        from ..core import is_noop_stmt
        body = [s for s in fn.body if not is_noop_stmt(s)]

        def run(stmts):
            for st in stmts:
                if isinstance(st, ast.Return) and st.value is not None:
                    return bool(st.value.value) if isinstance(st.value, ast.Constant) else self.pexpr(inst, st.value)
                if isinstance(st, ast.If):
                    r = run(st.body) if self.pexpr(inst, st.test) else run(st.orelse)
                    if r is not None:
                        return r
                    continue
                raise AnalysisError(f"C02: predicate {inst['__class__']}.{mname} is not made of returns and guards")
            return None
        r = run(body)
        if r is None:
            raise AnalysisError(f"C02: predicate {inst['__class__']}.{mname} can fall off its end")
        return r

    def pexpr(self, inst, e):
        if isinstance(e, ast.BoolOp):
            if isinstance(e.op, ast.And):
                return all(self.pexpr(inst, v) for v in e.values)     # generator: short-circuits like Python
            return any(self.pexpr(inst, v) for v in e.values)
        if isinstance(e, ast.UnaryOp) and isinstance(e.op, ast.Not):
            return not self.pexpr(inst, e.operand)
        if isinstance(e, ast.Compare) and len(e.ops) == 1:
            l, r = self.pval(inst, e.left), self.pval(inst, e.comparators[0])
            op = e.ops[0]
            if isinstance(op, ast.Eq):
                return l == r
            if isinstance(op, ast.NotEq):
                return l != r
            if isinstance(op, ast.Is):
                return l is r
            if isinstance(op, ast.IsNot):
                return l is not r
            if isinstance(op, ast.Gt):
                return l > r
        if isinstance(e, ast.Call):
            if isinstance(e.func, ast.Name) and e.func.id == "isinstance" and isinstance(e.args[1], ast.Name):
                v = self.pval(inst, e.args[0])
                return isinstance(v, dict) and v.get("__class__") == e.args[1].id
            if isinstance(e.func, ast.Attribute) and not e.args:
                tgt = self.pval(inst, e.func.value)
                if isinstance(tgt, dict):
                    return self.pred(tgt, e.func.attr)
        raise AnalysisError(f"C02: unsupported predicate expression `{U(e)}`")

    def pval(self, inst, e):
        if isinstance(e, ast.Constant):
            return e.value
        if isinstance(e, ast.Name) and e.id == "self":
            return inst
        if isinstance(e, ast.Attribute):
            b = self.pval(inst, e.value)
            return b[e.attr]
        if isinstance(e, ast.Subscript) and isinstance(e.slice, ast.Constant):
            return self.pval(inst, e.value)[e.slice.value]
        if isinstance(e, ast.Call) and isinstance(e.func, ast.Name) and e.func.id == "len":
            return len(self.pval(inst, e.args[0]))
        raise AnalysisError(f"C02: unsupported predicate value `{U(e)}`")

    def text(self, inst):
        c = inst["__class__"]
        prods = self.px.productions(c)
        sel = [t for a, t in prods if all(self.guard(inst, k) == v for k, v in a.items())]
        if len(sel) != 1:
            raise AnalysisError(f"C02: {len(sel)} printer productions match an instance of {c}")
        return self.term_text(inst, sel[0])

    def term_text(self, inst, term):
        out = ""
        for a in term:
            k = a[0]
            if k == "lit":
                out += a[1]
            elif k == "field":
                v = inst[a[1]]
                out += v if isinstance(v, str) else str(v)
            elif k == "rep":
                out += a[1] * int(inst[a[2][5:]])
            elif k == "enctok":
                out += self.enctok(inst[a[1][5:]])
            elif k == "str":
                out += str(inst[a[1][5:]])
            elif k == "enc":
                out += self.text(inst[a[1][5:]])
            elif k == "join":
                out += a[1].join(self.text(x) for x in inst[a[2][5:]])
            elif k == "joinx":
                out += a[1].join(self.elem_text(x, a[2]) for x in inst[a[3][5:]])
            elif k == "each":
                for x in inst[a[2][5:]]:
                    out += self.elem_text(x, a[1])
            else:
                raise AnalysisError(f"C02: unknown printer atom {a}")
        return out

    def elem_text(self, x, body):
        out = ""
        for b in body:
            if b[0] == "elem":
                out += self.text(x)
            elif b[0] == "elemraw":
                # raw str(): __str__ of a string parameter is the *unencoded* string, of others encode()
                out += x["string"] if x["__class__"] == "StringActionParameter" else self.text(x)
            elif b[0] == "lit":
                out += b[1]
            else:
                raise AnalysisError(f"C02: unknown element atom {b}")
        return out


def spread(lst, n):
    if len(lst) <= n:
        return list(lst)
    step = len(lst) / n
    return [lst[int(i * step)] for i in range(n)]


def describe(inst):
    if isinstance(inst, list):
        return "[" + ", ".join(describe(x) for x in inst) + "]"
    if not isinstance(inst, dict):
        return repr(inst)
    c = inst["__class__"]
    fs = ", ".join(f"{k}={describe(v)}" for k, v in inst.items() if not k.startswith("__"))
    return f"{c}({fs})"


def shape_key(inst):
    """structural shape (None-ness / emptiness / class) of an instance, without terminal values"""
    if isinstance(inst, list):
        return "[" + ",".join(sorted({shape_key(x) for x in inst})) + ("]" if inst else "empty]")
    if inst is None:
        return "None"
    if not isinstance(inst, dict):
        return "_"
    c = inst["__class__"]
    parts = []
    for k, v in inst.items():
        if k.startswith("__"):
            continue
        if isinstance(v, (list, dict)) or v is None:
            parts.append(f"{k}={shape_key(v)}")
        elif isinstance(v, bool):
            parts.append(f"{k}={v}")
    return f"{c}({';'.join(parts)})"


def rule_printer_subset_parser(chk, rid):
    repo = chk.repo
    chk.rule(rid, "printer <= parser: no constructor shape the parse actions can build prints a text that the parser rejects")
    m = repo.module(P)
    g = Grammar(m)
    px = PrinterExtractor(repo)
    _, env, rows = c03.extract(repo)
    # start rules = the rules parse() calls parseString on
    pf = repo.func(P, "parse")
    starts = [call_recv(c) for c in calls_in(pf) if call_tail(c) in ("parseString", "parse_string")]
    if not starts or any(s not in g.IR for s in starts):
        raise AnalysisError(f"parse(): start rules {starts} not found in the grammar")
    en = Enumerator(repo, g, px, rows, chk.tier)
    n_prod = 0
    for c in NODE_CLASSES:
        n_prod += len(px.productions(c))
    chk.count("printer productions", n_prod)
    chk.floor(rid, n_prod, 20, "printer productions")
    nshape = sum(len(v) for v in en.shapes.values())
    chk.floor(rid, nshape, 10, "constructor shapes in parse actions")
    queries = en.pool("Query", 0)
    chk.floor(rid, len(queries), 50, "query instances")
    seen = {}
    rejected = {}
    for q in queries:
        t = en.text(q)
        if t in seen:
            continue
        seen[t] = q
        if not g.accepts(t, starts):
            rejected.setdefault(culprit(en, g, q, starts), []).append((t, q))
    chk.count("sentences tested", len(seen))
    chk.extra["sentence_samples"] = sorted(seen)[:: max(1, len(seen) // 25)][:25]
    chk.extra["constructor_shapes"] = {c: [{k: (v if isinstance(v, str) else f"CONST {v[1]!r}") for k, v in s.items()} for s in ss]
                                       for c, ss in en.shapes.items()}
    # one obligation per (class, shape) of the printer: all sentences of that shape are accepted
    per_shape = {}
    for t, q in seen.items():
        for sk in shapes_in(q):
            per_shape.setdefault(sk, 0)
            per_shape[sk] += 1
    bad_shapes = set(rejected)
    for sk in sorted(per_shape):
        if sk in bad_shapes:
            continue
        chk.ob(rid, f"{P}.{sk[0]}.encode", True, f"shape {sk[1]}: {per_shape[sk]} printed sentences all accepted by the relaxed parser grammar",
               px.method(sk[0], "encode"), m, key="shape:" + sk[1])
    for sk, lst in sorted(rejected.items()):
        t, q = min(lst, key=lambda x: len(x[0]))
        chk.ob(rid, f"{P}.{sk[0]}.encode", False,
               f"shape {sk[1]} prints {t!r} which the parser rejects ({len(lst)} rejected sentences; e.g. {describe(q)[:160]})",
               px.method(sk[0], "encode"), m, key="shape:" + sk[1])


def shapes_in(inst):
    out = set()
    def rec(x):
        if isinstance(x, list):
            for y in x:
                rec(y)
        elif isinstance(x, dict):
            out.add((x["__class__"], local_shape(x)))
            for k, v in x.items():
                if not k.startswith("__"):
                    rec(v)
    rec(inst)
    return out


def local_shape(x):
    parts = []
    for k, v in x.items():
        if k.startswith("__"):
            continue
        if isinstance(v, list):
            parts.append(f"{k}={'EMPTY' if not v else 'NONEMPTY'}")
        elif v is None:
            parts.append(f"{k}=None")
        elif isinstance(v, dict):
            parts.append(f"{k}=set")
        elif isinstance(v, bool):
            parts.append(f"{k}={v}")
        elif k in ("filename",):
            parts.append(f"{k}=set")
    return ",".join(parts)


def culprit(en, g, q, starts):
    """smallest sub-structure responsible: try replacing each node by a minimal sibling is expensive; we blame the
    deepest node whose own printed text is not accepted by any grammar rule while all its children's are."""
    # heuristic: blame the deepest node (pre-order last) such that the sentence obtained by printing the query is
    # rejected and the node's class has a shape with an EMPTY/None field; fall back to the Query itself
    cand = []
    def rec(x):
        if isinstance(x, list):
            for y in x:
                rec(y)
        elif isinstance(x, dict):
            cand.append(x)
            for k, v in x.items():
                if not k.startswith("__"):
                    rec(v)
    rec(q)
    # prefer nodes whose standalone text is rejected by every rule that can derive that class
    RULES = {"ResourceQuerySegment": ["resource_segment_with_header", "resource_path"],
             "TransformQuerySegment": ["segment_with_header", "segment_without_header"],
             "SegmentHeader": ["segment_header", "resource_segment_with_header"],
             "ActionRequest": ["action_request"], "Query": list(starts),
             "StringActionParameter": ["parameter"], "LinkActionParameter": ["parameter"], "ResourceName": ["resource_name"]}
    for x in reversed(cand):
        rules = [r for r in RULES.get(x["__class__"], []) if r in g.IR]
        if rules and not g.accepts(en.text(x), rules):
            return (x["__class__"], local_shape(x))
    return ("Query", local_shape(q))


def rule_class_directed_membership(chk, rid):
    """parse(encode(q)) == q for a one-segment query q = [seg] forces the whole text to be matched by an alternative of
    `query_segment` whose parse action constructs type(seg): the canonical text of a segment must be derivable from a rule
    that builds that kind of segment, not merely from *some* rule (e.g. `-nameR/x` is a fine transformation header but is
    not the text of the resource segment that printed it)."""
    repo = chk.repo
    chk.rule(rid, "class-directed membership: the canonical text of a one-segment query is accepted by a `query_segment` alternative whose "
                  "parse action constructs that segment's class (relaxed grammar: superset, so a rejection is definite)")
    m = repo.module(P)
    g = Grammar(m)
    px = PrinterExtractor(repo)
    _, env, rows = c03.extract(repo)
    if "query_segment" not in g.IR:
        raise AnalysisError("grammar rule query_segment not found")
    by_class = {}
    for alt in g.alternatives(g.IR["query_segment"]):
        if alt.kind != "ref" or alt.kw["name"] not in g.IR:
            continue
        rn = alt.kw["name"]
        for a in g.IR[rn].kw.get("actions", []):
            fn = m.functions.get(a.id) if isinstance(a, ast.Name) else None
            if fn is None:
                continue
            built = {c.func.id for r in ast.walk(fn) if isinstance(r, ast.Return) and r.value is not None
                     for c in ast.walk(r.value) if isinstance(c, ast.Call) and isinstance(c.func, ast.Name) and c.func.id in NODE_CLASSES}
            for c in built & {"TransformQuerySegment", "ResourceQuerySegment"}:
                by_class.setdefault(c, []).append(rn)
    chk.floor(rid, len(by_class), 2, "segment classes with a constructing query_segment alternative")
    en = Enumerator(repo, g, px, rows, chk.tier)
    n = 0
    bad = {}
    okc = {}
    seen = set()
    for q in en.pool("Query", 0):
        segs = q.get("segments") or []
        if len(segs) != 1 or q.get("absolute"):
            continue
        seg = segs[0]
        c = seg["__class__"]
        if c not in by_class or (c == "ResourceQuerySegment" and seg.get("header") is None):
            continue
        t = en.text(q)
        if (c, t) in seen:
            continue
        seen.add((c, t))
        n += 1
        sk = (c, local_shape(seg), local_shape(seg["header"]) if isinstance(seg.get("header"), dict) else "no header")
        if g.accepts(t, by_class[c]):
            okc[sk] = okc.get(sk, 0) + 1
        else:
            bad.setdefault(sk, []).append(t)
    chk.floor(rid, n, 20, "one-segment sentences")
    chk.count("one-segment sentences tested against their own class's rules", n)
    for sk in sorted(okc):
        if sk not in bad:
            chk.ob(rid, f"{P}.{sk[0]}.encode", True, f"shape {sk[1]} / header {sk[2]}: {okc[sk]} sentences accepted by {by_class[sk[0]]}",
                   px.method(sk[0], "encode"), m, key=f"{sk[1]}|{sk[2]}")
    for sk, ts in sorted(bad.items()):
        chk.ob(rid, f"{P}.{sk[0]}.encode", False, f"shape {sk[1]} / header {sk[2]} prints {min(ts, key=len)!r}, which no rule constructing {sk[0]} "
               f"({', '.join(by_class[sk[0]])}) accepts: it re-parses as a different kind of segment or not at all ({len(ts)} sentences)",
               px.method(sk[0], "encode"), m, key=f"{sk[1]}|{sk[2]}")


def rule_start_rule_priority(chk, rid):
    """parse() tries its start rules in order and keeps the first that accepts the whole text. The first one
    (resource_transform_query) builds a query whose first segment is a header-less *resource* segment. If the canonical text of a
    query of another shape is accepted by that first rule, re-parsing the canonical text denotes a different query.
    The rule needs an *exact* model of the parser here (a superset model could only say 'maybe'): Grammar.exact_end interprets the
    extracted grammar with pyparsing's deterministic semantics. A report is made only with a witness: an accepted spelling of the
    same query (one character of a string argument percent-escaped) that the first start rule rejects, so the query is really
    constructible, canonicalises to the printed text, and that text re-parses through the first rule."""
    repo = chk.repo
    chk.rule(rid, "start-rule priority: the canonical text of a constructible query whose first segment is not a header-less resource "
                  "segment is not accepted by the start rule parse() tries first (exact grammar model, witness spelling required)")
    m = repo.module(P)
    g = Grammar(m)
    px = PrinterExtractor(repo)
    _, env, rows = c03.extract(repo)
    pf = repo.func(P, "parse")
    starts = [call_recv(c) for c in calls_in(pf) if call_tail(c) in ("parseString", "parse_string")]
    if len(starts) < 2 or any(s_ not in g.IR for s_ in starts):
        raise AnalysisError(f"parse(): start rules {starts} not found in the grammar")
    first = starts[0]
    # the class of the first segment the first start rule's action builds
    acts = [a for a in g.IR[first].kw.get("actions", []) if isinstance(a, ast.Name) and a.id in m.functions]
    built_first = set()
    for a in acts:
        fn = m.functions[a.id]
        for st in body_walk(fn):
            if isinstance(st, ast.Assign) and isinstance(st.value, ast.Call) and isinstance(st.value.func, ast.Name) and st.value.func.id in NODE_CLASSES:
                built_first.add((U(st.targets[0]), st.value.func.id, bool(kwarg(st.value, "header"))))
    res_first = {c for _, c, has_header in built_first if c == "ResourceQuerySegment" and not has_header}
    if not res_first:
        raise AnalysisError(f"{first}: the action does not build a header-less ResourceQuerySegment (rule needs re-reading)")
    en = Enumerator(repo, g, px, rows, chk.tier)
    n = 0
    found = {}
    # besides the sampled pool: every header-less transform segment that has a non-empty string argument, followed by every
    # transform segment with a header (the pool's sampling of pairs is too thin to meet this combination)
    base2 = [q for q in en.pool("Query", 0) if len(q.get("segments") or []) == 2 and not q.get("absolute")]
    extra = []
    if base2:
        tsegs = en.pool("TransformQuerySegment", 0, {"owner": "Query"})

        def has_str(x):
            return any(p_["__class__"] == "StringActionParameter" and p_.get("string") for a_ in (x.get("query") or []) for p_ in (a_.get("parameters") or []))
        firsts = [x for x in tsegs if x.get("header") is None and has_str(x)]
        # plain arguments: copies of the simplest one-action header-less segment with its single string argument set to a plain text
        import copy as _copy
        tmpl = sorted((x for x in tsegs if x.get("header") is None and x.get("filename") is None and len(x.get("query") or []) == 1
                       and len(x["query"][0].get("parameters") or []) == 1 and x["query"][0]["parameters"][0]["__class__"] == "StringActionParameter"),
                      key=lambda x: len(en.text(x)))
        for plain in ("A", "1.5", "abc"):
            if tmpl:
                y = _copy.deepcopy(tmpl[0])
                y["query"][0]["parameters"][0]["string"] = plain
                firsts.insert(0, y)
        seconds = [x for x in tsegs if x.get("header") is not None]
        firsts = sorted(firsts, key=lambda x: len(en.text(x)))[:12]
        seconds = sorted(seconds, key=lambda x: len(en.text(x)))[:8]
        for a_ in firsts:
            for b_ in seconds:
                q2 = dict(base2[0])
                q2["segments"] = [a_, b_]
                extra.append(q2)
    for q in list(en.pool("Query", 0)) + extra:
        segs = q.get("segments") or []
        if len(segs) < 2:
            continue
        f = segs[0]
        if f["__class__"] == "ResourceQuerySegment" and f.get("header") is None:
            continue            # the shape the first rule builds
        t = en.text(q)
        n += 1
        if not g.exact_accepts(first, t):
            continue
        # witness: re-spell one character of a string argument of the first segment as %XX
        wit = None
        if f["__class__"] == "TransformQuerySegment":
            ft = en.text(f)
            for act in f.get("query") or []:
                for par in act.get("parameters") or []:
                    if par["__class__"] == "StringActionParameter" and par.get("string"):
                        enc = en.text(par)
                        if enc and enc[0].isalnum():
                            spelled = "%%%02X" % ord(enc[0]) + enc[1:]
                            at = ft.find("-" + enc)
                            if at >= 0:
                                ft2 = ft[:at + 1] + spelled + ft[at + 1 + len(enc):]
                                cand = t.replace(ft, ft2, 1) if t.startswith(ft) or t.startswith("/" + ft) else None
                                if cand and not g.exact_accepts(first, cand) and any(g.exact_accepts(s_, cand) for s_ in starts[1:]):
                                    wit = cand
                        if wit:
                            break
                if wit:
                    break
        if wit:
            sk = (f["__class__"], local_shape(f))
            if sk not in found or len(wit) < len(found[sk][0]):
                found[sk] = (wit, t)
    chk.count("multi-segment sentences tested against the first start rule", n)
    chk.floor(rid, n, 20, "multi-segment sentences")
    C = f"{P}.parse"
    if not found:
        chk.ob(rid, C, True, f"no canonical text of another shape is captured by `{first}` ({n} sentences)", pf, m, key=f"priority:{first}")
    for sk, (wit, t) in sorted(found.items()):
        chk.ob(rid, C, False, f"`{wit}` is accepted (by {starts[1]}) as a query starting with a transformation segment; its canonical text `{t}` is "
               f"accepted by `{first}`, which parse() tries first and which builds a query starting with a header-less resource segment: the canonical "
               "text denotes a different query", pf, m, key=f"priority:{first}:{sk[0]}:{sk[1]}")


# --------------------------------------------------------------------------- C02.2
def rule_encode_reads_fields(chk, rid):
    repo = chk.repo
    chk.rule(rid, "encode reads every structural field: each field assigned in __init__ (except position) is read, directly or "
                  "through helper methods, by the class's encode (a field that is not printed makes two different queries share "
                  "one canonical text)")
    m = repo.module(P)
    EXEMPT = {("ExpandedActionParameter", "value")}   # the evaluated value of a link is not part of the query text
    n = 0
    for cname in NODE_CLASSES + ["ExpandedActionParameter"]:
        ci = repo.cls(P, cname)
        fields = set()
        for c in ci.mro():
            init = c.methods.get("__init__")
            if init:
                for st in body_walk(init):
                    if isinstance(st, ast.Assign):
                        for t in st.targets:
                            if U(t).startswith("self.") and U(t).count(".") == 1:
                                fields.add(U(t)[5:])
                break
        fields.discard("position")
        read = set()
        seen = set()
        stack = ["encode"]
        while stack:
            mn = stack.pop()
            if mn in seen:
                continue
            seen.add(mn)
            dc, fn = ci.find_method(mn)
            if fn is None:
                continue
            asserted = {id(y) for st in body_walk(fn) if isinstance(st, ast.Assert) for y in ast.walk(st)}
            for x in body_walk(fn):
                if id(x) in asserted:
                    continue     # a field that is only asserted about is not printed
                if isinstance(x, ast.Attribute) and isinstance(x.value, ast.Name) and x.value.id == "self":
                    if x.attr in fields:
                        read.add(x.attr)
                    elif ci.find_method(x.attr)[1] is not None:
                        stack.append(x.attr)
        for f in sorted(fields):
            if (cname, f) in EXEMPT:
                continue
            n += 1
            chk.ob(rid, f"{P}.{cname}.encode", f in read, f"field `{f}` is printed" if f in read else
                   f"field `{f}` is never read by encode(): structurally different queries canonicalise to one text",
                   ci.find_method("encode")[1], m, key=f"field:{f}")
    chk.floor(rid, n, 15, "structural fields")


# --------------------------------------------------------------------------- C02.3
def rule_parse_all(chk, rid):
    repo = chk.repo
    chk.rule(rid, "both entry points of parse() consume the whole input (parseAll=True): a dropped flag would accept a prefix "
                  "and canonicalise to a different query")
    m = repo.module(P)
    pf = repo.func(P, "parse")
    cs = [c for c in calls_in(pf) if call_tail(c) in ("parseString", "parse_string")]
    chk.floor(rid, len(cs), 2, "parseString calls in parse()")
    for c in cs:
        a = c.args[1] if len(c.args) > 1 else (kwarg(c, "parseAll") or kwarg(c, "parse_all"))
        ok = isinstance(a, ast.Constant) and a.value is True
        chk.ob(rid, f"{P}.parse", ok, f"`{U(c)[:60]}` parses the whole string", c, m, key="parseAll:" + (call_recv(c) or ""))
    starts = [call_recv(c) for c in cs]
    chk.ob(rid, f"{P}.parse", starts[:1] == ["resource_transform_query"] and "parse_query" in starts,
           f"entry rules tried in order {starts}", pf, m, key="entry-order")


# --------------------------------------------------------------------------- C02.4
def rule_identity_is_canonical(chk, rid):
    repo = chk.repo
    chk.rule(rid, "identity = canonical text: to_query returns (text, parse(text)) / (q.encode(), q); the cache key, every "
                  "state.query label on an exit of evaluate and parent_query derive from <Query>.encode()")
    from . import cachefam as F
    ev = F.Evaluate(repo)
    cm = ev.mod
    C = "liquer.context.Context.evaluate"
    tq = repo.func("liquer.context", "Context.to_query")
    rets = returns_of(tq)
    ok = 0
    for r in rets:
        v = r.value
        if isinstance(v, ast.Tuple) and len(v.elts) == 2:
            a, b = U(v.elts[0]), U(v.elts[1])
            if (a, b) in (("query", "parse(query)"), ("query.encode()", "query"), ("''", "Query()")):
                ok += 1
    chk.ob(rid, "liquer.context.Context.to_query", ok == len(rets) and ok >= 2, "returns (text, parse(text)) / (q.encode(), q)", tq, cm, key="to_query")
    g = ev.one(ev.get_calls, "cache lookup")
    chk.ob(rid, C, g.args and U(g.args[0]) == f"{ev.queryvar}.encode()", f"cache lookup key is `{U(g.args[0]) if g.args else None}`", g, cm, key="cache-key")
    labels = [n for n in body_walk(ev.fn) if isinstance(n, ast.Assign) and any(U(t) == "state.query" for t in n.targets)]
    chk.floor(rid, len(labels), 4, "state.query assignments")
    for a in labels:
        chk.ob(rid, C, U(a.value) == f"{ev.queryvar}.encode()", f"state.query = `{U(a.value)}`", a, cm, key="label")
    pq = [n for n in body_walk(ev.fn) if isinstance(n, ast.Assign) and any(U(t) == "self.parent_query" for t in n.targets)]
    chk.floor(rid, len(pq), 2, "parent_query assignments")
    for a in pq:
        chk.ob(rid, C, U(a.value) in (f"{ev.pvar}.encode()", "''"), f"parent_query = `{U(a.value)}`", a, cm, key="parent:" + U(a.value))


def rule_token_canonicalisation(chk, rid):
    """C02.5: canonicalisation is idempotent at token level - the reader/writer agreement premises of C03 that the
    fixed point parse(encode(parse(t))) == parse(t) needs (writer applies the table then quotes once; every writer code
    is read back to its source; the reader unquotes exactly once on the joined tokens; expansions are percent-free)."""
    from ..core import Check
    from ..core import run_rules
    sub = Check("C03", chk.repo, chk.tier)
    errs = run_rules(c03, sub)
    chk.rule(rid, "token-level canonicalisation is idempotent: premises T4, T6, T9, T13, T14, T16 of the C03 lemma hold "
                  "(writer = table then quote; each writer code read back to its source; unquote exactly once on the joined "
                  "tokens; expansions percent-free; link entity only at parameter start)")
    keep = {"C03.T4", "C03.T6", "C03.T9", "C03.T13", "C03.T14", "C03.T16"}
    n = 0
    for o in sub.obs:
        if o.rule in keep:
            n += 1
            no = chk.ob(rid, o.construct, o.ok, f"[{o.rule[4:]}] {o.what}", key=f"{o.rule[4:]}:{o.key}", nontrivial=o.nontrivial)
            no.loc = o.loc
    if errs:
        # obligations already copied stay; the part of the lemma that could not be analysed is reported (exit 2 unless a violation was found)
        raise AnalysisError("; ".join(errs[:2]))
    chk.floor(rid, n, 20, "token-level premises")


def run(chk):
    rule_printer_subset_parser(chk, "C02.1")
    rule_encode_reads_fields(chk, "C02.2")
    rule_parse_all(chk, "C02.3")
    rule_token_canonicalisation(chk, "C02.5")
    chk.assumptions += ["relaxed CFG reading of the pyparsing grammar accepts a superset of the real parser's language "
                        "(ordered choice -> union, greedy -> any split, look-ahead -> epsilon)",
                        "urllib.parse.quote (stdlib) models the library call made by encode_token (shape checked by C03.T4)"]
    X.rule_printer_injective(chk, "C02.6")
    rule_class_directed_membership(chk, "C02.7")
    rule_start_rule_priority(chk, "C02.8")
