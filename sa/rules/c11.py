"""C11 - state types serialise and deserialise losslessly (table/agreement clauses)."""
import ast
from ..core import (AnalysisError, U, calls_in, call_tail, call_recv, call_name, body_walk, kwarg, const_str)
from ..cfg import CFG
from ..lib import (params, returns_of, is_none_const)
from . import c10

from . import extra as X

EXPLANATION = ("Per state type the writer's and the reader's extension tables are extracted from as_bytes/from_bytes; the default "
               "extension must be in both (armed for the five types of state_types.py and DataframeStateType, all shipped types in "
               "the thorough tier as cross-reference). Identifiers are string constants, unique over all shipped types, and the same "
               "registry resolves them on both sides. The hand-built djson text interpolates only escaped / base64 / identifier "
               "text; the element triple is written in the order it is unpacked; writers of the lossless binary frame formats pass "
               "no information-dropping option; copy() is fresh. NOT decided: value equality after a round trip.")
ST = "liquer.state_types"
ARMED = c10.ARMED_TYPES
ALL = "<every extension>"


def ext_table(fn):
    """Extensions a method accepts: constants compared against the `extension` parameter (== / in), through `assert` too.
    Returns (set or ALL, has_default_idiom)."""
    ep = "extension"
    if ep not in params(fn):
        raise AnalysisError(f"{fn.name}: no `extension` parameter")
    exts = set()
    tested = False
    for n in body_walk(fn):
        if isinstance(n, ast.Compare) and len(n.ops) == 1 and U(n.left) == ep:
            c = n.comparators[0]
            if isinstance(n.ops[0], ast.Eq) and const_str(c) is not None:
                exts.add(c.value)
                tested = True
            elif isinstance(n.ops[0], ast.In) and isinstance(c, (ast.List, ast.Tuple, ast.Set)):
                for e in c.elts:
                    if const_str(e) is not None:
                        exts.add(e.value)
                tested = True
    default_idiom = any(isinstance(s, ast.If) and U(s.test) == f"{ep} is None" and any("default_extension()" in U(x) for x in s.body) for s in body_walk(fn))
    if not tested:
        return ALL, default_idiom
    return exts, default_idiom


def default_ext(ci):
    dc, fn = ci.find_method("default_extension")
    if fn is None:
        return None
    rets = returns_of(fn)
    if len(rets) == 1 and const_str(rets[0].value) is not None:
        return rets[0].value.value
    return None


def all_state_types(repo):
    out = []
    for ci in repo.all_classes():
        if ci.name != "StateType" and ci.is_subclass_of("StateType"):
            out.append(ci)
    return out


def rule_tables(chk, rid, armed=True):
    repo = chk.repo
    chk.rule(rid, "writer/reader format tables agree on the default: for every armed state type default_extension() is a constant "
                  "accepted by both as_bytes and from_bytes")
    table = {}
    types = [repo.cls(m, c) for m, c in ARMED]
    for ci in types:
        mod = ci.module
        de = default_ext(ci)
        dcw, w = ci.find_method("as_bytes")
        dcr, r = ci.find_method("from_bytes")
        if w is None or r is None or dcw.name == "StateType" or dcr.name == "StateType":
            chk.ob(rid, ci.qual, False, "as_bytes/from_bytes not implemented", ci.node, mod, key="impl")
            continue
        W, _ = ext_table(w)
        R, _ = ext_table(r)
        table[ci.qual] = {"default": de, "W": sorted(W) if W != ALL else ALL, "R": sorted(R) if R != ALL else ALL,
                          "write_only": sorted(W - R) if W != ALL and R != ALL else []}
        chk.ob(rid, f"{ci.qual}.default_extension", de is not None, f"default extension is the constant {de!r}", ci.node, mod, key="const")
        chk.ob(rid, f"{ci.qual}.as_bytes", W == ALL or de in W, f"writer accepts the default {de!r} (W = {table[ci.qual]['W']})" if (W == ALL or de in W) else
               f"default extension {de!r} is not a format as_bytes can write (W = {sorted(W)}): caches, recipe stores and saved results fail", w, mod, key="default-in-W")
        chk.ob(rid, f"{ci.qual}.from_bytes", R == ALL or de in R, f"reader accepts the default {de!r} (R = {table[ci.qual]['R']})" if (R == ALL or de in R) else
               f"default extension {de!r} cannot be read back (R = {sorted(R)}): every cache hit of this type fails to decode", r, mod, key="default-in-R")
    chk.extra["format_tables"] = table
    chk.floor(rid, len(types), 6, "armed state types")


def rule_identifiers(chk, rid):
    repo = chk.repo
    chk.rule(rid, "identifiers select one decoder: identifier() of every shipped state type is a string constant, unique across "
                  "liquer/ and liquer/ext/; encode_state_data returns the identifier of the type that produced the bytes; "
                  "decode_state_data resolves through the same registry; register() files a type under its qualified name and its identifier")
    ids = {}
    types = all_state_types(repo)
    chk.floor(rid, len(types), 15, "shipped state types")
    for ci in types:
        dc, fn = ci.find_method("identifier")
        rets = returns_of(fn) if fn is not None else []
        v = rets[0].value.value if len(rets) == 1 and const_str(rets[0].value) is not None else None
        ok = v is not None and dc.name != "StateType"
        repo.consulted.add(ci.module.name)
        chk.ob(rid, f"{ci.qual}.identifier", ok, f"identifier is the constant {v!r}", fn or ci.node, ci.module, key="const")
        if v is not None:
            ids.setdefault(v, []).append(ci.qual)
    for v, owners in sorted(ids.items()):
        chk.ob(rid, owners[0], len(owners) == 1, f"identifier {v!r} is unique" if len(owners) == 1 else
               f"identifier {v!r} is shared by {owners}: the registry keeps only the last one, bytes written by one type are decoded by another",
               repo.cls(*owners[0].rsplit(".", 1)).node, repo.cls(*owners[0].rsplit(".", 1)).module, key=f"unique:{v}")
        chk.ob(rid, owners[0], "." not in v, f"identifier {v!r} cannot clash with a qualified type name", repo.cls(*owners[0].rsplit(".", 1)).node,
               repo.cls(*owners[0].rsplit(".", 1)).module, key=f"noclash:{v}", nontrivial=False)
    m = repo.module(ST)
    enc = repo.func(ST, "encode_state_data")
    txt = U(enc)
    tv = None
    for s in body_walk(enc):
        if isinstance(s, ast.Assign) and isinstance(s.value, ast.Call) and call_tail(s.value) == "get" and "type(data)" in U(s.value):
            tv = U(s.targets[0])
    ok = tv is not None and f"{tv}.as_bytes(data, extension=extension)" in txt and any(
        isinstance(r.value, ast.Tuple) and U(r.value.elts[-1]) == f"{tv}.identifier()" for r in returns_of(enc))
    chk.ob(rid, f"{ST}.encode_state_data", ok, "bytes and identifier come from the same state type object", enc, m, key="encode-same-type")
    dec = repo.func(ST, "decode_state_data")
    ok = "state_types_registry().get(type_identifier)" in U(dec) and "from_bytes(b, extension=extension)" in U(dec)
    chk.ob(rid, f"{ST}.decode_state_data", ok, "decoder is looked up by the recorded identifier and given the extension", dec, m, key="decode-by-id")
    reg = repo.func(ST, "StateTypesRegistry.register")
    t = U(reg)
    ok = "self.state_types_dictionary[type_qualname] = state_type" in t and "self.state_types_dictionary[state_type.identifier()] = state_type" in t
    chk.ob(rid, f"{ST}.StateTypesRegistry.register", ok, "registered under the qualified name and under the identifier", reg, m, key="register-both")


def rule_djson_injection(chk, rid):
    repo = chk.repo
    chk.rule(rid, "the line-oriented dictionary format is injection-free: every non-constant text interpolated into the hand-built "
                  "JSON of DictStateType.as_bytes / encode_element is a json.dumps(...) result, base64 text, or an identifier / "
                  "default_extension constant")
    m = repo.module(ST)
    ci = repo.cls(ST, "DictStateType")
    n = 0

    def safe(expr, fn):
        if isinstance(expr, ast.Constant):
            return True, "constant"
        if isinstance(expr, ast.Call):
            nm = call_name(expr) or ""
            if nm == "json.dumps":
                return True, "json.dumps"
            if call_tail(expr) in ("identifier", "default_extension"):
                return True, "identifier/extension constant (checked unique and literal by C11.2)"
            if nm == "self.encode_element":
                return True, "encode_element (checked separately)"
            if call_tail(expr) == "decode" and isinstance(expr.func.value, ast.Call) and "b64encode" in (call_name(expr.func.value) or ""):
                return True, "base64"
        if isinstance(expr, ast.Name):
            defs = [s for s in body_walk(fn) if isinstance(s, ast.Assign) and U(s.targets[0]) == expr.id]
            if defs and all(safe(d.value, fn)[0] for d in defs):
                return True, "local holding " + safe(defs[0].value, fn)[1]
            return False, f"raw value of `{expr.id}`"
        if isinstance(expr, ast.JoinedStr):
            for v in expr.values:
                if isinstance(v, ast.FormattedValue):
                    ok, why = safe(v.value, fn)
                    if not ok:
                        return False, why
            return True, "f-string of safe parts"
        return False, f"`{U(expr)[:40]}`"

    for mn in ("as_bytes", "encode_element"):
        fn = ci.methods.get(mn)
        if fn is None:
            raise AnalysisError(f"DictStateType.{mn} missing")
        for node in body_walk(fn):
            parts = []
            if isinstance(node, ast.BinOp) and isinstance(node.op, ast.Mod) and isinstance(node.left, ast.Constant) and isinstance(node.left.value, str):
                parts = node.right.elts if isinstance(node.right, ast.Tuple) else [node.right]
            elif isinstance(node, ast.JoinedStr) and any('"' in v.value for v in node.values if isinstance(v, ast.Constant)):
                parts = [v.value for v in node.values if isinstance(v, ast.FormattedValue)]
                # handled when it is itself a part of a % expression
            else:
                continue
            for p in parts:
                if isinstance(node, ast.JoinedStr):
                    ok, why = safe(p, fn)
                else:
                    ok, why = safe(p, fn)
                n += 1
                chk.ob(rid, f"{ci.qual}.{mn}", ok, f"interpolates {why}" if ok else
                       f"interpolates {why} into JSON text without escaping: a key/text containing '\"' or '\\' yields invalid or different JSON",
                       p, m, key=f"interp:{U(p)[:40]}")
    chk.floor(rid, n, 3, "interpolations into djson text")


def rule_element_triple(chk, rid):
    repo = chk.repo
    chk.rule(rid, "element triple agrees: encode_element writes [identifier, extension, base64] in the positional order decode_element "
                  "unpacks, with the extension that was passed to as_bytes")
    m = repo.module(ST)
    ci = repo.cls(ST, "DictStateType")
    en = ci.methods["encode_element"]
    de = ci.methods["decode_element"]
    order_w = None
    for node in body_walk(en):
        if isinstance(node, ast.BinOp) and isinstance(node.op, ast.Mod) and isinstance(node.right, ast.Tuple) and len(node.right.elts) == 3:
            kinds = []
            for e in node.right.elts:
                t = U(e)
                kinds.append("identifier" if "identifier()" in t else "extension" if "extension" in t else "base64" if t in ("txt",) or "b64" in t else t)
            order_w = kinds
        if isinstance(node, ast.JoinedStr) and order_w is None:
            fvs = [v for v in node.values if isinstance(v, ast.FormattedValue)]
            if len(fvs) == 3 and node.values and isinstance(node.values[0], ast.Constant) and str(node.values[0].value).startswith("["):
                kinds = []
                for v in fvs:
                    t = U(v.value)
                    kinds.append("identifier" if "identifier()" in t else "extension" if "extension" in t else "base64" if t in ("txt",) or "b64" in t else t)
                order_w = kinds
    order_r = None
    for s in body_walk(de):
        if isinstance(s, ast.Assign) and isinstance(s.targets[0], ast.Tuple) and len(s.targets[0].elts) == 3:
            names = [U(e) for e in s.targets[0].elts]
            order_r = ["identifier" if "identifier" in n else "extension" if "extension" in n else "base64" if "64" in n else n for n in names]
    chk.ob(rid, f"{ci.qual}.encode_element", order_w == order_r == ["identifier", "extension", "base64"],
           f"written order {order_w}, unpacked order {order_r}", en, m, key="order")
    asb = [c for c in calls_in(en, tail="as_bytes")]
    ok = len(asb) == 1 and U(kwarg(asb[0], "extension")) == "extension" and any(isinstance(s, ast.Assign) and U(s.targets[0]) == "extension" and "default_extension()" in U(s.value) for s in body_walk(en))
    chk.ob(rid, f"{ci.qual}.encode_element", ok, "the recorded extension is the one passed to as_bytes", en, m, key="same-extension")
    dd = [c for c in calls_in(de) if call_name(c) == "decode_state_data"]
    ok = len(dd) == 1 and [U(a) for a in dd[0].args] == ["b", "type_identifier", "extension"]
    chk.ob(rid, f"{ci.qual}.decode_element", ok, "decode_state_data(bytes, identifier, extension) uses the unpacked triple", de, m, key="decode-args")


DROPPING = {"index": False}
LOSSLESS_FRAME = {"pickle", "pkl", "parquet", "feather"}


def rule_lossless_writers(chk, rid):
    repo = chk.repo
    chk.rule(rid, "writer/reader option symmetry for the lossless frame formats (pickle, parquet, feather): the writer passes no "
                  "information-dropping option (index=False) that the reader cannot undo")
    ci = repo.cls("liquer.ext.lq_pandas", "DataframeStateType")
    mod = ci.module
    fn = ci.methods["as_bytes"]
    n = 0
    def branches(stmts):
        for s in stmts:
            if isinstance(s, ast.If):
                yield s
                yield from branches(s.orelse)
    for br in branches(fn.body):
        exts = set()
        for c in ast.walk(br.test):
            if isinstance(c, ast.Compare) and U(c.left) == "extension":
                cc = c.comparators[0]
                if const_str(cc) is not None:
                    exts.add(cc.value)
                elif isinstance(cc, (ast.Tuple, ast.List)):
                    exts |= {e.value for e in cc.elts if isinstance(e, ast.Constant)}
        if not (exts & LOSSLESS_FRAME):
            continue
        for st in br.body:
            called = set()
            for c in ast.walk(st):       # ast.walk: also inside a lambda handed to a helper
                if isinstance(c, ast.Call) and (call_tail(c) or "").startswith("to_"):
                    called.add(id(c.func))
                    n += 1
                    bad = [k.arg for k in c.keywords if k.arg in DROPPING and isinstance(k.value, ast.Constant) and k.value.value == DROPPING[k.arg]]
                    chk.ob(rid, f"{ci.qual}.as_bytes", not bad, f"`{U(c)[:60]}` keeps the whole frame" if not bad else
                           f"`{U(c)[:60]}` drops {bad} in a format the property counts as lossless ({sorted(exts)}): row labels are lost on the round trip",
                           c, mod, key=f"writer:{sorted(exts)[0]}")
            for a in ast.walk(st):       # a bound writer passed along uncalled (`helper(data.to_feather)`): no options at all
                if isinstance(a, ast.Attribute) and a.attr.startswith("to_") and id(a) not in called and isinstance(a.ctx, ast.Load):
                    n += 1
                    chk.ob(rid, f"{ci.qual}.as_bytes", True, f"`{U(a)}` is handed on without options", a, mod, key=f"writer:{sorted(exts)[0]}")
    chk.floor(rid, n, 3, "lossless frame writers")


def run(chk):
    rule_tables(chk, "C11.1")
    rule_identifiers(chk, "C11.2")
    rule_djson_injection(chk, "C11.3")
    rule_element_triple(chk, "C11.4")
    c10.rule_type_copy(chk, "C11.5")
    rule_lossless_writers(chk, "C11.6")
    X.rule_element_receivers(chk, "C11.7")
    X.rule_json_type_registrations(chk, "C11.8")
    X.rule_charset_agreement(chk, "C11.9")


def run_thorough(chk):
    """cross-reference: the same table rule over every shipped state type (never affects the exit code)"""
    repo = chk.repo
    armed = {f"{m}.{c}" for m, c in ARMED}
    for ci in all_state_types(repo):
        if ci.qual in armed:
            continue
        try:
            de = default_ext(ci)
            dcw, w = ci.find_method("as_bytes")
            dcr, r = ci.find_method("from_bytes")
            if w is None or r is None or dcw.name == "StateType" or dcr.name == "StateType":
                chk.xref(f"{ci.qual}: as_bytes/from_bytes not both implemented")
                continue
            W, _ = ext_table(w)
            R, _ = ext_table(r)
            if W != ALL and de not in W:
                chk.xref(f"{ci.qual}: default extension {de!r} is not writable (W = {sorted(W)})")
            if R != ALL and de not in R:
                chk.xref(f"{ci.qual}: default extension {de!r} is not readable (R = {sorted(R)})")
            dc, cp = ci.find_method("copy")
            if cp is not None and any(U(x.value) == params(cp)[1] for x in returns_of(cp)):
                chk.xref(f"{ci.qual}.copy returns its argument")
        except AnalysisError as e:
            chk.xref(f"{ci.qual}: {e}")
