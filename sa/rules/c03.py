"""C03 - any text is a safe argument: premises T1..T16 of the round-trip lemma (DESIGN.md, C03),
re-established from the current source of liquer/parser.py on every run."""
import ast
import re
import string
from ..core import (AnalysisError, U, calls_in, call_tail, call_recv, call_name, body_walk, kwarg)
from ..grammar import Grammar, lambda_const_result
from ..lib import returns_of, params

EXPLANATION = ("Premise discharge of a paper lemma: with E = quote . r_n ... r_1 (ESCAPE_SEQUENCES) and D either decoder, "
               "T1..T16 imply D(E(x)) == x for every string x, E(x) in [A-Za-z0-9_.~%]* and E(x) free of both separators. "
               "Each premise is decided on the tables / grammar IR / function shapes extracted from liquer/parser.py.")
P = "liquer.parser"


def fold(e, env):
    if isinstance(e, ast.Constant) and isinstance(e.value, str):
        return e.value
    if isinstance(e, ast.Name) and e.id in env:
        return env[e.id]
    if isinstance(e, ast.BinOp) and isinstance(e.op, ast.Add):
        a, b = fold(e.left, env), fold(e.right, env)
        if a is not None and b is not None:
            return a + b
    return None


def extract(repo):
    m = repo.module(P)
    env = {}
    for name, vals in m.assigns.items():
        if len(vals) == 1:
            v = fold(vals[0], env)
            if v is not None:
                env[name] = v
    for k in ("COMMAND_SEPARATOR", "PARAMETER_SEPARATOR", "ESCAPE"):
        if k not in env:
            raise AnalysisError(f"{P}.{k} is not a foldable string constant")
    if "ESCAPE_SEQUENCES" not in m.assigns or len(m.assigns["ESCAPE_SEQUENCES"]) != 1:
        raise AnalysisError("ESCAPE_SEQUENCES: expected exactly one module-level definition")
    t = m.assigns["ESCAPE_SEQUENCES"][0]
    if not isinstance(t, (ast.List, ast.Tuple)):
        raise AnalysisError("ESCAPE_SEQUENCES is not a list literal")
    rows = []
    for el in t.elts:
        if not (isinstance(el, ast.Tuple) and len(el.elts) == 2):
            raise AnalysisError(f"ESCAPE_SEQUENCES row `{U(el)}` is not a pair")
        s, c = fold(el.elts[0], env), fold(el.elts[1], env)
        if s is None or c is None:
            raise AnalysisError(f"ESCAPE_SEQUENCES row `{U(el)}` is not foldable")
        rows.append((s, c, el))
    return m, env, rows


def run(chk):
    repo = chk.repo
    m, env, rows = extract(repo)
    ESC, CS, PS = env["ESCAPE"], env["COMMAND_SEPARATOR"], env["PARAMETER_SEPARATOR"]
    g = Grammar(m)
    chk.count("grammar rules extracted", len(g.IR))
    chk.floor("C03", len(rows), 3, "ESCAPE_SEQUENCES rows")
    chk.floor("C03", len(g.IR), 20, "grammar rules")
    T = m.assigns["ESCAPE_SEQUENCES"][0]
    C = f"{P}.ESCAPE_SEQUENCES"
    R = lambda i, txt: chk.rule(f"C03.T{i}", txt)

    # ---------------- T1
    R(1, "row 0 of ESCAPE_SEQUENCES is (ESCAPE, ESCAPE+ESCAPE): every source escape character is doubled first")
    chk.ob("C03.T1", C, len(ESC) == 1 and rows[0][0] == ESC and rows[0][1] == ESC + ESC,
           f"row 0 is {rows[0][:2]!r}", rows[0][2], m, key="row0")
    # ---------------- T2
    R(2, "rows >= 1: source non-empty and escape-free; code is ESCAPE + one letter != ESCAPE; codes pairwise distinct")
    codes = [c for _, c, _ in rows]
    for i, (s, c, el) in enumerate(rows[1:], 1):
        ok = len(s) > 0 and ESC not in s and len(c) == 2 and c[0] == ESC and c[1] != ESC
        chk.ob("C03.T2", C, ok, f"row {i} {s!r} -> {c!r} well formed", el, m, key=f"row:{s}")
    chk.ob("C03.T2", C, len(set(codes)) == len(codes), "codes are pairwise distinct", T, m, key="distinct")
    srcs = [s for s, _, _ in rows]
    chk.ob("C03.T2", C, len(set(srcs)) == len(srcs), "sources are pairwise distinct", T, m, key="distinct-src")
    # ---------------- T3
    R(3, "for rows j < i (both >= 1): source_i does not start with the code letter of row j (a later pattern can never "
         "match starting inside an earlier insertion)")
    for i in range(1, len(rows)):
        for j in range(1, i):
            si, cj = rows[i][0], rows[j][1]
            chk.ob("C03.T3", C, not (len(cj) == 2 and si[:1] == cj[1]), f"source {si!r} vs earlier code {cj!r}", rows[i][2], m,
                   key=f"{rows[j][0]}<{si}", nontrivial=False)
    # ---------------- T4
    R(4, "encode_token applies exactly the table in order (token.replace(source, code)) and returns quote(token) "
         "(default safe or a safe set without separators), optionally followed by %7E -> ~ replacements; nothing else")
    et = repo.func(P, "encode_token")
    tok = params(et)[0]
    from ..core import is_noop_stmt
    body = [s for s in et.body if not is_noop_stmt(s)]
    ok = len(body) == 2 and isinstance(body[0], ast.For) and isinstance(body[1], ast.Return)
    if ok:
        f = body[0]
        ok = U(f.iter) == "ESCAPE_SEQUENCES" and isinstance(f.target, ast.Tuple) and len(f.target.elts) == 2 \
            and len(f.body) == 1 and isinstance(f.body[0], ast.Assign) \
            and U(f.body[0]) == f"{tok} = {tok}.replace({U(f.target.elts[0])}, {U(f.target.elts[1])})" and not f.orelse
    chk.ob("C03.T4", f"{P}.encode_token", ok, "loop applies token.replace(source, code) for each table row in order", et, m, key="loop")
    ret = body[-1].value if isinstance(body[-1], ast.Return) else None
    chain = []
    base = ret
    while isinstance(base, ast.Call) and call_tail(base) == "replace" and isinstance(base.func, ast.Attribute):
        chain.append(base)
        base = base.func.value
    okq = isinstance(base, ast.Call) and call_name(base) in ("quote", "urllib.parse.quote") and len(base.args) == 1 and U(base.args[0]) == tok
    safe = None
    if okq:
        sk = kwarg(base, "safe")
        if sk is not None:
            safe = sk.value if isinstance(sk, ast.Constant) and isinstance(sk.value, str) else "<dynamic>"
    row_srcs1 = {s for s, _, _ in rows if len(s) == 1}
    safe_ok = safe is None or (safe != "<dynamic>" and all(ch in row_srcs1 for ch in safe))
    chk.ob("C03.T4", f"{P}.encode_token", okq and safe_ok,
           f"returns quote(token{'' if safe is None else ', safe=' + repr(safe)})" if okq else f"return expression is `{U(ret)[:60]}`",
           et, m, key="quote")
    for c in chain:
        a = [x.value if isinstance(x, ast.Constant) else (env.get(x.id) if isinstance(x, ast.Name) and isinstance(env.get(x.id), str) else None) for x in c.args]
        chk.ob("C03.T4", f"{P}.encode_token", len(a) == 2 and a[1] == ESC and isinstance(a[0], str) and a[0].upper() == "%%%02X" % ord(ESC),
               f"post-quote replacement {a!r} only restores the escape character", c, m, key=f"post:{a[0]}")
    # ---------------- T5
    R(5, "COMMAND_SEPARATOR and PARAMETER_SEPARATOR are each the 1-character source of a table row; no code letter is a separator")
    for name, sep in (("COMMAND_SEPARATOR", CS), ("PARAMETER_SEPARATOR", PS)):
        chk.ob("C03.T5", C, len(sep) == 1 and sep in srcs, f"{name} {sep!r} is escaped by a row", T, m, key=f"sep:{name}")
    for s, c, el in rows[1:]:
        chk.ob("C03.T5", C, c[1:] not in (CS, PS), f"code {c!r} does not contain a separator", el, m, key=f"codesep:{s}", nontrivial=False)
    chk.ob("C03.T5", C, ESC not in (CS, PS) and "%" not in (CS, PS, ESC), "escape / percent are not separators", T, m, key="esc-not-sep")

    # ---------------- reader anatomy
    if "parameter" not in g.IR:
        raise AnalysisError("grammar rule `parameter` not found")
    par = g.IR["parameter"]
    palts = g.alternatives(par)
    star = [a for a in palts if a.kind == "star"]
    if len(star) != 1:
        raise AnalysisError("`parameter` is not `<link> | ZeroOrMore(...)`")
    star = star[0]
    inner = g.alternatives(star.kids[0])
    inner_names = [a.kw.get("name") if a.kind == "ref" else None for a in inner]
    if "entities" not in g.IR:
        raise AnalysisError("grammar rule `entities` not found")
    ents = g.alternatives(g.IR["entities"])
    # inline (anonymous) alternatives get a synthetic rule name so that they are treated like named entities
    ent_rules = []
    for i, a in enumerate(ents):
        if a.kind == "ref":
            ent_rules.append(a.kw["name"])
        else:
            nm = f"<entities#{i}>"
            g.IR[nm] = a
            m.assigns.setdefault(nm, [m.assigns["entities"][0]])
            ent_rules.append(nm)

    def ent_info(name):
        n = g.IR[name]
        acts = n.kw.get("actions", [])
        exp = lambda_const_result(acts[0]) if len(acts) == 1 else None
        return n, exp

    # ---------------- T6
    R(6, "every writer code has a reader entity Literal(code) whose parse action returns exactly the row's source; the "
         "entity is an alternative of `entities`, `entities` is an alternative of the repetition inside `parameter`, and no "
         "earlier alternative of the ordered choice matches at that code")
    chk.ob("C03.T6", f"{P}.parameter", "entities" in inner_names, "`entities` is an alternative of the parameter repetition",
           m.assigns["parameter"][0], m, key="entities-in-parameter")

    def matches_at(node, code):
        if node.kind == "ref":
            node = g.IR[node.kw["name"]]
        if node.kind == "lit":
            return code.startswith(node.kw["s"]) or node.kw["s"].startswith(code)
        if node.kind == "re":
            return re.match(node.kw["s"], code) is not None or re.match(node.kw["s"], code[:1]) is not None
        if node.kind == "alt":
            return any(matches_at(k, code) for k in g.alternatives(node))
        if node.kind == "seq":
            return matches_at(g.sequence(node)[0], code)
        return True   # unknown shapes are conservatively assumed to match

    for s, c, el in rows:
        mine = None
        for name in ent_rules:
            n, exp = ent_info(name)
            if n.kind == "lit" and n.kw["s"] == c:
                mine = (name, exp)
        if mine is None:
            chk.ob("C03.T6", C, False, f"no reader entity Literal({c!r}) among the alternatives of `entities` "
                   f"(text containing {s!r} cannot be read back)", el, m, key=f"entity:{s}")
            continue
        name, exp = mine
        chk.ob("C03.T6", f"{P}.{name}", exp == s, f"entity {c!r} expands to {exp!r} (writer source is {s!r})",
               m.assigns[name][0], m, key=f"entity:{s}")
        # earlier alternatives
        shadow = None
        ei = inner_names.index("entities") if "entities" in inner_names else len(inner)
        for a in inner[:ei]:
            if matches_at(a, c):
                shadow = U(m.assigns[a.kw["name"]][0])[:40] if a.kind == "ref" else a.kind
        for other in ent_rules[:ent_rules.index(name)]:
            if matches_at(g.IR[other], c):
                shadow = other
        chk.ob("C03.T6", f"{P}.{name}", shadow is None, f"no earlier alternative matches at {c!r}" if shadow is None else
               f"earlier alternative `{shadow}` matches at {c!r} and wins the ordered choice", m.assigns[name][0], m, key=f"order:{s}")
    # ---------------- T7
    R(7, "parameter_text accepts every character of [A-Za-z0-9_.] and none of - / ~ %")
    pt = g.IR.get("parameter_text")
    if pt is None or pt.kind != "re":
        raise AnalysisError("`parameter_text` is not a Regex")
    pat = pt.kw["s"]
    need = string.ascii_letters + string.digits + "_."
    miss = [ch for ch in need if not re.fullmatch(pat, ch)]
    chk.ob("C03.T7", f"{P}.parameter_text", not miss, f"accepts all of [A-Za-z0-9_.] (missing: {miss})", m.assigns["parameter_text"][0], m, key="superset")
    for ch in (PS, CS, ESC, "%"):
        bad = re.fullmatch(pat, ch) or re.fullmatch(pat, "a" + ch) or re.fullmatch(pat, ch + "a")
        chk.ob("C03.T7", f"{P}.parameter_text", not bad, f"rejects {ch!r}", m.assigns["parameter_text"][0], m, key=f"excludes:{ch}")
    chk.ob("C03.T7", f"{P}.parameter", "parameter_text" in inner_names, "`parameter_text` is an alternative of the parameter repetition",
           m.assigns["parameter"][0], m, key="in-parameter")
    # ---------------- T8
    R(8, "percent_encoding accepts '%' followed by two hex digits in both cases, and is an alternative of the repetition")
    pe = g.IR.get("percent_encoding")
    if pe is None or pe.kind != "re":
        raise AnalysisError("`percent_encoding` is not a Regex")
    hexd = "0123456789abcdefABCDEF"
    bad = [a + b for a in hexd for b in hexd if not re.fullmatch(pe.kw["s"], "%" + a + b)]
    chk.ob("C03.T8", f"{P}.percent_encoding", not bad, f"accepts all {len(hexd) ** 2} %XX triplets", m.assigns["percent_encoding"][0], m, key="hex")
    chk.ob("C03.T8", f"{P}.parameter", "percent_encoding" in inner_names, "`percent_encoding` is an alternative of the parameter repetition",
           m.assigns["parameter"][0], m, key="in-parameter")
    # ---------------- T9
    R(9, "the parameter parse action applies unquote exactly once, to the join of all tokens (after entity expansion), and "
         "builds StringActionParameter from that value; no token-level alternative unquotes on its own")
    acts = star.kw.get("actions", [])
    if len(acts) != 1 or not isinstance(acts[0], ast.Name):
        raise AnalysisError("`parameter` repetition has no named parse action")
    pa = repo.func(P, acts[0].id)
    toks = params(pa)[2]
    uq = [c for c in calls_in(pa) if call_tail(c) == "unquote"]
    ok = len(uq) == 1 and len(uq[0].args) == 1 and U(uq[0].args[0]) in (f"''.join({toks})", f'"".join({toks})')
    chk.ob("C03.T9", f"{P}.{pa.name}", ok, "unquote is applied once to ''.join(toks)", pa, m, key="unquote-once")
    okr = False
    for r in returns_of(pa):
        v = r.value
        if isinstance(v, ast.Call) and call_tail(v) == "StringActionParameter" and v.args:
            a0 = v.args[0]
            if uq and (a0 is uq[0] or (isinstance(a0, ast.Name) and any(isinstance(s, ast.Assign) and U(s.targets[0]) == a0.id and s.value is uq[0] for s in body_walk(pa)))):
                okr = True
    chk.ob("C03.T9", f"{P}.{pa.name}", okr, "returns StringActionParameter(<the unquoted join>)", pa, m, key="returns-param")
    for a in inner:
        nm = a.kw.get("name") if a.kind == "ref" else None
        node = g.IR[nm] if nm else a
        subs = [node] + ([g.IR[e] for e in ent_rules] if nm == "entities" else [])
        for sn in subs:
            for act in sn.kw.get("actions", []):
                src = U(act) if not isinstance(act, ast.Name) else U(m.functions.get(act.id, act))
                chk.ob("C03.T9", f"{P}.{nm or '<inline>'}", "unquote" not in src, "token-level parse action does not unquote", m.tree, m,
                       key=f"token-action:{nm}:{src[:30]}", nontrivial=False)
    # ---------------- T10
    R(10, "decode_token inverts the same table (comprehension over ESCAPE_SEQUENCES), slices exactly 2 characters at the "
          "escape, unquotes head+expansion once and never re-unquotes the recursively decoded tail")
    dt = repo.func(P, "decode_token")
    inv = [n for n in body_walk(dt) if isinstance(n, ast.DictComp)]
    table_names = {U(s_.targets[0]) for s_ in body_walk(dt) if isinstance(s_, ast.Assign) and isinstance(s_.value, ast.DictComp)}
    if not inv:
        # the inverse table may be a module-level constant named by decode_token
        for nm_ in ast.walk(dt):
            if isinstance(nm_, ast.Name) and len(m.assigns.get(nm_.id, [])) == 1 and isinstance(m.assigns[nm_.id][0], ast.DictComp):
                inv.append(m.assigns[nm_.id][0])
                table_names.add(nm_.id)
    # alternative idiom, equivalent because the codes are pairwise distinct (T2): X = mid; for source, code in ESCAPE_SEQUENCES:
    # if code == mid: X = source    (then X plays the role of table.get(mid, mid))
    scan_var = None
    for f_ in body_walk(dt):
        if isinstance(f_, ast.For) and U(f_.iter) == "ESCAPE_SEQUENCES" and isinstance(f_.target, ast.Tuple) and len(f_.target.elts) == 2 \
                and len(f_.body) == 1 and isinstance(f_.body[0], ast.If) and not f_.body[0].orelse and not f_.orelse:
            src_v, code_v = U(f_.target.elts[0]), U(f_.target.elts[1])
            t_ = f_.body[0].test
            if isinstance(t_, ast.Compare) and len(t_.ops) == 1 and isinstance(t_.ops[0], ast.Eq) and code_v in (U(t_.left), U(t_.comparators[0])) \
                    and len(f_.body[0].body) == 1 and isinstance(f_.body[0].body[0], ast.Assign) and U(f_.body[0].body[0].value) == src_v:
                mid_txt = U(t_.comparators[0]) if U(t_.left) == code_v else U(t_.left)
                xv = U(f_.body[0].body[0].targets[0])
                inits = [a_ for a_ in body_walk(dt) if isinstance(a_, ast.Assign) and U(a_.targets[0]) == xv and a_ is not f_.body[0].body[0]]
                if len(inits) == 1 and U(inits[0].value) == mid_txt:
                    scan_var = xv
    if scan_var is not None and not inv:
        chk.ob("C03.T10", f"{P}.decode_token", True, f"decode table realised as a scan over ESCAPE_SEQUENCES into `{scan_var}` (default: the escape itself)", dt, m, key="inverse-table")
    ok = len(inv) == 1 and len(inv[0].generators) == 1 and U(inv[0].generators[0].iter) == "ESCAPE_SEQUENCES" \
        and isinstance(inv[0].generators[0].target, ast.Tuple) and U(inv[0].key) == U(inv[0].generators[0].target.elts[1]) \
        and U(inv[0].value) == U(inv[0].generators[0].target.elts[0]) and not inv[0].generators[0].ifs
    if not (scan_var is not None and not inv):
        chk.ob("C03.T10", f"{P}.decode_token", ok, "decode table = {code: source for source, code in ESCAPE_SEQUENCES}", dt, m, key="inverse-table")
    sl = [n for n in body_walk(dt) if isinstance(n, ast.Subscript) and isinstance(n.slice, ast.Slice)]
    mids = [n for n in sl if n.slice.lower is not None and n.slice.upper is not None]
    ok = len(mids) == 1 and U(mids[0].slice.upper) == f"{U(mids[0].slice.lower)} + 2"
    tails = [n for n in sl if n.slice.lower is not None and n.slice.upper is None]
    ok = ok and len(tails) == 1 and U(tails[0].slice.lower) == U(mids[0].slice.upper)
    heads = [n for n in sl if n.slice.lower is None and n.slice.upper is not None]
    ok = ok and len(heads) == 1 and U(heads[0].slice.upper) == U(mids[0].slice.lower)
    idx = [c for c in calls_in(dt, tail="index")] + [c for c in calls_in(dt, tail="find")]
    ok = ok and len(idx) == 1 and U(idx[0].args[0]) == "ESCAPE"
    chk.ob("C03.T10", f"{P}.decode_token", ok, "head / 2-character escape / tail split at the first ESCAPE", dt, m, key="window")
    rec = [c for c in calls_in(dt) if call_name(c) == "decode_token"]
    uqs = [c for c in calls_in(dt) if call_tail(c) == "unquote"]
    nested = any(r is d for u in uqs for d in ast.walk(u) for r in rec)
    chk.ob("C03.T10", f"{P}.decode_token", bool(rec) and not nested,
           "the recursively decoded tail is concatenated outside unquote()" if not nested else
           "the recursively decoded tail is passed through unquote() again: literal text that looks like %XX after an escape is corrupted",
           dt, m, key="no-double-unquote")
    ok = False
    for u in uqs:
        if len(u.args) == 1 and isinstance(u.args[0], ast.BinOp) and isinstance(u.args[0].op, ast.Add):
            l_, r_ = u.args[0].left, u.args[0].right
            # left operand: the slice before the escape (directly or through a local); right: <inverse table>.get(mid, mid)
            left_is_head = (isinstance(l_, ast.Subscript) and isinstance(l_.slice, ast.Slice) and l_.slice.lower is None) or \
                (isinstance(l_, ast.Name) and any(isinstance(s_, ast.Assign) and any(
                    (U(t_) == l_.id and isinstance(s_.value, ast.Subscript) and isinstance(s_.value.slice, ast.Slice) and s_.value.slice.lower is None) or
                    (isinstance(t_, ast.Tuple) and isinstance(s_.value, ast.Tuple) and any(
                        U(te) == l_.id and isinstance(ve, ast.Subscript) and isinstance(ve.slice, ast.Slice) and ve.slice.lower is None
                        for te, ve in zip(t_.elts, s_.value.elts))) for t_ in s_.targets) for s_ in body_walk(dt)))
            right_is_lookup = isinstance(r_, ast.Call) and call_tail(r_) == "get" and call_recv(r_) in table_names and len(r_.args) == 2 \
                and U(r_.args[0]) == U(r_.args[1])
            if scan_var is not None and isinstance(r_, ast.Name) and r_.id == scan_var:
                right_is_lookup = True
            if left_is_head and right_is_lookup:
                ok = True
    chk.ob("C03.T10", f"{P}.decode_token", ok, "unquote(head + expansion) is the decoded prefix", dt, m, key="prefix")
    # ---------------- T11
    R(11, "StringActionParameter.encode returns encode_token(self.string) on every path; ActionRequest.from_arguments wraps plain "
          "values as StringActionParameter(str(p)); to_list/from_list are inverse on string parameters; encode()/decode() "
          "join/split on the two separators and map the token functions")
    se = repo.func(P, "StringActionParameter.encode")
    rets = returns_of(se)
    def is_enc(v):
        if isinstance(v, ast.Call) and call_name(v) == "encode_token" and len(v.args) == 1 and U(v.args[0]) == "self.string":
            return True
        if isinstance(v, ast.Name):
            defs = [s for s in body_walk(se) if isinstance(s, ast.Assign) and U(s.targets[0]) == v.id]
            return len(defs) == 1 and is_enc(defs[0].value)
        return False
    chk.ob("C03.T11", f"{P}.StringActionParameter.encode", bool(rets) and all(is_enc(r.value) for r in rets),
           "every return is encode_token(self.string)" if all(is_enc(r.value) for r in rets) else
           f"a path returns `{[U(r.value) for r in rets if not is_enc(r.value)][0]}` without token encoding", se, m, key="encode")
    fa = repo.func(P, "ActionRequest.from_arguments")
    wraps = [c for c in calls_in(fa) if call_tail(c) == "StringActionParameter"]
    chk.ob("C03.T11", f"{P}.ActionRequest.from_arguments", len(wraps) == 1 and len(wraps[0].args) == 1 and U(wraps[0].args[0]).startswith("str("),
           "plain values are wrapped as StringActionParameter(str(p))", fa, m, key="wrap")
    tl = repo.func(P, "ActionRequest.to_list")
    chk.ob("C03.T11", f"{P}.ActionRequest.to_list", "x.string" in U(tl) or ".string)" in U(tl), "to_list emits the raw string of string parameters", tl, m, key="to_list")
    fl = repo.func(P, "ActionRequest.from_list")
    chk.ob("C03.T11", f"{P}.ActionRequest.from_list", "from_arguments(lst[0], *lst[1:])" in U(fl), "from_list = from_arguments(name, *rest)", fl, m, key="from_list")
    en = repo.func(P, "encode")
    txt = U(en)
    chk.ob("C03.T11", f"{P}.encode", "COMMAND_SEPARATOR.join(" in txt and "PARAMETER_SEPARATOR.join(" in txt and "encode_token(" in txt,
           "encode joins encode_token(token) with the two separators", en, m, key="encode-join")
    de = repo.func(P, "decode")
    txt = U(de)
    chk.ob("C03.T11", f"{P}.decode", ".split(COMMAND_SEPARATOR)" in txt and ".split(PARAMETER_SEPARATOR)" in txt and "decode_token(" in txt,
           "decode splits on the two separators and maps decode_token", de, m, key="decode-split")
    # ---------------- T12 / T15 printer side
    R(12, "programmatic construction passes each argument through unchanged: Query.with_action -> ActionRequest.from_arguments(name, "
          "*parameters); ActionRequest.encode prints `<param>.encode()` joined by the parameter separator")
    wa = repo.func(P, "Query.with_action")
    chk.ob("C03.T12", f"{P}.Query.with_action", "ActionRequest.from_arguments(name, *parameters)" in U(wa), "forwards name and *parameters", wa, m, key="forward")

    def param_uses_encoded(fn, field="self.parameters"):
        """every loop/comprehension variable ranging over `field` is used only as `<var>.encode()` in string building"""
        bad = []
        n_use = 0
        for node in body_walk(fn):
            gens = []
            if isinstance(node, ast.For) and U(node.iter) == field and isinstance(node.target, ast.Name):
                gens.append((node.target.id, node.body))
            if isinstance(node, (ast.GeneratorExp, ast.ListComp)):
                for ge in node.generators:
                    if U(ge.iter) == field and isinstance(ge.target, ast.Name):
                        gens.append((ge.target.id, [node.elt]))
            for var, scope in gens:
                for st in scope:
                    parents = {}
                    for p_ in ast.walk(st):
                        for ch in ast.iter_child_nodes(p_):
                            parents[id(ch)] = p_
                    for x in ast.walk(st):
                        if isinstance(x, ast.Name) and x.id == var:
                            n_use += 1
                            par_ = parents.get(id(x))
                            gp = parents.get(id(par_)) if par_ is not None else None
                            okuse = isinstance(par_, ast.Attribute) and par_.attr == "encode" and isinstance(gp, ast.Call) and gp.func is par_
                            if not okuse:
                                bad.append(x)
        return n_use, bad
    ae = repo.func(P, "ActionRequest.encode")
    n_use, bad = param_uses_encoded(ae)
    chk.ob("C03.T12", f"{P}.ActionRequest.encode", n_use >= 1 and not bad, "parameters are printed as <param>.encode()", ae, m, key="print-param")
    R(15, "the three grammar positions that accept argument text (action arguments, segment-header parameters, resource-header "
          "parameters) reference the single `parameter` rule, and the printer prints `<param>.encode()` at those positions")
    for rname in ("action_request", "segment_header", "resource_segment_with_header"):
        if rname not in g.IR:
            raise AnalysisError(f"grammar rule `{rname}` not found")
        chk.ob("C03.T15", f"{P}.{rname}", "parameter" in g.refs_in(g.IR[rname]), "references the single `parameter` rule", m.assigns[rname][0], m, key=f"ref:{rname}")
    she = repo.func(P, "SegmentHeader.encode")
    n_use, bad = param_uses_encoded(she)
    chk.ob("C03.T15", f"{P}.SegmentHeader.encode", n_use >= 1 and not bad,
           "header parameters are printed as <param>.encode()" if not bad else
           "a header parameter is printed without .encode() (raw text: separators/escapes change the structure)", she, m, key="print-header-param")
    # ---------------- T13
    R(13, "no writer code collides with a reader-only construct (link open/close, negative-number and slash entities): no "
          "other escape-introduced literal or regex of the reader matches at a writer code")
    own = {c for _, c, _ in rows}
    reader_lits = []
    for rn in g.reachable_rules("parameter") | {"end_entity", "expand_entity"}:
        if rn not in g.IR:
            continue
        stack = [g.IR[rn]]
        while stack:
            n = stack.pop()
            if n.kind == "lit" and n.kw["s"].startswith(ESC):
                reader_lits.append((rn, "lit", n.kw["s"]))
            if n.kind == "re" and n.kw["s"].startswith(ESC):
                reader_lits.append((rn, "re", n.kw["s"]))
            stack.extend(n.kids)
    chk.floor("C03.T13", len(reader_lits), len(rows), "escape-introduced reader tokens")
    for s, c, el in rows:
        clash = [(rn, k, v) for rn, k, v in reader_lits
                 if not (k == "lit" and v == c) and ((k == "lit" and (v.startswith(c) or c.startswith(v))) or (k == "re" and re.match(v, c)))]
        chk.ob("C03.T13", C, not clash, f"code {c!r} is not claimed by another reader construct" if not clash else
               f"code {c!r} collides with reader construct {clash[0]}", el, m, key=f"collision:{s}", nontrivial=False)
    # ---------------- T14
    R(14, "no reader expansion contains '%' (expansion happens before the single unquote)")
    for name in ent_rules:
        n, exp = ent_info(name)
        acts = n.kw.get("actions", [])
        if exp is None:
            src = U(acts[0]) if acts else ""
            chk.ob("C03.T14", f"{P}.{name}", "%" not in src, f"non-constant expansion `{src[:40]}` cannot introduce '%'", m.assigns[name][0], m, key=f"exp:{name}", nontrivial=False)
        else:
            chk.ob("C03.T14", f"{P}.{name}", "%" not in exp, f"expansion {exp!r} is percent-free", m.assigns[name][0], m, key=f"exp:{name}", nontrivial=False)
    # ---------------- T16
    R(16, "`parameter` = <link entity> | ZeroOrMore(parameter_text | entities | percent_encoding): the link entity is tried only at "
          "the start of a parameter and opens with the literal ESCAPE+'X'+ESCAPE")
    first = palts[0]
    ok = first.kind == "ref" and first.kw["name"] == "expand_entity" and palts[1] is star
    chk.ob("C03.T16", f"{P}.parameter", ok, "link entity is the first alternative, the repetition the second", m.assigns["parameter"][0], m, key="shape")
    ee = g.IR.get("expand_entity")
    seq = g.sequence(ee) if ee is not None else []
    ok = bool(seq) and seq[0].kind == "lit" and seq[0].kw["s"] == ESC + "X" + ESC
    chk.ob("C03.T16", f"{P}.expand_entity", ok, "opens with the literal '~X~'", m.assigns["expand_entity"][0], m, key="opens")
    chk.ob("C03.T16", f"{P}.parameter", set(n for n in inner_names if n) >= {"parameter_text", "entities", "percent_encoding"} and all(inner_names),
           f"repetition alternatives are {inner_names}", m.assigns["parameter"][0], m, key="alts")
    model_roundtrip(chk, chk.tier)
    chk.assumptions += ["the round-trip lemma of DESIGN.md (C03) is a paper argument (cross-checked on the extracted model by C03.M)", "semantics of str.replace, urllib.parse.quote/unquote, pyparsing Literal/Regex/ZeroOrMore/ordered choice"]


# --------------------------------------------------------------------------- cross-check of the paper lemma on the extracted model
def model_roundtrip(chk, tier):
    """The lemma of DESIGN.md (C03) is a paper argument. As a cross-check of the *lemma* (not of the repository), the
    writer model (extracted rows + urllib.parse.quote) and the reader model (an exact ordered-choice / greedy matcher over
    the extracted alternatives of `parameter`, the constant expansions of the entity actions, then one unquote) are composed
    on every string of up to N atoms over the structurally significant alphabet. The models are built only from the tables
    and grammar IR extracted from the current source."""
    import itertools
    from urllib.parse import quote, unquote
    repo = chk.repo
    m, env, rows = extract(repo)
    g = Grammar(m)
    ESC = env["ESCAPE"]
    rid = "C03.M"
    chk.rule(rid, "lemma cross-check on the extracted model: decode_model(encode_model(x)) == x, the encoded text stays in "
                  "[A-Za-z0-9_.~%]* and contains no separator, for every string of up to N atoms of the significant alphabet")
    par = g.IR["parameter"]
    star = [a for a in g.alternatives(par) if a.kind == "star"][0]
    inner = g.alternatives(star.kids[0])
    # flatten to ordered list of (kind, pattern, expansion-function)
    alts = []
    for a in inner:
        node = g.IR[a.kw["name"]] if a.kind == "ref" else a
        subs = g.alternatives(node)
        for s_ in subs:
            n = g.IR[s_.kw["name"]] if s_.kind == "ref" else s_
            acts = n.kw.get("actions", [])
            exp = lambda_const_result(acts[0]) if len(acts) == 1 else None
            if n.kind == "lit":
                alts.append(("lit", n.kw["s"], exp))
            elif n.kind == "re":
                special = None
                if acts and exp is None:
                    src = U(acts[0])
                    if "'-' + toks[0][1:]" in src.replace('"', "'"):
                        special = "neg"
                    else:
                        raise AnalysisError(f"C03.M: unsupported entity action `{src[:50]}`")
                alts.append(("re", n.kw["s"], special))
            else:
                raise AnalysisError("C03.M: unsupported alternative shape in `parameter`")

    def enc(x):
        for s_, c, _ in rows:
            x = x.replace(s_, c)
        return quote(x).replace("%7E", "~").replace("%7e", "~")

    def dec(t):
        i, out = 0, []
        while i < len(t):
            for kind, pat, exp in alts:
                if kind == "lit":
                    if t.startswith(pat, i):
                        out.append(exp if exp is not None else pat)
                        i += len(pat)
                        break
                else:
                    mt = re.compile(pat).match(t, i)
                    if mt and mt.end() > i:
                        tok = mt.group(0)
                        out.append("-" + tok[1:] if exp == "neg" else tok)
                        i = mt.end()
                        break
            else:
                return None      # the reader stops here: the rest is not part of the parameter
        return unquote("".join(out))

    atoms = [ESC, env["PARAMETER_SEPARATOR"], env["COMMAND_SEPARATOR"], " ", "%", "+", "a", "1", ".", "_", ESC + "_", "%20", "://", "https://",
             "é", ESC + "X" + ESC, ESC + "E", ESC + ESC, "I", "H"]
    N = 2 if tier == "quick" else 3
    bad = []
    n = 0
    allowed = set(string.ascii_letters + string.digits + "_.~%")
    for L in range(0, N + 1):
        for combo in itertools.product(atoms, repeat=L):
            x = "".join(combo)
            e = enc(x)
            n += 1
            if dec(e) != x or not set(e) <= allowed or env["PARAMETER_SEPARATOR"] in e or env["COMMAND_SEPARATOR"] in e:
                bad.append((x, e, dec(e)))
                if len(bad) > 5:
                    break
    chk.count("C03.M strings", n)
    chk.ob(rid, f"{P}.ESCAPE_SEQUENCES", not bad, f"{n} strings of up to {N} atoms round-trip through the extracted writer/reader models" if not bad else
           f"model counter-example: {bad[0][0]!r} -> {bad[0][1]!r} -> {bad[0][2]!r}", m.assigns["ESCAPE_SEQUENCES"][0], m, key="model")


def run_thorough(chk):
    pass
