"""C17 - access boundaries: read-only views refuse writes; directory stores stay in root."""
import ast
from ..core import (AnalysisError, U, calls_in, call_tail, call_recv, call_name, body_walk, kwarg)
from ..cfg import CFG, assigned_value
from ..lib import (params, returns_of, is_none_const, dominating_literals, all_paths_raise, literals_of_test)
from . import storefam as S
from .fsproto import path_class, FINAL, TEMP, UNKNOWN

from . import extra as X

EXPLANATION = ("Two boundary clauses, fully structural: (1) the set of mutating Store-API methods is *derived* from the effect "
               "summaries of the leaf stores, and the read-only view must override each of them with a body that raises on every "
               "path (openbin: on every non-read mode), while nothing reachable on the view forwards a non-read operation to the "
               "wrapped store; (2) every file-system access of FileStore takes its path from the two path constructors, and both "
               "constructors are dominated by a real (non-assert) containment guard covering '..' components, absolute keys and "
               "- for the metadata path - the root key.")
STORE = S.STORE


def rule_readonly_overrides(chk, rid):
    repo = chk.repo
    chk.rule(rid, "read-only view overrides every mutator of the derived set M with a body that raises ReadOnlyStoreException on "
                  "all paths (openbin: every forwarding is dominated by a read-mode test), and overrides no read method")
    mod = repo.module(STORE)
    M = S.derived_mutators(repo)
    chk.extra["derived_mutators"] = {k: [f"{l}: {kind} in {where}" for l, kind, where in v] for k, v in M.items()}
    # reads with write effects are whitelisted by symbol with a reason (DESIGN.md, store family)
    WHITELIST = {"get_metadata": "FileStore removes a key whose metadata JSON is unparsable (recovery path); MemoryStore "
                                 "normalises metadata in place (idempotent)",
                 "keys": "generators only"}
    muts = sorted(m for m in M if m not in WHITELIST)
    chk.floor(rid, len(muts), 6, "derived mutators")
    ro = repo.cls(STORE, "ReadOnlyStore")
    for m in muts:
        fn = ro.methods.get(m)
        if fn is None:
            chk.ob(rid, f"{ro.qual}", False, f"mutator `{m}` is not overridden: the inherited proxy method forwards it to the wrapped "
                   "store", ro.node, mod, key=f"override:{m}")
            continue
        if m == "openbin":
            cfg = CFG(fn)
            fwd = [c for c in calls_in(fn) if (call_recv(c) or "").startswith("self._store")]
            ok = True
            for c in fwd:
                lits = dominating_literals(cfg, cfg.node_of(c))
                modearg = c.args[1] if len(c.args) > 1 else kwarg(c, "mode")
                const_read = isinstance(modearg, ast.Constant) and modearg.value in ("r", "rb")
                guarded = any("mode" in txt and ("'rb'" in txt or "'r'" in txt) and ((("==" in txt or " in " in txt) and pol) or False)
                              for _, txt, pol, _ in lits)
                if not (guarded or const_read):
                    ok = False
            raises = [r for r in cfg.raises() if "ReadOnlyStoreException" in U(cfg.nodes[r].ast)]
            chk.ob(rid, f"{ro.qual}.openbin", ok and bool(raises),
                   "write modes raise; forwarding happens only under a read-mode test", fn, mod, key="override:openbin")
        else:
            chk.ob(rid, f"{ro.qual}.{m}", all_paths_raise(fn, "ReadOnlyStoreException"),
                   "every path raises ReadOnlyStoreException", fn, mod, key=f"override:{m}")
    for m in S.READS:
        chk.ob(rid, f"{ro.qual}", m not in ro.methods, f"read method `{m}` is not overridden (verbatim proxy forwarding applies)",
               ro.node, mod, key=f"no-read-override:{m}", nontrivial=False)


def rule_nothing_else_writes_through(chk, rid):
    repo = chk.repo
    chk.rule(rid, "nothing reachable on the read-only view forwards a non-read operation to the wrapped store: for every method "
                  "the view resolves (own or inherited), calls on self._store are limited to the read API (+ sync/clone/"
                  "finalize_metadata/to_root_key); read_only() wraps exactly once")
    mod = repo.module(STORE)
    ro = repo.cls(STORE, "ReadOnlyStore")
    ALLOWED = set(S.READS) | {"sync", "clone", "to_root_key", "root_store", "finalize_metadata", "default_metadata", "openbin"}
    names = set()
    for c in ro.mro():
        names |= set(c.methods)
    n = 0
    for name in sorted(names):
        dc, fn = ro.find_method(name)
        if name in ("__init__",):
            continue
        fwd = S.forwarded_calls(fn, lambda r: r == "self._store")
        for meth, cs in fwd.items():
            n += 1
            chk.ob(rid, f"{ro.qual}.{name}", meth in ALLOWED,
                   f"`{dc.name}.{name}` calls self._store.{meth}()" + ("" if meth in ALLOWED else
                   ": a non-read operation reaches the wrapped (writable) store through the read-only view"),
                   cs[0], mod, key=f"forward:{name}->{meth}")
        # handing out the wrapped store itself
        for r in returns_of(fn):
            if r.value is not None and U(r.value) == "self._store":
                chk.ob(rid, f"{ro.qual}.{name}", False, "returns the wrapped writable store", r, mod, key=f"leak:{name}")
    chk.floor(rid, n, 8, "forwarded calls on the view")
    mix = repo.cls(STORE, "StoreMixin")
    fn = mix.methods.get("read_only")
    if fn is None:
        raise AnalysisError("StoreMixin.read_only missing")
    rets = returns_of(fn)
    ok = any(U(r.value) == "ReadOnlyStore(self)" for r in rets) and all(U(r.value) in ("ReadOnlyStore(self)", "self") for r in rets)
    chk.ob(rid, f"{mix.qual}.read_only", ok, "read_only() returns ReadOnlyStore(self) (or self when already read-only)", fn, mod, key="wrap-once")


FS_TAILS = {"exists", "is_dir", "is_file", "iterdir", "unlink", "rmdir", "mkdir", "write_bytes", "read_bytes", "write_text",
            "read_text", "resolve", "stat", "glob", "rglob", "touch", "replace", "rename", "open"}


def rule_fs_access_through_constructors(chk, rid):
    repo = chk.repo
    chk.rule(rid, "every file-system access of FileStore takes its path from path_for_key / metadata_path_for_key (possibly via "
                  ".parent, / METADATA, a temporary sibling) - never from the raw key or self.path / key")
    mod = repo.module(STORE)
    fs = repo.cls(STORE, "FileStore")
    n = 0
    for mn, fn in fs.methods.items():
        if mn in ("path_for_key", "metadata_path_for_key", "__init__", "__str__", "__repr__", "clone", "check_key"):
            continue
        cfg = None
        for c in calls_in(fn):
            t = call_tail(c)
            target = None
            if t == "open" and isinstance(c.func, ast.Name) and c.args:
                target = c.args[0]
            elif t in FS_TAILS and isinstance(c.func, ast.Attribute):
                r = U(c.func.value)
                if r in ("self", "json", "os", "os.path", "str") or r.startswith("self._") or t == "replace" and not ("path" in r.lower() or "(" in r):
                    continue
                target = c.func.value
            if target is None:
                continue
            cfg = cfg or CFG(fn)
            cls, k = path_class(cfg, target, cfg.node_of(c))
            if cls == UNKNOWN and isinstance(target, ast.Name):
                # loop variable over iterdir() of a constructed path
                cls = FINAL if any(isinstance(x, ast.comprehension) and U(x.target) == target.id and "path_for_key" in U(x.iter)
                                   for x in ast.walk(fn)) else UNKNOWN
            n += 1
            chk.ob(rid, f"{fs.qual}.{mn}", cls in (FINAL, TEMP),
                   f"`{U(c)[:60]}` path derives from a path constructor" if cls in (FINAL, TEMP) else
                   f"`{U(c)[:60]}` touches the file system with a path not built by path_for_key/metadata_path_for_key",
                   c, mod, key=f"fs:{t}:{U(target)[:40]}")
        # raw joins of the root with the key outside the constructors
        for b in body_walk(fn):
            if isinstance(b, ast.BinOp) and isinstance(b.op, ast.Div) and U(b.left) == "self.path":
                n += 1
                chk.ob(rid, f"{fs.qual}.{mn}", False, f"`{U(b)}` joins the root with a key outside the path constructors", b, mod,
                       key=f"rawjoin:{U(b)[:40]}")
    chk.floor(rid, n, 15, "file-system access sites in FileStore")


def names_of(e):
    return {x.id for x in ast.walk(e) if isinstance(x, ast.Name)}


def is_normalised_parts(fn, e):
    """e is (a local defined once as) a list of the key's components with '' and '.' dropped"""
    if isinstance(e, ast.Name):
        defs = [s for s in body_walk(fn) if isinstance(s, ast.Assign) and any(U(t) == e.id for t in s.targets)]
        return len(defs) == 1 and is_normalised_parts(fn, defs[0].value)
    if isinstance(e, ast.ListComp) and len(e.generators) == 1:
        g = e.generators[0]
        if not (isinstance(g.iter, ast.Call) and call_tail(g.iter) == "split" and g.iter.args and U(g.iter.args[0]) == "'/'"):
            return False
        dropped = set()
        for c in g.ifs:
            for t in ast.walk(c):
                if isinstance(t, ast.Compare) and len(t.ops) == 1 and isinstance(t.ops[0], (ast.NotIn, ast.NotEq)):
                    for k in ast.walk(t.comparators[0]):
                        if isinstance(k, ast.Constant) and isinstance(k.value, str):
                            dropped.add(k.value)
        return {"", "."} <= dropped
    return False


def guard_kinds(repo, ci, fn, keyp, depth=2):
    """Which escape kinds does fn refuse for parameter `keyp` by a real raise?  {'dotdot','absolute','root'}.
    A guard is a test whose literals mention the key (or a local derived from it) and whose true edge raises on all paths;
    a call self.<helper>(key, ...) inherits the helper's kinds."""
    kinds = set()
    cfg = CFG(fn)
    derived = {keyp}
    changed = True
    while changed:
        changed = False
        for st in body_walk(fn):
            if isinstance(st, ast.Assign) and len(st.targets) == 1 and isinstance(st.targets[0], ast.Name):
                if {x.id for x in ast.walk(st.value) if isinstance(x, ast.Name)} & derived and st.targets[0].id not in derived:
                    derived.add(st.targets[0].id)
                    changed = True
    for n in cfg.nodes:
        if n.kind != "test":
            continue
        names = {x.id for x in ast.walk(n.ast) if isinstance(x, ast.Name)}
        if not names & derived:
            continue
        tsucc = [m for m, lab in cfg.succ[n.id] if lab == "T"]
        if not tsucc:
            continue
        r = cfg.reachable(tsucc[0])
        raises_all = cfg.exit not in r and any(cfg.nodes[x].kind == "raise" for x in r)
        if not raises_all:
            continue
        for d in __import__("sa.core", fromlist=["flatten_boolop"]).flatten_boolop(n.ast, ast.Or):
            txt = U(d)
            if "'..'" in txt:
                kinds.add("dotdot")
            if "startswith('/')" in txt or "is_absolute()" in txt or "isabs(" in txt:
                kinds.add("absolute")
            if "relative_to" in txt:
                kinds |= {"dotdot", "absolute"}
        # root guard, in negation normal form: a disjunct made of `not <components>` (and optionally `not allow_root`)
        from ..lib import nnf
        tree = nnf(n.ast, True)
        for part in (tree[1] if tree[0] == "or" else [tree]):
            lits_ = [part] if part[0] == "lit" else [x for x in part[1] if x[0] == "lit"] if part[0] == "and" else []
            neg = [t_ for _, t_, p_ in lits_ if p_ is False]
            subjects = [t_ for t_ in neg if t_ != "allow_root"]
            if not subjects or any(p_ is True for _, _, p_ in lits_):
                continue
            if not any((set(__import__("re").findall(r"[A-Za-z_]\w*", t_)) & derived) for t_ in subjects):
                continue
            exprs = []
            for t_ in subjects:
                try:
                    exprs.append(ast.parse(t_, mode="eval").body)
                except SyntaxError:
                    pass
            if exprs and all(is_normalised_parts(fn, e_) for e_ in exprs):
                kinds.add("root")
            else:
                kinds.add("root-raw")
    if depth > 0:
        # calls of a guarding helper on the key: the *set* of such calls must cut every path to a key-dependent return
        # (one call per branch after a refactor is as good as one call before the branches); the kinds are those all calls provide
        per_call = []
        for c in calls_in(fn):
            if call_recv(c) == "self" and c.args and (names_of(c.args[0]) & derived or isinstance(c.args[0], ast.Constant)):
                # (a constant argument: the branch where the key was replaced by its default, e.g. '' for None - the path built there
                #  comes from the same constant)
                dc, h = ci.find_method(call_tail(c))
                if h is not None and h is not fn:
                    hk = guard_kinds(repo, ci, h, params(h)[1], depth - 1)
                    if "root" in hk:
                        ar = kwarg(c, "allow_root")
                        d = dict(zip(params(h)[-len(h.args.defaults):], h.args.defaults)) if h.args.defaults else {}
                        allow = ar if ar is not None else d.get("allow_root")
                        if not (isinstance(allow, ast.Constant) and allow.value is False):
                            hk = hk - {"root"}
                    if hk:
                        per_call.append((cfg.node_of(c), hk))
        if per_call:
            rets = [x for x in cfg.returns() if keyp in {y.id for y in ast.walk(cfg.nodes[x].ast) if isinstance(y, ast.Name)}
                    or any(v in derived for v in {y.id for y in ast.walk(cfg.nodes[x].ast) if isinstance(y, ast.Name)})]
            for kind in set().union(*[hk for _, hk in per_call]):
                nodes = [n for n, hk in per_call if kind in hk]
                if rets and all(cfg.set_dominates(nodes, x) for x in rets):
                    kinds.add(kind)
    return kinds


def rule_constructors_confine(chk, rid):
    repo = chk.repo
    chk.rule(rid, "sanitiser rule: both FileStore path constructors refuse, by a real `raise` that dominates every key-dependent "
                  "return, keys with a '..' component and absolute keys; the metadata constructor also refuses the root key (its "
                  "metadata file would live in the parent directory). `assert` is not a guard.")
    mod = repo.module(STORE)
    fs = repo.cls(STORE, "FileStore")
    for mn, need in (("path_for_key", {"dotdot", "absolute"}), ("metadata_path_for_key", {"dotdot", "absolute", "root"})):
        fn = fs.methods.get(mn)
        if fn is None:
            raise AnalysisError(f"FileStore.{mn} missing")
        kinds = guard_kinds(repo, fs, fn, params(fn)[1])
        for k in sorted(need):
            what = {"dotdot": "keys with a '..' component", "absolute": "keys with a leading '/'", "root": "the root key"}[k]
            chk.ob(rid, f"{fs.qual}.{mn}", k in kinds, f"{what} are refused before a path is built" if k in kinds else
                   (f"the root guard tests the raw key text, not its components with '' and '.' dropped: '.', './.' also address the root and pass"
                    if k == "root" and "root-raw" in kinds else f"{what} are not refused: the path built from the key leaves the store directory"),
                   fn, mod, key=f"guard:{k}")


def rule_resource_taint(chk, rid):
    repo = chk.repo
    chk.rule(rid, "taint path query text -> store key: evaluate_resource hands resource_query.path() to the store unchanged, and "
                  "the grammar lets a resource name be '.' or '..' - so confinement must hold in the store (recorded; decided by "
                  "the sanitiser rule)")
    from ..grammar import Grammar
    import re
    pm = repo.module("liquer.parser")
    g = Grammar(pm)
    rn = g.IR.get("resource_name")
    if rn is None or rn.kind != "re":
        raise AnalysisError("resource_name regex not found")
    dots = bool(re.fullmatch(rn.kw["s"], ".."))
    er = repo.func("liquer.context", "Context.evaluate_resource")
    keyvars = [U(s.targets[0]) for s in body_walk(er) if isinstance(s, ast.Assign) and call_tail(s.value) == "path"] \
        if True else []
    calls = [c for c in calls_in(er) if call_recv(c) == "store" and c.args and U(c.args[0]) in keyvars]
    chk.count("resource names may be '..'", int(dots))
    chk.ob(rid, "liquer.context.Context.evaluate_resource", bool(calls),
           f"store is addressed with the untransformed resource path ({len(calls)} call sites); '..' is "
           f"{'a legal' if dots else 'not a legal'} resource name", er, repo.module("liquer.context"), key="taint-path", nontrivial=False)


def run(chk):
    rule_readonly_overrides(chk, "C17.1")
    rule_nothing_else_writes_through(chk, "C17.2")
    rule_fs_access_through_constructors(chk, "C17.3")
    rule_constructors_confine(chk, "C17.4")
    rule_resource_taint(chk, "C17.5")
    chk.xref("FileStore.path_for_key/metadata_path_for_key reject the reserved metadata folder name only by `assert` (stripped by -O); "
             "keys below __metadata__/ address metadata files as data (inside the root, so not a C17 violation)")
    X.rule_read_only_identity(chk, "C17.6")
