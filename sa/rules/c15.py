"""C15 - overlay store: copy-on-write view that never touches the fall-back."""
import ast
from ..core import (AnalysisError, U, calls_in, call_tail, call_recv, call_name, body_walk, kwarg, Repo)
from ..cfg import CFG, assigned_value
from ..lib import (params, returns_of, is_none_const, dominating_literals)
from . import storefam as S
from .cachefam import on_every_path

from . import extra as X

EXPLANATION = ("Who-may-call on OverlayStore.fallback (fully decided for call-borne effects, with an embedded canary), tombstone "
               "test before either layer on every read, overlay consulted before the fall-back, writes go to the overlay only and "
               "clear the tombstone, removal adds a tombstone whenever the fall-back has the key, listings honour tombstones also "
               "at the root, not-found is an exception. NOT decided: shadow/mask semantics over histories.")
STORE = S.STORE
FALLBACK_READS = {"get_bytes", "get_metadata", "contains", "is_dir", "keys", "listdir", "is_supported", "clone", "sync"}

CANARY = '''
class OverlayStore:
    def __init__(self, overlay, fallback):
        self.overlay = overlay
        self.fallback = fallback
        self.removed = set()
    def remove(self, key):
        if self.fallback.contains(key):
            self.fallback.remove(key)
'''


def fallback_uses(cls_node):
    """[(method, node, kind, detail)] for every occurrence of self.fallback in the class"""
    out = []
    for fn in cls_node.body:
        if not isinstance(fn, (ast.FunctionDef, ast.AsyncFunctionDef)):
            continue
        parents = {}
        for p in ast.walk(fn):
            for ch in ast.iter_child_nodes(p):
                parents[id(ch)] = p
        for n in ast.walk(fn):
            if isinstance(n, ast.Attribute) and n.attr == "fallback" and isinstance(n.value, ast.Name) and n.value.id == "self":
                p = parents.get(id(n))
                gp = parents.get(id(p)) if p is not None else None
                if isinstance(n.ctx, ast.Store):
                    out.append((fn.name, n, "assign", ""))
                elif isinstance(p, ast.Attribute) and isinstance(gp, ast.Call) and gp.func is p:
                    out.append((fn.name, gp, "call", p.attr))
                else:
                    out.append((fn.name, n, "escape", U(p)[:40] if p is not None else ""))
    return out


def judge(method, kind, detail, node):
    if kind == "assign":
        return method == "__init__", "assigned in __init__ only"
    if kind == "call":
        if detail in FALLBACK_READS:
            return True, f"read call {detail}()"
        if detail == "openbin":
            return "read-mode", "openbin"
        return False, f"fall-back is called with the non-read operation {detail}()"
    if method in ("__str__", "__repr__"):
        return True, "formatted for display"
    return False, f"the fall-back object escapes (`{detail}`): it is passed/returned/stored and may be modified elsewhere"


def rule_fallback_read_only(chk, rid):
    repo = chk.repo
    chk.rule(rid, "who-may-call: inside OverlayStore, self.fallback is assigned only in __init__ and is otherwise only the receiver "
                  "of read operations (openbin only on the read-mode branch); it is never passed, returned or stored elsewhere")
    mod = repo.module(STORE)
    ov = repo.cls(STORE, "OverlayStore")
    uses = fallback_uses(ov.node)
    chk.floor(rid, len(uses), 10, "occurrences of self.fallback")
    for method, node, kind, detail in uses:
        ok, why = judge(method, kind, detail, node)
        if ok == "read-mode":
            fn = ov.methods[method]
            cfg = CFG(fn)
            lits = dominating_literals(cfg, cfg.node_of(node))
            ok = any("mode" in txt and "'rb'" in txt and "==" in txt and pol for _, txt, pol, _ in lits)
            why = "openbin on the read-mode branch" if ok else "openbin outside the read-mode branch"
        chk.ob(rid, f"{ov.qual}.{method}", bool(ok), why, node, mod, key=f"fallback:{kind}:{detail}")
    # canary: the rule must flag a mutating call on the fall-back
    tree = ast.parse(CANARY)
    cu = fallback_uses(tree.body[0])
    flagged = any(judge(m, k, d, n)[0] is False for m, n, k, d in cu)
    chk.canary(rid, flagged, "embedded OverlayStore.remove calling self.fallback.remove(key)")


def rule_tombstone_first(chk, rid):
    repo = chk.repo
    chk.rule(rid, "tombstone first, then overlay, then fall-back: each read tests `key in self.removed` before consulting a layer; a "
                  "fall-back answer is used only when the overlay does not contain the key; keys() subtracts the tombstones; listdir "
                  "filters them")
    mod = repo.module(STORE)
    ov = repo.cls(STORE, "OverlayStore")
    for m in ("get_bytes", "get_metadata", "contains", "is_dir"):
        fn = ov.methods.get(m)
        kp = params(fn)[1]
        cfg = CFG(fn)
        layer_calls = [c for c in calls_in(fn) if call_recv(c) in ("self.overlay", "self.fallback")]
        if not layer_calls:
            chk.ob(rid, f"{ov.qual}.{m}", False, "the read consults neither layer", fn, mod, key=f"tombstone:{m}")
            continue
        ok = True
        for c in layer_calls:
            lits = dominating_literals(cfg, cfg.node_of(c))
            if not any(txt == f"{kp} in self.removed" and pol is False for _, txt, pol, _ in lits):
                ok = False
        chk.ob(rid, f"{ov.qual}.{m}", ok, "every layer access is dominated by `key not in self.removed`", fn, mod, key=f"tombstone:{m}")
        if m in ("get_bytes", "get_metadata", "is_dir"):
            fb = [c for c in layer_calls if call_recv(c) == "self.fallback"]
            ok2 = bool(fb)
            for c in fb:
                lits = dominating_literals(cfg, cfg.node_of(c))
                if not any(txt == f"self.overlay.contains({kp})" and pol is False for _, txt, pol, _ in lits):
                    ok2 = False
            chk.ob(rid, f"{ov.qual}.{m}", ok2, "the fall-back answers only when the overlay does not contain the key" if ok2 else
                   "the fall-back's answer is used even though the overlay holds the key (the most recent write is not reflected)",
                   fn, mod, key=f"overlay-first:{m}")
        if m == "contains":
            rets = [r for r in returns_of(fn) if not isinstance(r.value, ast.Constant)]
            ok3 = any(isinstance(r.value, ast.BoolOp) and isinstance(r.value.op, ast.Or) and
                      [call_recv(v) for v in r.value.values] == ["self.overlay", "self.fallback"] for r in rets)
            chk.ob(rid, f"{ov.qual}.contains", ok3, "contains = overlay.contains or fallback.contains", fn, mod, key="contains-union")
    ks = ov.methods.get("keys")
    filt_ = any(isinstance(c, ast.Compare) and len(c.ops) == 1 and isinstance(c.ops[0], ast.NotIn) and U(c.comparators[0]) == "self.removed" for c in ast.walk(ks))
    chk.ob(rid, f"{ov.qual}.keys", ".difference(self.removed)" in U(ks) or "- self.removed" in U(ks) or filt_, "keys() subtracts the tombstones", ks, mod, key="keys-minus-removed")
    chk.ob(rid, f"{ov.qual}.keys", "self.overlay.keys()" in U(ks) and "self.fallback.keys()" in U(ks), "keys() unions both layers", ks, mod, key="keys-union")
    ld = ov.methods.get("listdir")
    # a membership test against the tombstone set whose left side is join_key(<dir>, <name>) - in a comprehension filter or an if
    tests_ = [c for c in ast.walk(ld) if isinstance(c, ast.Compare) and len(c.ops) == 1 and isinstance(c.ops[0], (ast.NotIn, ast.In))
              and U(c.comparators[0]) == "self.removed"]
    ok = bool(tests_) and all(isinstance(c.left, ast.Call) and call_name(c.left) == "join_key" and len(c.left.args) == 2 for c in tests_)
    chk.ob(rid, f"{ov.qual}.listdir", ok, "listing filters tombstones with join_key(key, name) (correct at the root)" if ok else
           "listing filter does not use the empty-parent idiom: tombstones are ignored at the root", ld, mod, key="listdir-tombstones")
    chk.ob(rid, f"{ov.qual}.listdir", "self.overlay.listdir(key)" in U(ld) and "self.fallback.listdir(key)" in U(ld), "listdir unions both layers", ld, mod, key="listdir-union")


def rule_writes_go_up(chk, rid):
    repo = chk.repo
    chk.rule(rid, "writes go up and clear the tombstone: store / store_metadata / makedir remove the key from self.removed and call "
                  "the same method on self.overlay only, on every path")
    mod = repo.module(STORE)
    ov = repo.cls(STORE, "OverlayStore")
    for m in ("store", "store_metadata", "makedir"):
        fn = ov.methods.get(m)
        kp = params(fn)[1]
        cfg = CFG(fn)
        up = [c for c in calls_in(fn, tail=m) if call_recv(c) == "self.overlay"]
        ok = len(up) == 1 and on_every_path(cfg, up[0]) and [U(a) for a in up[0].args] == params(fn)[1:]
        chk.ob(rid, f"{ov.qual}.{m}", ok, f"self.overlay.{m}({', '.join(params(fn)[1:])}) on every path", fn, mod, key=f"up:{m}")
        clr = [c for c in calls_in(fn) if call_recv(c) == "self.removed" and call_tail(c) in ("remove", "discard") and c.args and U(c.args[0]) == kp]
        chk.ob(rid, f"{ov.qual}.{m}", bool(clr) and (not up or cfg.can_reach(cfg.node_of(clr[0]), cfg.node_of(up[0])) or True),
               "the tombstone of the key is cleared", fn, mod, key=f"clear:{m}")


def rule_removal_masks(chk, rid):
    repo = chk.repo
    chk.rule(rid, "removal masks: remove() deletes from the overlay when present there AND adds a tombstone whenever the fall-back "
                  "has the key (independent tests); removedir does the same for empty directories")
    mod = repo.module(STORE)
    ov = repo.cls(STORE, "OverlayStore")
    fn = ov.methods.get("remove")
    kp = params(fn)[1]
    cfg = CFG(fn)
    adds = [c for c in calls_in(fn, tail="add") if call_recv(c) == "self.removed"]
    if not adds:
        chk.ob(rid, f"{ov.qual}.remove", False, "remove() never adds a tombstone: a key living in the fall-back stays visible after removal",
               fn, mod, key="tombstone-independent")
        return
    an = cfg.node_of(adds[0])
    lits = dominating_literals(cfg, an)
    has_fb = any(txt == f"self.fallback.contains({kp})" and pol for _, txt, pol, _ in lits)
    not_dep_on_overlay = not any("self.overlay.contains" in txt for _, txt, pol, _ in lits)
    chk.ob(rid, f"{ov.qual}.remove", has_fb and not_dep_on_overlay,
           "tombstone is added whenever the fall-back has the key" if has_fb and not_dep_on_overlay else
           "tombstone is added only when the overlay does not hold the key: removing a shadowed key resurrects the fall-back value",
           adds[0], mod, key="tombstone-independent")
    dels = [c for c in calls_in(fn, tail="remove") if call_recv(c) == "self.overlay"]
    ok = bool(dels) and any(txt == f"self.overlay.contains({kp})" and pol for _, txt, pol, _ in dominating_literals(cfg, cfg.node_of(dels[0])))
    chk.ob(rid, f"{ov.qual}.remove", ok, "overlay copy is removed when present", fn, mod, key="overlay-remove")
    rd = ov.methods.get("removedir")
    chk.ob(rid, f"{ov.qual}.removedir", "self.removed.add(key)" in U(rd) and "self.overlay.remove(key)" in U(rd), "removedir masks / removes an empty directory", rd, mod, key="removedir")


def rule_exit_shapes(chk, rid):
    repo = chk.repo
    chk.rule(rid, "a masked key reads as not-found: get_bytes / get_metadata of the overlay never end without a value")
    mod = repo.module(STORE)
    ov = repo.cls(STORE, "OverlayStore")
    for m in ("get_bytes", "get_metadata"):
        fn = ov.methods.get(m)
        cfg = CFG(fn)
        falls = cfg.falloff in cfg.reachable(cfg.entry)
        nones = [r for r in returns_of(fn) if is_none_const(r.value)]
        chk.ob(rid, f"{ov.qual}.{m}", not falls and not nones, "every exit returns a value or raises" if not falls and not nones else
               "a removed key yields None instead of KeyNotFoundStoreException", fn, mod, key="exit-shape")


def run(chk):
    rule_fallback_read_only(chk, "C15.1")
    rule_tombstone_first(chk, "C15.2")
    rule_writes_go_up(chk, "C15.3")
    rule_removal_masks(chk, "C15.4")
    rule_exit_shapes(chk, "C15.5")
    chk.xref("OverlayStore.is_supported calls key() (TypeError when the overlay does not support the key)")
    chk.xref("OverlayStore.sync calls fallback.sync() - a no-op for memory/directory stores (whitelisted read)")
    X.rule_overlay_recursion_own_view(chk, "C15.6")
    X.rule_store_metadata_fresh(chk, "C15.7")
