"""Rules added after the second, independent seeding round (each one is a necessary condition that the first
rule set did not cover; DESIGN.md section 4 records which seed motivated which rule)."""
import ast
from ..core import (AnalysisError, U, calls_in, call_tail, call_recv, call_name, body_walk, kwarg, const_str, flatten_boolop)
from ..cfg import CFG, assigned_value
from ..lib import (params, returns_of, is_none_const, dominating_literals, norm_literal, resolve_local, literals_of_test)
from . import cachefam as F

CTX = "liquer.context"
CACHE = "liquer.cache"
STORE = "liquer.store"
CMD = "liquer.commands"
STATE = "liquer.state"
ST = "liquer.state_types"
PARSER = "liquer.parser"


# --------------------------------------------------------------------------- C02: printer injectivity per node class
def rule_printer_injective(chk, rid):
    """Two structurally different instances of one node class must not print the same text (otherwise an accepted
    spelling canonicalises to a text that denotes a different query)."""
    from . import c02, c03
    from ..grammar import Grammar
    from ..printer import PrinterExtractor
    repo = chk.repo
    chk.rule(rid, "printer injectivity per node class: structurally different instances of ActionRequest / SegmentHeader / "
                  "TransformQuerySegment / ResourceQuerySegment / parameters (built from the parse actions' constructor shapes) "
                  "never print the same text")
    m = repo.module(PARSER)
    g = Grammar(m)
    px = PrinterExtractor(repo)
    _, env, rows = c03.extract(repo)
    # list fields fed by a ZeroOrMore over `parameter` in the grammar may be empty although the parse action passes an
    # opaque token list (UNKNOWN): derived from the grammar IR, not assumed
    def star_over_parameter(rule):
        stack = [g.IR[rule]] if rule in g.IR else []
        while stack:
            n_ = stack.pop()
            if n_.kind == "star" and "parameter" in g.refs_in(n_):
                return True
            stack.extend(n_.kids)
        return False
    may_be_empty = set()
    if star_over_parameter("action_request"):
        may_be_empty.add(("ActionRequest", "parameters"))
    if star_over_parameter("segment_header") or star_over_parameter("resource_segment_with_header"):
        may_be_empty.add(("SegmentHeader", "parameters"))
    en = c02.Enumerator(repo, g, px, rows, chk.tier, unknown_may_be_empty=may_be_empty)
    en.pool("Query", 0)
    n = 0
    for cname in ("ActionRequest", "SegmentHeader", "TransformQuerySegment", "ResourceQuerySegment", "StringActionParameter"):
        insts = []
        for key, pool in en._pool.items():
            if key[0] == cname and key[1] == 0:
                insts += pool
        seen = {}
        clash = None
        def unconstructible(x):
            # a nameless transform header with parameters is excluded by the grammar (`-+` must be followed by '/') and by
            # encode's own assert; skip every instance containing one
            if isinstance(x, list):
                return any(unconstructible(y) for y in x)
            if isinstance(x, dict):
                if x.get("__class__") == "SegmentHeader" and not x.get("resource") and x.get("name") == "" and x.get("parameters"):
                    return True
                return any(unconstructible(v) for k, v in x.items() if not k.startswith("__"))
            return False
        for i in insts:
            if unconstructible(i):
                continue
            t = en.text(i)
            d = c02.describe(i)
            if cname == "SegmentHeader":
                t = ("R" if i.get("resource") else "T") + t     # resource / transform headers live in different grammar positions
            if t in seen and seen[t] != d:
                clash = (t, seen[t], d)
                break
            seen[t] = d
        n += len(insts)
        chk.ob(rid, f"{PARSER}.{cname}.encode", clash is None, f"{len(seen)} distinct instances print {len(seen)} distinct texts" if clash is None else
               f"two different {cname} instances print the same text {clash[0]!r}: {clash[1][:80]} vs {clash[2][:80]}", px.method(cname, "encode"), m, key=f"injective:{cname}")
    chk.floor(rid, n, 30, "instances compared")


# --------------------------------------------------------------------------- codec pairs (C04 C13)
INVERSE = {"base64.b64encode": "base64.b64decode", "base64.urlsafe_b64encode": "base64.urlsafe_b64decode",
           "base64.standard_b64encode": "base64.standard_b64decode", "base64.b32encode": "base64.b32decode",
           "base64.b16encode": "base64.b16decode", "self.fernet.encrypt": "self.fernet.decrypt",
           "zlib.compress": "zlib.decompress", "gzip.compress": "gzip.decompress", "bz2.compress": "bz2.decompress"}


def rule_codec_pairs(chk, rid):
    repo = chk.repo
    chk.rule(rid, "encode/decode of every cache class that overrides them are an inverse pair from one family (table of known "
                  "pairs; `decode` delegating to `encode` is accepted for self-inverse codecs)")
    mod = repo.module(CACHE)
    n = 0
    for ci in repo.classes_in(CACHE):
        e, d = ci.methods.get("encode"), ci.methods.get("decode")
        if e is None and d is None:
            continue
        if e is None or d is None:
            chk.ob(rid, ci.qual, False, "only one half of the codec is overridden", ci.node, mod, key="pair")
            continue
        er, dr = returns_of(e), returns_of(d)
        if len(er) != 1 or len(dr) != 1:
            chk.ob(rid, ci.qual, False, "codec method with several exits", ci.node, mod, key="pair")
            continue
        ev, dv = er[0].value, dr[0].value
        n += 1
        ep, dp = params(e)[1], params(d)[1]
        if U(ev) == ep and U(dv) == dp:
            chk.ob(rid, ci.qual, True, "identity codec", ci.node, mod, key="pair", nontrivial=False)
            continue
        if isinstance(dv, ast.Call) and call_name(dv) == "self.encode":
            chk.ob(rid, ci.qual, True, "decode delegates to encode (self-inverse codec)", d, mod, key="pair")
            continue
        en_, dn_ = (call_name(ev) if isinstance(ev, ast.Call) else None), (call_name(dv) if isinstance(dv, ast.Call) else None)
        ok = en_ in INVERSE and INVERSE[en_] == dn_
        chk.ob(rid, ci.qual, ok, f"encode = {en_}, decode = {dn_}" + ("" if ok else f": not an inverse pair (expected {INVERSE.get(en_, 'a known pair')}); some values decode to different bytes"),
               d, mod, key="pair")
    chk.floor(rid, n, 4, "codec pairs")


# --------------------------------------------------------------------------- metadata keyed by own query (C04 C05)
def rule_metadata_keyed_by_own_query(chk, rid):
    ea = F.EvalAction(chk.repo)
    chk.rule(rid, "the metadata that evaluate_action hands to cache.store_metadata is keyed by this context's own query text "
                  "(metadata['query'] = self.raw_query reaches the call), so progress/final metadata never lands on another query's entry")
    fn, cfg = ea.fn, ea.cfg
    sm = [c for c in calls_in(fn, tail="store_metadata") if call_recv(c) == "cache"]
    if not sm:
        chk.ob(rid, ea.C, False, "no cache.store_metadata call", fn, ea.mod, key="own-query")
        return
    qs = [n for n in cfg.nodes if n.kind == "stmt" and isinstance(n.ast, ast.Assign) and U(n.ast.targets[0]).replace('"', "'") == "metadata['query']"]
    for c in sm:
        cn = cfg.node_of(c)
        reaching = [q for q in qs if cfg.can_reach(q.id, cn) and not any(cfg.can_reach(q.id, o.id) and cfg.can_reach(o.id, cn) for o in qs if o is not q)]
        vals = [U(q.ast.value) for q in reaching]
        ok = bool(vals) and all(v == "self.raw_query" for v in vals) and cfg.set_dominates([q.id for q in qs], cn)
        chk.ob(rid, ea.C, ok, f"metadata['query'] reaching cache.store_metadata is {vals}" + ("" if ok else
               ": the metadata is filed under another query's key and overwrites that entry's variables / volatility"), c, ea.mod, key="own-query")


# --------------------------------------------------------------------------- per-key locality in MemoryCache (C05 C13)
def rule_memory_per_key_locality(chk, rid):
    repo = chk.repo
    chk.rule(rid, "operations on one key never affect another key: in the per-key methods of MemoryCache no container is cleared or "
                  "replaced wholesale (only clean/__init__ may do that)")
    mod = repo.module(CACHE)
    ci = repo.cls(CACHE, "MemoryCache")
    n = 0
    for mn, fn in ci.methods.items():
        if mn in ("__init__", "clean", "from_config"):
            continue
        for c in calls_in(fn):
            r = call_recv(c) or ""
            if r.startswith("self.") and call_tail(c) in ("clear", "popitem"):
                n += 1
                chk.ob(rid, f"{ci.qual}.{mn}", False, f"`{U(c)}` drops entries of *other* keys while handling one key", c, mod, key=f"wholesale:{U(c)}")
        for s in body_walk(fn):
            if isinstance(s, ast.Assign):
                for t in s.targets:
                    if isinstance(t, ast.Attribute) and U(t.value) == "self" and isinstance(s.value, (ast.Dict, ast.Set, ast.List, ast.Call)) \
                            and (not isinstance(s.value, ast.Call) or call_name(s.value) in ("dict", "set", "list")):
                        n += 1
                        chk.ob(rid, f"{ci.qual}.{mn}", False, f"`{U(s)}` replaces a whole container while handling one key", s, mod, key=f"wholesale:{U(t)}")
    chk.ob(rid, ci.qual, True, f"per-key methods scanned ({len(ci.methods)} methods)", ci.node, mod, key="scanned", nontrivial=False)
    # key-specific marker operations
    for mn in ("store", "remove", "store_metadata"):
        fn = ci.methods.get(mn)
        if fn is None:
            continue
        for c in calls_in(fn):
            r = call_recv(c) or ""
            if r.startswith("self.") and call_tail(c) in ("add", "discard", "remove") and r != "self.storage":
                arg = U(c.args[0]) if c.args else ""
                cfg = CFG(fn)
                a = resolve_local(cfg, c.args[0], cfg.node_of(c)) if c.args else None
                ok = arg in ("key", "state.query") or U(a) in ("metadata['query']", 'metadata["query"]', "state.query")
                chk.ob(rid, f"{ci.qual}.{mn}", ok, f"`{U(c)}` concerns the handled key only", c, mod, key=f"keyed:{call_tail(c)}")


# --------------------------------------------------------------------------- remaining tokens threaded (C01 C06)
def rule_sequence_remainder(chk, rid):
    repo = chk.repo
    chk.rule(rid, "SequenceArgumentParser returns the tokens that are really left: the remainder it returns is the token list "
                  "threaded through the loop (the incoming list when the sequence is empty), so surplus tokens are always reported")
    m = repo.module(CMD)
    ci = repo.cls(CMD, "SequenceArgumentParser")
    for mn in ("parse_meta", "parse"):
        fn = ci.methods.get(mn)
        if fn is None:
            continue
        cfg = CFG(fn)
        argsp = params(fn)[2]
        for r in returns_of(fn):
            v = r.value
            last = v.elts[-1] if isinstance(v, ast.Tuple) else None
            ok = isinstance(last, ast.Name)
            why = "return shape not recognised"
            if ok:
                ds = cfg.reaching_defs(last.id, cfg.node_of(r))
                kinds = []
                for d in ds:
                    if d == cfg.entry:
                        kinds.append("param" if last.id == argsp else "undefined")
                    else:
                        a = cfg.nodes[d].ast
                        if isinstance(a, ast.Assign) and isinstance(a.value, ast.Call) and call_tail(a.value) in ("parse_meta", "parse"):
                            kinds.append("threaded")
                        elif isinstance(a, ast.Assign) and U(a.value) == argsp:
                            kinds.append("param")
                        else:
                            kinds.append("other:" + U(a)[:30])
                ok = bool(kinds) and all(k in ("param", "threaded") for k in kinds) and "param" in kinds
                why = f"remainder `{last.id}` comes from {sorted(set(kinds))}"
            chk.ob(rid, f"{ci.qual}.{mn}", ok, why + ("" if ok else ": with an empty parser sequence the surplus tokens vanish and 'Too many arguments' is never raised"),
                   r, m, key=f"remainder:{mn}")


# --------------------------------------------------------------------------- log-entry kind agreement (C06)
def rule_error_kind_agreement(chk, rid):
    repo = chk.repo
    chk.rule(rid, "writer/reader agreement on the error log kind: every error/exception logger of State, the context mixin and "
                  "Metadata writes entries with the kind that State.get searches for")
    sm = repo.module(STATE)
    g = repo.func(STATE, "State.get")
    want = None
    for c in ast.walk(g):
        if isinstance(c, ast.Compare) and "kind" in U(c.left) and len(c.comparators) == 1 and const_str(c.comparators[0]) is not None:
            want = c.comparators[0].value
    if want is None:
        raise AnalysisError("State.get: log kind comparison not found")
    n = 0
    for modname, cn in ((STATE, "State"), (CTX, "MetadataContextMixin"), ("liquer.metadata", "Metadata")):
        ci = repo.cls(modname, cn)
        for mn in ("log_error", "log_exception", "error", "exception"):
            fn = ci.methods.get(mn)
            if fn is None:
                continue
            for d in ast.walk(fn):
                if isinstance(d, ast.Call) and call_name(d) == "dict":
                    k = kwarg(d, "kind")
                    if k is not None:
                        n += 1
                        chk.ob(rid, f"{ci.qual}.{mn}", const_str(k) == want, f"logs kind={U(k)} (State.get looks for {want!r})" + ("" if const_str(k) == want else
                               ": the failure's query and position are never found by State.get"), d, ci.module, key=f"kind:{mn}")
    chk.floor(rid, n, 5, "error log writers")


# --------------------------------------------------------------------------- metadata location injective (C07)
def rule_metadata_location_injective(chk, rid):
    repo = chk.repo
    chk.rule(rid, "the metadata location is an injective function of the key: FileStore.metadata_path_for_key builds the file name "
                  "from the whole last component (`.name`), never from `.stem` / a stripped suffix")
    mod = repo.module(STORE)
    fn = repo.func(STORE, "FileStore.metadata_path_for_key")
    rets = returns_of(fn)
    for r in rets:
        t = U(r.value)
        ok = ".name" in t and ".stem" not in t and "with_suffix" not in t and ".suffix" not in t
        chk.ob(rid, f"{STORE}.FileStore.metadata_path_for_key", ok, f"metadata file = `{t[:70]}`" + ("" if ok else
               ": keys that differ only by their extension share one metadata file"), r, mod, key="name")


# --------------------------------------------------------------------------- volatility trigger complements the lookup guard (C09)
def _norm2(e, pol=True):
    txt, p = norm_literal(e, pol)
    # len(x) > 0  ==  not (len(x) == 0) ;  len(x)  ==  not (len(x) == 0)
    for suf in (" > 0", " != 0", " >= 1"):
        if txt.startswith("len(") and txt.endswith(suf):
            return txt[: -len(suf)] + " == 0", (not p)
    if txt.startswith("len(") and txt.endswith(")"):
        return txt + " == 0", (not p)
    return txt, p


def rule_trigger_complements_guard(chk, rid):
    repo = chk.repo
    chk.rule(rid, "contradiction rule: the condition under which evaluate_action treats extra parameters as present (forcing "
                  "volatility) is exactly the negation of the condition under which Context.evaluate still looks the query up")
    ev = F.Evaluate(repo)
    ea = F.EvalAction(repo)
    from ..lib import nnf, nnf_mentions, nnf_lits
    g = ev.one(ev.get_calls, "cache lookup")
    gn = ev.node(g)
    # the test edge that governs the lookup and mentions the extra parameters
    gset = None
    for t in ev.cfg.nodes:
        if t.kind != "test" or ea.extravar not in U(t.ast):
            continue
        for lab in ("T", "F"):
            if ev.cfg.edge_dominates(t.id, lab, gn):
                tree = nnf(t.ast, lab == "T", _norm2)
                parts = tree[1] if tree[0] == "and" else [tree]
                mine = [p for p in parts if nnf_mentions(p, ea.extravar)]
                if len(mine) == 1 and nnf_lits(mine[0]) is not None and (mine[0][0] in ("or", "lit")):
                    gset = nnf_lits(mine[0])
    if gset is None:
        raise AnalysisError("Context.evaluate: lookup guard over extra_parameters not found")
    # trigger: the test dominating the `is_volatile = True` assignments
    cfg = ea.cfg
    trig = None
    tset = None
    for n in cfg.nodes:
        if n.kind == "stmt" and isinstance(n.ast, ast.Assign) and isinstance(n.ast.value, ast.Constant) and n.ast.value.value is True \
                and "volatile" in U(n.ast.targets[0]):
            for t in cfg.nodes:
                if t.kind != "test" or ea.extravar not in U(t.ast) or "type(" in U(t.ast):
                    continue
                for lab in ("T", "F"):      # the flag may be set on either branch of the presence test (if/elif chains)
                    if cfg.edge_dominates(t.id, lab, n.id):
                        ttree = nnf(t.ast, lab == "T", _norm2)
                        tparts = ttree[1] if ttree[0] == "and" else [ttree]
                        lits_ = {(p[1], p[2]) for p in tparts if p[0] == "lit" and nnf_mentions(p, ea.extravar)}
                        if lits_:
                            trig, tset = t, lits_
    if trig is None:
        chk.ob(rid, ea.C, False, "no test over extra_parameters guards the volatility flag", ea.fn, ea.mod, key="complement")
        return
    want = {(t, not p) for t, p in gset}
    chk.ob(rid, ea.C, tset == want, f"lookup guard {sorted(gset)}; volatility trigger {sorted(tset)}" + ("" if tset == want else
           ": the two disagree (e.g. an empty {} is looked up but then declared volatile, so the result is never stored and never reused)"),
           trig.ast, ea.mod, key="complement")


# --------------------------------------------------------------------------- State.clone aliasing (C10)
IMMUTABLE = {"str", "bytes", "int", "float", "bool", "complex", "type(None)", "NoneType"}


def rule_clone_copies_data(chk, rid):
    repo = chk.repo
    chk.rule(rid, "State.clone copies the data on every path: each definition of the clone's data is copy_state_data(self.data) / "
                  "deepcopy; aliasing self.data is accepted only under an isinstance test over immutable scalar types")
    m = repo.module(STATE)
    fn = repo.func(STATE, "State.clone")
    cfg = CFG(fn)
    ws = [n for n in cfg.nodes if n.kind == "stmt" and isinstance(n.ast, ast.Assign) and U(n.ast.targets[0]).endswith(".data")]
    if not ws:
        chk.ob(rid, f"{STATE}.State.clone", False, "the clone's data is never set", fn, m, key="data-copy")
        return
    for w in ws:
        v = w.ast.value
        ok = isinstance(v, ast.Call) and (call_name(v) == "copy_state_data" or call_tail(v) == "deepcopy") and v.args and U(v.args[0]) == "self.data"
        if not ok and U(v) == "self.data":
            for _, txt, pol, _ in dominating_literals(cfg, w.id):
                if pol and txt.startswith("isinstance(self.data, "):
                    ts = txt[len("isinstance(self.data, "):-1].strip("()")
                    types = {x.strip() for x in ts.split(",") if x.strip()}
                    if types and types <= IMMUTABLE:
                        ok = True
        chk.ob(rid, f"{STATE}.State.clone", ok, f"clone data = `{U(v)}`" + ("" if ok else
               ": the clone shares the (possibly mutable) data object with the original - cache entries and earlier states get mutated"),
               w.ast, m, key=f"data-copy:{U(v)[:30]}")
    rets = returns_of(fn)
    for r in rets:
        ok = any(cfg.can_reach(w.id, cfg.node_of(r)) for w in ws) and all(True for _ in [0])
        # every path to the return sets the data
        ok = cfg.set_dominates([w.id for w in ws], cfg.node_of(r))
        chk.ob(rid, f"{STATE}.State.clone", ok, "every path sets the clone's data", r, m, key="data-set")


def rule_clone_decision_from_input(chk, rid):
    ea = F.EvalAction(chk.repo)
    chk.rule(rid, "the decision to hand the command the live input state is taken from the *input state's* volatility only (extra "
                  "parameters make the result volatile but must not make the command run on the caller's object)")
    cfg = ea.cfg
    call = ea.cmd_call
    a0 = call.args[0]
    from ..lib import conditional_values
    alts = conditional_values(cfg, a0, cfg.node_of(call))
    raw = [(v, f) for v, f in alts if U(v) == ea.statevar]
    if not raw:
        ok = all(isinstance(v, ast.Call) and call_tail(v) == "clone" for v, _ in alts)
        chk.ob(rid, ea.C, ok, "command receives a clone unconditionally", call, ea.mod, key="decision")
        return
    def_nodes = [d for d in cfg.reaching_defs(a0.id, cfg.node_of(call)) if d != cfg.entry] if isinstance(a0, ast.Name) else [cfg.node_of(call)]
    ok, why = True, ""
    for v, facts in raw:
        vol = [(t, p) for t, p in facts if "volatile" in t and p is True]
        if not vol:
            ok, why = False, "no volatility test at all"
        for t, p in vol:
            if t == f"{ea.statevar}.is_volatile()":
                continue
            if t.isidentifier():
                for d in def_nodes:
                    for dd in cfg.reaching_defs(t, d):
                        if dd == cfg.entry:
                            continue
                        vv = assigned_value(cfg, dd, t)
                        if vv is None or U(vv) != f"{ea.statevar}.is_volatile()":
                            ok, why = False, f"`{t}` = `{U(vv) if vv is not None else '?'}`"
            else:
                ok, why = False, f"`{t}`"
    chk.ob(rid, ea.C, ok, "clone decision depends on the input state's volatility only" if ok else
           f"clone decision depends on {why}: with extra parameters an in-place command mutates the caller's / cached object", call, ea.mod, key="decision")


# --------------------------------------------------------------------------- C11 element receivers / qualname
def rule_element_receivers(chk, rid):
    repo = chk.repo
    chk.rule(rid, "in DictStateType.encode_element the identifier, the extension and the bytes all come from the member's own state "
                  "type object; get_type_qualname keys the registry by module + __qualname__")
    m = repo.module(ST)
    fn = repo.func(ST, "DictStateType.encode_element")
    recv = {}
    for c in calls_in(fn):
        if call_tail(c) in ("identifier", "default_extension", "as_bytes"):
            recv[call_tail(c)] = call_recv(c)
    tv = None
    for s in body_walk(fn):
        if isinstance(s, ast.Assign) and isinstance(s.value, ast.Call) and call_tail(s.value) == "get" and "type(data_element)" in U(s.value):
            tv = U(s.targets[0])
    ok = tv is not None and set(recv) == {"identifier", "default_extension", "as_bytes"} and set(recv.values()) == {tv}
    chk.ob(rid, f"{ST}.DictStateType.encode_element", ok, f"identifier / extension / bytes come from {recv}" + ("" if ok else
           f" (all three must come from the member's type `{tv}`: otherwise the member is written in a format its decoder does not expect)"), fn, m, key="receivers")
    q = repo.func(ST, "get_type_qualname")
    rets = [r for r in returns_of(q) if "__module__" in U(r.value)]
    ok = bool(rets) and all("__qualname__" in U(r.value) for r in rets)
    chk.ob(rid, f"{ST}.get_type_qualname", ok, "registry key = module + __qualname__" if ok else
           "registry key is built from __name__: same-named nested classes of one module collide and are encoded by the wrong state type", q, m, key="qualname")


# --------------------------------------------------------------------------- C12 / C16 temp file closed before replace, unique
def rule_replace_after_close(chk, rid, concurrency=False):
    from .fsproto import write_effects, TEMP
    repo = chk.repo
    chk.rule(rid, "the temporary file is complete and closed before it is renamed into place: the replace call is not inside the "
                  "`with open(temporary)` block that writes it" + ("; every writer uses its own temporary name (unique component)" if concurrency else ""))
    for modname, cn, mn in ((CACHE, "FileCache", "store"), (STORE, "FileStore", "store")):
        ci = repo.cls(modname, cn)
        fn = ci.methods[mn]
        cfg, effs = write_effects(fn)
        reps = [e for e in effs if e.kind == "replace"]
        withs = [w for w in body_walk(fn) if isinstance(w, ast.With)]
        for e in [x for x in effs if x.kind == "write" and x.cls == TEMP]:
            inside = False
            for w in withs:
                opens = [c for it in w.items for c in ast.walk(it.context_expr) if c is e.call]
                if opens:
                    for r in reps:
                        if any(r.call is x for st in w.body for x in ast.walk(st)):
                            inside = True
            chk.ob(rid, f"{ci.qual}.{mn}", not inside, "replace happens after the temporary file is closed" if not inside else
                   "os.replace runs inside the `with open(temporary)` block: the file is renamed into place before its content is flushed - "
                   "a kill or a concurrent reader sees an empty/partial value", e.call, ci.module, key="replace-after-close")
            if concurrency:
                # unique component in the temporary name
                tgt = None
                for s in body_walk(fn):
                    if isinstance(s, ast.Assign) and U(s.targets[0]) == e.text:
                        tgt = s.value
                src = U(tgt) if tgt is not None else e.text
                uniq = any(k in src for k in ("uuid", "mkstemp", "NamedTemporaryFile", "getpid", "get_ident", "token_hex", "time_ns"))
                chk.ob(rid, f"{ci.qual}.{mn}", uniq, f"temporary name `{src[:60]}` is unique per writer" if uniq else
                       f"temporary name `{src[:60]}` is shared by concurrent writers of the same key (they truncate / rename each other's file)", e.call, ci.module, key="unique-temp")


def rule_store_failure_contained(chk, rid):
    ev = F.Evaluate(chk.repo)
    chk.rule(rid, "a failing cache write cannot change what an evaluation returns: cache.store(state) sits in a try whose handler "
                  "catches everything (a cache problem under contention only costs the reuse)")
    st = ev.one(ev.store_calls, "cache.store site")
    ok = False
    for t in body_walk(ev.fn):
        if isinstance(t, ast.Try) and any(st is x for s in t.body for x in ast.walk(s)):
            ok = any(h.type is None or U(h.type) in ("Exception", "BaseException") for h in t.handlers)
    chk.ob(rid, f"{CTX}.Context.evaluate", ok, "cache.store is wrapped in a catch-all handler" if ok else
           "cache.store is not protected by a catch-all handler: an error raised by the back-end (e.g. under concurrent writers) fails the evaluation",
           st, ev.mod, key="contained")


def rule_filestore_temp_hidden(chk, rid):
    from .fsproto import write_effects, TEMP, ctor_kind
    repo = chk.repo
    chk.rule(rid, "FileStore's temporary file lives in the hidden metadata folder (derived from metadata_path_for_key), never "
                  "among the visible entries where it would be listed, served, or collide with a sibling key")
    ci = repo.cls(STORE, "FileStore")
    fn = ci.methods["store"]
    cfg, effs = write_effects(fn)
    for e in [x for x in effs if x.kind == "write" and x.cls == TEMP]:
        k = ctor_kind(e.ctor)
        chk.ob(rid, f"{ci.qual}.store", k == "metadata", f"temporary file derives from the {k} path" + ("" if k == "metadata" else
               ": it is a visible entry (listed after a crash, and a sibling key `<stem>.tmp` is overwritten)"), e.call, ci.module, key="hidden-temp")


def rule_remove_matches_store(chk, rid):
    repo = chk.repo
    chk.rule(rid, "FileCache.remove unlinks exactly the data file that store() wrote (same to_path signature)")
    ci = repo.cls(CACHE, "FileCache")
    tp = ci.find_method("to_path")[1]
    tp_def = dict(zip(params(tp)[2:], [U(d) for d in tp.args.defaults]))
    def sigs(fn):
        out = set()
        for c in calls_in(fn, tail="to_path"):
            d = dict(tp_def)
            for i, a in enumerate(c.args[1:]):
                d[params(tp)[2:][i]] = U(a)
            d.update({k.arg: U(k.value) for k in c.keywords})
            if d.get("prefix") != tp_def.get("prefix"):
                out.add(tuple(sorted(d.items())))
        return out
    s, r = sigs(ci.methods["store"]), sigs(ci.methods["remove"])
    chk.ob(rid, f"{ci.qual}.remove", bool(s) and s == r, "remove and store agree on the data file location" if s == r else
           f"remove looks for {sorted(r)} but store writes {sorted(s)}: the data file survives removal and is resurrected by a later metadata write",
           ci.methods["remove"], ci.module, key="data-location")


# --------------------------------------------------------------------------- C13 memo sentinel
def rule_memo_sentinel(chk, rid):
    repo = chk.repo
    chk.rule(rid, "the SQL key-list memo starts as 'unknown': __init__ assigns the sentinel that the memo getter reloads on "
                  "(a cache object opened on a populated database must not believe the table is empty)")
    mod = repo.module(CACHE)
    ci = repo.cls(CACHE, "SQLCache")
    getter = ci.methods.get("available_keys")
    sentinel = None
    memo = None
    if getter is not None:
        for t in ast.walk(getter):
            if isinstance(t, ast.Compare) and isinstance(t.ops[0], ast.Is) and U(t.left).startswith("self."):
                memo, sentinel = U(t.left), U(t.comparators[0])
    if memo is None:
        raise AnalysisError("SQLCache.available_keys: reload test not found")
    init = ci.methods["__init__"]
    ws = [s for s in body_walk(init) if isinstance(s, ast.Assign) and U(s.targets[0]) == memo]
    ok = len(ws) >= 1 and all(U(s.value) == sentinel for s in ws)
    chk.ob(rid, f"{ci.qual}.__init__", ok, f"{memo} starts as {sentinel}" if ok else
           f"{memo} starts as `{U(ws[0].value) if ws else None}` instead of the reload sentinel {sentinel}: contains()/keys() of a re-opened database are empty",
           ws[0] if ws else init, mod, key="memo-sentinel")


# --------------------------------------------------------------------------- C14 component boundary everywhere
def rule_prefix_tests_at_boundary(chk, rid, all_stores=False):
    repo = chk.repo
    chk.rule(rid, ("every prefix test between two keys in a store class (liquer.store, liquer.recipes) " if all_stores else
                   "every prefix test between a key and a mount prefix / route in MountPointStore ") +
                  "is made at a component boundary (`x.startswith(y + '/')`, or y extended with '/' before the test)")
    if all_stores:
        cis = [ci for (mn, cn), ci in sorted(repo._classes.items()) if mn in (STORE, "liquer.recipes")]
        repo.module(STORE)
        repo.module("liquer.recipes")
    else:
        cis = [repo.cls(STORE, "MountPointStore")]
    n = 0
    for ci in cis:
        mod = ci.module
        for mn, fn in ci.methods.items():
            cfg = None
            for c in calls_in(fn, tail="startswith"):
                if not c.args or isinstance(c.args[0], ast.Constant):
                    continue
                a = c.args[0]
                n += 1
                ok = False
                from ..lib import is_slash_terminated as slashed
                if slashed(a):
                    ok = True
                elif isinstance(a, ast.Name):
                    ext = [s for s in body_walk(fn) if isinstance(s, ast.AugAssign) and U(s.target) == a.id and U(s.value) == "'/'"]
                    if ext:
                        cfg = cfg or CFG(fn)
                        ok = any(cfg.can_reach(cfg.node_of(s), cfg.node_of(c)) for s in ext)
                    # the test sits on the branch where the name is known to end with '/'
                    cfg = cfg or CFG(fn)
                    if any(t_.replace('"', "'") == f"{a.id}.endswith('/')" and p_ for _, t_, p_, _ in dominating_literals(cfg, cfg.node_of(c))):
                        ok = True
                    # every definition of the name in this function is `<expr> + '/'`
                    defs = [s for s in body_walk(fn) if isinstance(s, ast.Assign) and any(U(t) == a.id for t in s.targets)]
                    if defs and all(slashed(d.value) for d in defs) and a.id not in params(fn):
                        ok = True
                    # generator variable over the list of already extended prefixes
                    for gen in ast.walk(fn):
                        if isinstance(gen, ast.comprehension) and U(gen.target) == a.id and U(gen.iter) == "prefixes":
                            ok = True
                chk.ob(rid, f"{ci.qual}.{mn}", ok, f"`{U(c)}` tests at a component boundary" if ok else
                       f"`{U(c)}` is a raw string-prefix test: `dat` matches `data`, `logs/app` matches `logs/app2/x`", c, mod, key=f"boundary:{U(c)[:40]}")
    chk.floor(rid, n, 12 if all_stores else 5, "prefix tests")


# --------------------------------------------------------------------------- C15 recursion through the overlay's own view
def rule_overlay_recursion_own_view(chk, rid):
    repo = chk.repo
    chk.rule(rid, "recursive removal walks the overlay's own merged view: inside OverlayStore.removedir the listing and the "
                  "directory test are self.listdir_keys / self.is_dir, never a single layer's")
    mod = repo.module(STORE)
    fn = repo.func(STORE, "OverlayStore.removedir")
    n = 0
    for c in calls_in(fn):
        if call_tail(c) in ("is_dir", "listdir", "listdir_keys", "contains") :
            n += 1
            r = call_recv(c)
            # layer calls are allowed only when deciding *where* to remove (overlay.contains/overlay.remove)
            if r in ("self.overlay", "self.fallback") and call_tail(c) in ("is_dir", "listdir", "listdir_keys"):
                chk.ob(rid, f"{STORE}.OverlayStore.removedir", False, f"`{U(c)}` consults one layer only: directories that live in the other layer are not descended into",
                       c, mod, key=f"own-view:{call_tail(c)}")
            else:
                chk.ob(rid, f"{STORE}.OverlayStore.removedir", True, f"`{U(c)}`", c, mod, key=f"own-view:{call_tail(c)}:{r}", nontrivial=False)
    chk.floor(rid, n, 3, "view calls in removedir")


# --------------------------------------------------------------------------- C17 read_only identity test
def rule_read_only_identity(chk, rid):
    repo = chk.repo
    chk.rule(rid, "read_only() returns the store itself only when it already is a ReadOnlyStore")
    mod = repo.module(STORE)
    fn = repo.func(STORE, "StoreMixin.read_only")
    cfg = CFG(fn)
    for r in returns_of(fn):
        if U(r.value) == "self":
            lits = dominating_literals(cfg, cfg.node_of(r))
            ok = any(txt == "isinstance(self, ReadOnlyStore)" and pol for _, txt, pol, _ in lits)
            chk.ob(rid, f"{STORE}.StoreMixin.read_only", ok, "`return self` only for a ReadOnlyStore" if ok else
                   "`return self` under a wider test: a writable proxy is handed out as the 'read-only' view", r, mod, key="identity")


# --------------------------------------------------------------------------- C18 store key before any materialisation
def rule_store_key_before_materialise(chk, rid):
    ev = F.Evaluate(chk.repo)
    chk.rule(rid, "the context remembers the store key before any exit can materialise the result (so the copy kept by the store "
                  "exists for cache hits too)")
    sk = [s for s in body_walk(ev.fn) if isinstance(s, ast.Assign) and U(s.targets[0]) == "self.store_key"]
    ok = len(sk) == 1 and U(sk[0].value) == "store_key"
    chk.ob(rid, f"{CTX}.Context.evaluate", ok, "self.store_key = store_key", ev.fn, ev.mod, key="remember-key")
    if sk:
        sn = ev.node(sk[0])
        for c in ev.store_state_calls:
            chk.ob(rid, f"{CTX}.Context.evaluate", ev.cfg.dominates(sn, ev.node(c)), "store key is set before this _store_state call" if ev.cfg.dominates(sn, ev.node(c)) else
                   "this exit materialises the result before the store key is remembered: nothing is written under the key", c, ev.mod, key=f"key-before-store:{c.lineno - ev.fn.lineno > 0 and len([x for x in ev.store_state_calls if x.lineno < c.lineno])}")


# --------------------------------------------------------------------------- C19 early return only for an empty path
def rule_to_absolute_early_return(chk, rid):
    repo = chk.repo
    chk.rule(rid, "ResourceQuerySegment.to_absolute returns the segment unchanged only for an empty path (every other path is normalised)")
    m = repo.module(PARSER)
    fn = repo.func(PARSER, "ResourceQuerySegment.to_absolute")
    cfg = CFG(fn)
    for r in returns_of(fn):
        if U(r.value) == "self":
            tests = [n for n in cfg.nodes if n.kind == "test" and cfg.edge_dominates(n.id, "T", cfg.node_of(r))]
            ok = bool(tests)
            for t in tests:
                for d in flatten_boolop(t.ast, ast.Or):
                    txt, pol = _norm2(d, True)
                    if not ((txt == "self.query is None" and pol) or (txt == "len(self.query) == 0" and pol) or (txt == "self.query" and not pol)):
                        ok = False
            chk.ob(rid, f"{PARSER}.ResourceQuerySegment.to_absolute", ok, "`return self` only when the path is empty" if ok else
                   "`return self` also for non-empty paths: `a/../b` or `a/./b` is left un-normalised", r, m, key="early-return")


# --------------------------------------------------------------------------- removedir recursion keeps recursive=True (C07 C20)
def rule_removedir_recursion(chk, rid, classes):
    repo = chk.repo
    chk.rule(rid, "a recursive removedir stays recursive: every self.removedir(...) call made from a removedir body passes recursive=True")
    n = 0
    for modname, cn in classes:
        ci = repo.cls(modname, cn)
        fn = ci.methods.get("removedir")
        if fn is None:
            continue
        for c in calls_in(fn, tail="removedir"):
            if call_recv(c) != "self":
                continue
            n += 1
            kw = kwarg(c, "recursive") or (c.args[1] if len(c.args) > 1 else None)
            ok = kw is not None and (U(kw) in ("True", "recursive"))
            chk.ob(rid, f"{ci.qual}.removedir", ok, f"`{U(c)}` keeps recursing" if ok else
                   f"`{U(c)}` drops the recursive flag: non-empty sub-directories survive a recursive removal", c, ci.module, key="recursive-flag")
    chk.floor(rid, n, len(classes), "recursive removedir calls")


# --------------------------------------------------------------------------- get_json sibling agreement (C20)
def rule_get_json_force(chk, rid):
    repo = chk.repo
    chk.rule(rid, "sibling agreement: every handler of the blueprint reads the JSON body with request.get_json(force=True) "
                  "(the body counts regardless of the Content-Type header)")
    m = repo.module("liquer.server.blueprint")
    n = 0
    for fname, fn in m.functions.items():
        for c in calls_in(fn, tail="get_json"):
            n += 1
            f = kwarg(c, "force")
            ok = isinstance(f, ast.Constant) and f.value is True
            chk.ob(rid, f"liquer.server.blueprint.{fname}", ok, f"`{U(c)}`" + ("" if ok else
                   ": without force=True a JSON argument document sent without the JSON content type is silently ignored"), c, m, key="force")
    chk.floor(rid, n, 4, "get_json calls")


# =========================================================================== rules added after the third seeding round
def rule_to_list_raw(chk, rid):
    repo = chk.repo
    chk.rule(rid, "the recorded form of an action (ActionRequest.to_list -> metadata['commands']) carries the *decoded* text of string "
                  "parameters (x.string) and the encoded text only for link parameters")
    m = repo.module(PARSER)
    fn = repo.func(PARSER, "ActionRequest.to_list")
    cfg = CFG(fn)
    apps = [c for c in calls_in(fn, tail="append")]
    n = 0
    for c in apps:
        lits = dominating_literals(cfg, cfg.node_of(c))
        for _, txt, pol, _ in lits:
            if pol and txt.startswith("isinstance(") and "StringActionParameter" in txt:
                n += 1
                only_string = "LinkActionParameter" not in txt
                ok = only_string and c.args and U(c.args[0]).endswith(".string")
                chk.ob(rid, f"{PARSER}.ActionRequest.to_list", ok, f"string parameters are recorded as `{U(c.args[0])}`" + ("" if ok else
                       ": escaped query text is recorded instead of the argument the command received"), c, m, key="string-raw")
    chk.floor(rid, n, 1, "string-parameter branch in to_list")


def rule_store_metadata_fresh(chk, rid):
    repo = chk.repo
    chk.rule(rid, "stores hand out and keep *copies* of metadata: finalize_metadata returns a fresh deep copy (Metadata(...).as_dict() / "
                  "deepcopy), so neither a caller nor another layer can mutate a store's record through a returned dictionary")
    mod = repo.module(STORE)
    for cn in ("Store", "FileStore", "RoutingStore"):
        ci = repo.cls(STORE, cn)
        f = ci.methods.get("finalize_metadata")
        if f is None:
            continue
        for r in returns_of(f):
            v = r.value
            fresh = F.is_deep_copy_expr(v) or (isinstance(v, ast.Name) and any(
                isinstance(s, ast.Assign) and U(s.targets[0]) == v.id and isinstance(s.value, ast.Call) and call_name(s.value) == "super().finalize_metadata"
                for s in body_walk(f)))
            chk.ob(rid, f"{ci.qual}.finalize_metadata", fresh, f"returns `{U(v)[:50]}`" + ("" if fresh else
                   ": the store's own dictionary (or the caller's) is shared - a later write through one holder changes the other's record"), r, mod, key="fresh-copy")
    md = repo.func("liquer.metadata", "Metadata.as_dict")
    ok = all(isinstance(r.value, ast.Call) and call_tail(r.value) == "deepcopy" for r in returns_of(md)) and bool(returns_of(md))
    chk.ob(rid, "liquer.metadata.Metadata.as_dict", ok, "Metadata.as_dict is a deepcopy", md, repo.module("liquer.metadata"), key="as_dict-deep")


def rule_state_clone_deep(chk, rid):
    repo = chk.repo
    chk.rule(rid, "State.clone / next_state deep-copy the metadata: as_dict returns deepcopy(self.metadata) and from_dict deep-copies "
                  "what it is given (either one alone would do; both shallow makes clones share vars / attributes / log)")
    m = repo.module(STATE)
    ad = repo.func(STATE, "State.as_dict")
    adcfg = CFG(ad)
    def rv(cfg, r):
        return resolve_local(cfg, r.value, cfg.node_of(r)) if isinstance(r.value, ast.Name) else r.value
    a_deep = all(isinstance(rv(adcfg, r), ast.Call) and call_tail(rv(adcfg, r)) == "deepcopy" for r in returns_of(ad)) and bool(returns_of(ad))
    fd = repo.func(STATE, "State.from_dict")
    ws = [n for n in body_walk(fd) if isinstance(n, ast.Assign) and any(U(t) == "self.metadata" for t in n.targets)]
    f_deep = bool(ws) and all(isinstance(n.value, ast.Call) and call_tail(n.value) == "deepcopy" for n in ws)
    chk.ob(rid, f"{STATE}.State.as_dict", a_deep, "as_dict returns a deep copy" if a_deep else "as_dict returns a shallow copy", ad, m, key="as_dict")
    chk.ob(rid, f"{STATE}.State.from_dict", f_deep, "from_dict deep-copies" if f_deep else "from_dict keeps (a shallow copy of) the given dictionary", fd, m, key="from_dict")
    cl = repo.func(STATE, "State.clone")
    chk.ob(rid, f"{STATE}.State.clone", "from_dict(self.as_dict())" in U(cl) or "deepcopy(self.metadata)" in U(cl), "clone goes through as_dict/from_dict", cl, m, key="clone")


def rule_initial_state_plain(chk, rid):
    repo = chk.repo
    chk.rule(rid, "the initial state is a plain State: no context attached (the error helpers of State mark the *state* only then) and "
                  "not volatile (a volatile input would make evaluate_action hand the caller's object to the first command)")
    m = repo.module(CTX)
    fn = repo.func(CTX, "Context.create_initial_state")
    for c in calls_in(fn):
        if call_tail(c) == "State" and isinstance(c.func, ast.Name):
            ok = not c.args and not c.keywords
            chk.ob(rid, f"{CTX}.Context.create_initial_state", ok, f"`{U(c)}`" + ("" if ok else
                   ": a state with a context delegates log_error/log_exception to the context and is never flagged itself"), c, m, key="plain-state")
    sv = [c for c in calls_in(fn, tail="set_volatile")]
    chk.ob(rid, f"{CTX}.Context.create_initial_state", not sv, "the initial state is not marked volatile" if not sv else
           "the initial state is marked volatile: the first command runs on the caller's own object (no protective clone)", sv[0] if sv else fn, m, key="not-volatile")


def rule_size_md5_identity_test(chk, rid):
    repo = chk.repo
    chk.rule(rid, "size and checksum are recorded whenever data is given (identity test `data is not None`, not truthiness: empty "
                  "payloads are data too)")
    mod = repo.module(STORE)
    fn = repo.func(STORE, "Store.finalize_metadata")
    cfg = CFG(fn)
    n = 0
    for s in body_walk(fn):
        if isinstance(s, ast.Assign) and any(k in U(s.targets[0]) for k in ("['size']", "['md5']", '["size"]', '["md5"]')):
            n += 1
            lits = dominating_literals(cfg, cfg.node_of(s))
            ok = any(txt == "data is None" and pol is False for _, txt, pol, _ in lits)
            chk.ob(rid, f"{STORE}.Store.finalize_metadata", ok, f"`{U(s.targets[0])}` is set under `data is not None`" if ok else
                   f"`{U(s.targets[0])}` is set under a truthiness test: an empty payload keeps the previous size/md5", s, mod, key=f"identity:{U(s.targets[0])[-8:]}")
    chk.floor(rid, n, 2, "size/md5 assignments")


def rule_remove_both_unconditional(chk, rid):
    from .fsproto import write_effects, ctor_kind
    repo = chk.repo
    chk.rule(rid, "FileStore.remove unlinks the data file and the metadata file independently: neither unlink can be skipped because "
                  "the other file is missing (each lies on every path from entry to exit)")
    mod = repo.module(STORE)
    fn = repo.func(STORE, "FileStore.remove")
    cfg, effs = write_effects(fn)
    un = [e for e in effs if e.kind == "unlink"]
    for kind in ("data", "metadata"):
        es = [e for e in un if ctor_kind(e.ctor) == kind]
        ok = bool(es) and cfg.exit not in cfg.reachable(cfg.entry, avoid=[e.node for e in es])
        chk.ob(rid, f"{STORE}.FileStore.remove", ok, f"the {kind} file is unlinked on every path" if ok else
               f"the {kind} unlink is skipped on some path (e.g. when the other file is missing): a key with metadata only can never be removed", fn, mod, key=f"always:{kind}")


def rule_predecessor_keeps_absolute(chk, rid):
    repo = chk.repo
    chk.rule(rid, "Query.predecessor keeps absoluteness: every Query it builds passes absolute=self.absolute (otherwise prefixes of an "
                  "absolute query are filed and looked up under different texts)")
    m = repo.module(PARSER)
    fn = repo.func(PARSER, "Query.predecessor")
    n = 0
    for c in calls_in(fn):
        if isinstance(c.func, ast.Name) and c.func.id == "Query":
            n += 1
            ok = U(kwarg(c, "absolute") or (c.args[1] if len(c.args) > 1 else None)) == "self.absolute"
            chk.ob(rid, f"{PARSER}.Query.predecessor", ok, f"`{U(c)[:60]}` keeps absolute" if ok else f"`{U(c)[:60]}` drops the leading '/' of an absolute query", c, m, key=f"absolute:{n}")
    chk.floor(rid, n, 2, "Query constructions in predecessor")


def rule_json_type_registrations(chk, rid):
    repo = chk.repo
    chk.rule(rid, "the generic JSON state type is registered only for JSON scalars (None, int, float, bool): container types fall back to "
                  "the pickle type because their members may be arbitrary objects")
    m = repo.module(ST)
    fn = repo.func(ST, "StateTypesRegistry.__init__")
    ALLOWED = {"type(None)", "int", "float", "bool"}
    n = 0
    for c in calls_in(fn, tail="register"):
        if len(c.args) == 2 and isinstance(c.args[1], ast.Call) and call_name(c.args[1]) == "JsonStateType":
            n += 1
            t = U(c.args[0])
            chk.ob(rid, f"{ST}.StateTypesRegistry.__init__", t in ALLOWED, f"JsonStateType registered for `{t}`" + ("" if t in ALLOWED else
                   ": values of this type with non-JSON members (tuples, bytes, objects) no longer round-trip"), c, m, key=f"json:{t}")
    chk.floor(rid, n, 3, "JsonStateType registrations")
    d = [s for s in body_walk(fn) if isinstance(s, ast.Assign) and U(s.targets[0]) == "self.default_state_type"]
    chk.ob(rid, f"{ST}.StateTypesRegistry.__init__", len(d) == 1 and U(d[0].value) == "PickleStateType()", "unknown types default to the pickle type", fn, m, key="default-pickle")


def rule_memory_marker_after_slot(chk, rid):
    repo = chk.repo
    chk.rule(rid, "MemoryCache.store publishes the data before it clears the metadata-only marker (clearing first opens a window in "
                  "which the placeholder, already 'ready', is served)")
    mod = repo.module(CACHE)
    fn = repo.func(CACHE, "MemoryCache.store")
    cfg = CFG(fn)
    slot = [cfg.node_of(s) for s in body_walk(fn) if isinstance(s, ast.Assign) and any(isinstance(t, ast.Subscript) and U(t.value).startswith("self.") for t in s.targets)]
    clr = [cfg.node_of(c) for c in calls_in(fn) if (call_recv(c) or "").startswith("self.") and call_tail(c) in ("discard", "remove") and call_recv(c) != "self.storage"]
    if not clr:
        chk.ob(rid, f"{CACHE}.MemoryCache.store", True, "no separate marker", fn, mod, key="marker-order", nontrivial=False)
        return
    ok = bool(slot) and all(cfg.set_dominates(slot, c) for c in clr)
    chk.ob(rid, f"{CACHE}.MemoryCache.store", ok, "the slot is assigned before the marker is cleared" if ok else
           "the metadata-only marker is cleared before the slot holds the data", fn, mod, key="marker-order")


def rule_charset_agreement(chk, rid):
    repo = chk.repo
    chk.rule(rid, "writer/reader charset agreement: in every state type of state_types.py the charset constants used by as_bytes "
                  "(.encode) and by from_bytes (.decode) are the same")
    m = repo.module(ST)
    n = 0
    for ci in repo.classes_in(ST):
        if not ci.is_subclass_of("StateType") or ci.name == "StateType":
            continue
        w, r = ci.methods.get("as_bytes"), ci.methods.get("from_bytes")
        if w is None or r is None:
            continue
        enc = {c.args[0].value for c in calls_in(w, tail="encode") if c.args and isinstance(c.args[0], ast.Constant)}
        dec = {c.args[0].value for c in calls_in(r, tail="decode") if c.args and isinstance(c.args[0], ast.Constant)}
        if not enc and not dec:
            continue
        n += 1
        chk.ob(rid, f"{ci.qual}", (not enc or not dec) or enc == dec, f"writer charset {sorted(enc)}, reader charset {sorted(dec)}" + ("" if enc == dec or not enc or not dec else
               ": the reader transforms what the writer wrote (e.g. strips a leading BOM)"), r, m, key="charset")
    chk.floor(rid, n, 3, "state types with text codecs")


def rule_exception_siblings(chk, rid):
    repo = chk.repo
    chk.rule(rid, "KeyRouteNotFoundStoreException is not a KeyNotSupportedStoreException: `is_supported` swallows the latter, and a "
                  "missing route must not be turned into 'not supported' (the outer store would fall through to its default store)")
    mod = repo.module(STORE)
    ci = repo.cls(STORE, "KeyRouteNotFoundStoreException")
    names = [c.name for c in ci.mro()]
    ok = "KeyNotSupportedStoreException" not in names and "StoreException" in names
    chk.ob(rid, ci.qual, ok, f"bases: {names[1:]}", ci.node, mod, key="hierarchy")
    nf = repo.cls(STORE, "KeyNotFoundStoreException")
    chk.ob(rid, nf.qual, "KeyNotSupportedStoreException" not in [c.name for c in nf.mro()], "not-found is not not-supported", nf.node, mod, key="hierarchy")


def rule_metadata_exception_flags(chk, rid):
    repo = chk.repo
    chk.rule(rid, "Metadata.exception / Metadata.error mark status AND flag: they go through the status setter (which raises is_error) "
                  "or set both explicitly")
    mm = repo.module("liquer.metadata")
    ci = repo.cls("liquer.metadata", "Metadata")
    setter = ci.methods.get("status.setter")
    setter_ok = setter is not None and "self.metadata['is_error'] = True" in U(setter).replace('"', "'")
    chk.ob(rid, "liquer.metadata.Metadata.status", setter_ok, "the status setter raises is_error for Status.ERROR", setter or ci.node, mm, key="setter")
    for mn in ("exception", "error"):
        fn = ci.methods.get(mn)
        if fn is None:
            continue
        via_setter = any(isinstance(s, ast.Assign) and U(s.targets[0]) == "self.status" and "ERROR" in U(s.value) for s in body_walk(fn))
        explicit = any(isinstance(s, ast.Assign) and "is_error" in U(s.targets[0]) and U(s.value) == "True" for s in body_walk(fn))
        chk.ob(rid, f"liquer.metadata.Metadata.{mn}", (via_setter and setter_ok) or explicit, "marks status and flag" if (via_setter or explicit) else
               "writes the status without raising the error flag (status 'error' with is_error False)", fn, mm, key=f"flags:{mn}")


def rule_regex_action_agreement(chk, rid):
    import re as _re2
    repo = chk.repo
    chk.rule(rid, "a token's grammar regex and the regex its parse action uses to split it agree: stripping the capture groups of the "
                  "action's pattern gives a pattern that accepts everything the token regex accepts (sampled over the token alphabet)")
    m = repo.module(PARSER)
    from ..grammar import Grammar
    g = Grammar(m)
    n = 0
    for rule, act in (("resource_identifier", "_resource_identifier_action"), ("segment_identifier", "_segment_identifier_action")):
        fn = m.functions.get(act)
        if fn is None or rule not in g.IR:
            raise AnalysisError(f"{rule}/{act} not found")
        pats = [c.args[0].value for c in calls_in(fn) if call_name(c) in ("re.match", "re.fullmatch") and c.args and isinstance(c.args[0], ast.Constant)]
        toks = []
        stack = [g.IR[rule]]
        while stack:
            x = stack.pop()
            if x.kind == "re":
                toks.append(x.kw["s"])
            stack.extend(x.kids)
        if not pats or not toks:
            raise AnalysisError(f"{rule}/{act}: patterns not found")
        samples = ["-", "--", "-a", "-aB1_", "--x", "-R", "-Rmeta", "-RData", "-R2020", "-R_x", "--Rab", "-Rx_1", "-q", "-Abc"]
        bad = []
        for tk in toks:
            for smp in samples:
                if _re2.fullmatch(tk, smp):
                    mt = _re2.match(pats[0], smp)
                    whole = mt is not None and mt.end() == len(smp)
                    if not whole:
                        bad.append(smp)
        n += 1
        chk.ob(rid, f"{PARSER}.{act}", not bad, f"action pattern {pats[0]!r} covers token pattern(s) {toks}" if not bad else
               f"action pattern {pats[0]!r} does not consume {bad} which the token pattern accepts: the name is truncated / the segment becomes the unnamed one",
               fn, m, key=f"agree:{rule}")
    chk.floor(rid, n, 2, "token/action regex pairs")


# =========================================================================== rules added after the fourth seeding round
def rule_keystream_length(chk, rid):
    """XORFileCache: the key stream handed to the XOR has exactly the payload's length on every path (numpy broadcasting raises
    otherwise, and the failed store leaves a `ready` state file without data: the entry is never served and every prefix is
    re-executed). Accepted idioms, enumerated: `self.code[:n]` under `n <= len(self.code)`; `np.tile(self.code, K)[:n]` with
    K = int(n / len(self.code)) + 1 (or n // len(self.code) + 1); `np.resize(self.code, n)`."""
    repo = chk.repo
    chk.rule(rid, "XOR key stream has the payload's length: every return of XORFileCache.code_of_length(n) is a prefix slice `[:n]` of "
                  "something at least n long (the key under `n <= len(key)`, or the key tiled int(n/len)+1 times), and encode asks for len(payload)")
    m = repo.module("liquer.cache")
    fn = repo.func("liquer.cache", "XORFileCache.code_of_length")
    C = "liquer.cache.XORFileCache.code_of_length"
    p = params(fn)[1]
    cfg = CFG(fn)
    rets = returns_of(fn)
    chk.floor(rid, len(rets), 1, "returns of code_of_length")
    for i, r in enumerate(rets):
        v = r.value
        ok, why = False, f"returns `{U(v)[:60]}`"
        if isinstance(v, ast.Call) and call_name(v) == "np.resize" and len(v.args) == 2 and U(v.args[0]) == "self.code" and U(v.args[1]) == p:
            ok = True
        elif isinstance(v, ast.Subscript) and isinstance(v.slice, ast.Slice) and v.slice.lower is None and v.slice.step is None \
                and v.slice.upper is not None and U(v.slice.upper) == p:
            base = v.value
            if U(base) == "self.code":
                lits = dominating_literals(cfg, cfg.node_of(r))
                ok = any((t in (f"{p} <= len(self.code)", f"len(self.code) >= {p}") and pol is True) or
                         (t in (f"{p} > len(self.code)", f"len(self.code) < {p}") and pol is False) for _, t, pol, _ in lits)
                why += "" if ok else f": the key itself is long enough only under `{p} <= len(self.code)`"
            elif isinstance(base, ast.Call) and call_name(base) == "np.tile" and len(base.args) == 2 and U(base.args[0]) == "self.code":
                k = U(base.args[1]).replace(" ", "")
                ok = k in (f"int({p}/len(self.code))+1", f"{p}//len(self.code)+1", f"1+int({p}/len(self.code))", f"1+{p}//len(self.code)")
                why += "" if ok else f": {k} repetitions do not cover {p} bytes for every {p}"
        else:
            why += f": not a prefix slice `[:{p}]` - its length differs from the payload's"
        chk.ob(rid, C, ok, why, r, m, key=f"return:{i}")
    enc = repo.func("liquer.cache", "XORFileCache.encode")
    b = params(enc)[1]
    cs = [c for c in calls_in(enc, tail="code_of_length")]
    ok = len(cs) == 1 and len(cs[0].args) == 1 and U(cs[0].args[0]) in (f"len({b})", "len(ba)")
    chk.ob(rid, "liquer.cache.XORFileCache.encode", ok, f"asks for a key stream of len({b})", cs[0] if cs else enc, m, key="request")


def rule_prefix_test_direction(chk, rid):
    """MountPointStore: a routing question (route_to) asks which mount the *queried key* lies below - the key is the receiver of the
    prefix test; a directory question (is_dir fallback, listdir) asks which mounts / entries lie below the queried key - the iterated
    entry is the receiver and the key (+ '/') the argument. Table confirmed by reading; swapping receiver and argument keeps every
    test at a component boundary but answers the opposite question."""
    repo = chk.repo
    chk.rule(rid, "direction of prefix tests in MountPointStore: route_to tests `key.startswith(<mount>)`; is_dir and listdir test "
                  "`<mount or entry>.startswith(key + '/')` (mount points and their parents appear as directories)")
    mod = repo.module(STORE)
    ci = repo.cls(STORE, "MountPointStore")
    TABLE = {"route_to": "param", "is_dir": "entry", "listdir": "entry"}
    n = 0
    for mn, want in TABLE.items():
        fn = ci.methods.get(mn)
        if fn is None:
            raise AnalysisError(f"MountPointStore.{mn} not found")
        kp = params(fn)[1]
        loopvars = set()
        for f in ast.walk(fn):
            if isinstance(f, (ast.For, ast.comprehension)):
                t = f.target
                for e in (t.elts if isinstance(t, ast.Tuple) else [t]):
                    if isinstance(e, ast.Name):
                        loopvars.add(e.id)
        # locals derived from the key parameter (e.g. dir_key = key + '/') count as the key
        derived = {kp}
        for s in body_walk(fn):
            if isinstance(s, ast.Assign) and len(s.targets) == 1 and isinstance(s.targets[0], ast.Name) \
                    and kp in {x.id for x in ast.walk(s.value) if isinstance(x, ast.Name)} and not (loopvars & {x.id for x in ast.walk(s.value) if isinstance(x, ast.Name)}):
                derived.add(s.targets[0].id)
        found = 0
        for c in calls_in(fn, tail="startswith"):
            if not c.args or isinstance(c.args[0], ast.Constant) or not isinstance(c.func.value, ast.Name):
                continue
            recv = c.func.value.id
            argnames = {x.id for x in ast.walk(c.args[0]) if isinstance(x, ast.Name)}
            rk = "param" if recv in derived else "entry" if recv in loopvars else "?"
            ak = "param" if argnames & derived else "entry" if argnames & loopvars else "?"
            if "?" in (rk, ak) or rk == ak:
                continue
            found += 1
            n += 1
            ok = rk == want
            chk.ob(rid, f"{ci.qual}.{mn}", ok, f"`{U(c)}`: " + ("the queried key is tested against each mount" if want == "param" else "each mount / entry is tested for lying below the queried key")
                   if ok else f"`{U(c)}` asks whether the " + ("mount lies below the key" if want == "param" else "key lies below a mount") +
                   f" - the opposite of what {mn} needs (" + ("routing" if want == "param" else "parents of mount points are directories") + ")",
                   c, mod, key=f"direction:{mn}")
        chk.ob(rid, f"{ci.qual}.{mn}", found >= 1, f"{found} key/mount prefix test(s) in {mn}", fn, mod, key=f"present:{mn}", nontrivial=False)
    chk.floor(rid, n, 3, "directed prefix tests")


def rule_metadata_write_never_decorates_data(chk, rid):
    """MemoryCache: an entry is served from one slot holding (data, metadata); the data-presence witness is the `metadata_only` set.
    A metadata-only write (progress metadata of an evaluation that missed the cache earlier) must not land on a slot that holds the
    data another evaluation has stored meanwhile: the reader would get that data labelled with foreign, incomplete metadata whose
    status may already say ready. So the metadata assignment is reached only for a placeholder: either the slot was just re-created
    as a placeholder or the key is known to be in `metadata_only`."""
    repo = chk.repo
    chk.rule(rid, "MemoryCache.store_metadata writes only onto a placeholder: every path to `self.storage[key].metadata = ...` re-creates the "
                  "slot as a placeholder (State() + metadata_only.add) or has established `key in self.metadata_only`")
    m = repo.module("liquer.cache")
    fn = repo.func("liquer.cache", "MemoryCache.store_metadata")
    C = "liquer.cache.MemoryCache.store_metadata"
    cfg = CFG(fn)
    writes = [n for n in cfg.nodes if n.kind == "stmt" and isinstance(n.ast, ast.Assign) and U(n.ast.targets[0]).startswith("self.storage[") and U(n.ast.targets[0]).endswith("].metadata")]
    if not writes:
        chk.ob(rid, C, False, "no assignment to the slot's metadata found", fn, m, key="placeholder-only")
        return
    creates = [n.id for n in cfg.nodes if n.kind == "stmt" and isinstance(n.ast, ast.Assign) and U(n.ast.targets[0]).startswith("self.storage[")
               and not U(n.ast.targets[0]).endswith(".metadata") and isinstance(n.ast.value, ast.Call) and call_name(n.ast.value) == "State"]
    adds = [cfg.node_of(c) for c in calls_in(fn, tail="add") if call_recv(c) == "self.metadata_only"]
    for w in writes:
        keytxt = U(w.ast.targets[0])[len("self.storage["):-len("].metadata")]
        safe_edges = [(t.id, lab) for t in cfg.nodes if t.kind == "test" for lab in ("T", "F")
                      if any(x[1] == f"{keytxt} in self.metadata_only" and x[2] is True for x in literals_of_test(t.ast, lab))]
        # placeholder creation = State() slot followed by metadata_only.add on every path to the write
        good_creates = [c for c in creates if adds and all(cfg.must_pass(c, w.id, adds) for _ in [0])]
        unguarded = w.id in cfg.reachable(cfg.entry, avoid=good_creates, avoid_edges=safe_edges)
        chk.ob(rid, C, not unguarded, "the metadata is written onto a placeholder only" if not unguarded else
               "the metadata can be written onto a slot that holds data (stored meanwhile by another evaluation of the same key): a reader gets "
               "that data with this evaluation's progress metadata, whose status may already say ready", w.ast, m, key="placeholder-only")
