"""C09 - cache reuse."""
from . import cachefam as F

from . import extra as X

EXPLANATION = ("Structural conditions for reuse: lookup dominates work and the hit branch returns early; every recursion "
               "level files its result and hands the cache down; per back-end the writer's and the readers' location "
               "expressions agree; SQL factories keep one row per key; combinators store when admitting and consult both "
               "children. NOT decided: the number of commands executed.")


def run(chk):
    ev = F.Evaluate(chk.repo)
    F.rule_lookup_before_work(chk, ev, "C09.1")
    F.rule_lookup_key(chk, ev, "C09.1b")
    F.rule_every_level_files(chk, ev, "C09.2")
    F.rule_recursion_passes_cache(chk, ev, "C09.2b")
    F.rule_location_agreement(chk, chk.repo, "C09.3")
    F.rule_one_row_per_key(chk, chk.repo, "C09.4")
    F.rule_combinator_store(chk, chk.repo, "C09.5")
    F.rule_progress_metadata_guard(chk, ev, "C09.7")
    X.rule_trigger_complements_guard(chk, "C09.8")
    X.rule_predecessor_keeps_absolute(chk, "C09.9")
    X.rule_keystream_length(chk, "C09.10")
