"""Rule primitives shared by the store-family properties (C07 C14 C15 C17)."""
import ast
from ..core import (AnalysisError, U, calls_in, call_tail, call_recv, call_name, body_walk, kwarg, arg_or_kw, dotted)
from ..cfg import CFG, assigned_value
from ..lib import (params, returns_of, is_none_const, self_field_writes, fs_write_calls, is_write_open,
                   dominating_literals, has_literal, all_paths_raise, only_raises)

STORE = "liquer.store"
KEY_API = ["get_bytes", "get_metadata", "store", "store_metadata", "remove", "removedir", "contains", "is_dir",
           "listdir", "makedir", "openbin", "is_supported"]
STORE_API = KEY_API + ["keys"]
READS = ["get_bytes", "get_metadata", "contains", "is_dir", "keys", "listdir", "is_supported"]
LEAVES = ["MemoryStore", "FileStore"]
WRAPPERS = ["ProxyStore", "IndexerStore", "ReadOnlyStore", "OverlayStore", "RoutingStore", "MountPointStore",
            "KeyTranslatingStore", "PrefixStore"]
FS_WRITE_TAILS = {"write_bytes", "write_text", "unlink", "rmdir", "mkdir", "touch", "rmtree", "makedirs"}
NON_FS_REMOVE_RECV = ("self.directories", "self.removed", "self.data", "self.metadata")


def direct_effects(fn):
    """[(kind, node)] kind in {'fs-write', 'field-write'} for the statements of fn itself."""
    out = []
    for c in calls_in(fn):
        t = call_tail(c)
        if t == "open" and is_write_open(c):
            out.append(("fs-write", c))
        elif t in FS_WRITE_TAILS and isinstance(c.func, ast.Attribute):
            out.append(("fs-write", c))
        elif t in ("replace", "rename") and isinstance(c.func, ast.Attribute) and len(c.args) == 1 and "path" in U(c.func.value).lower():
            out.append(("fs-write", c))
        elif call_name(c) in ("os.remove", "os.unlink", "os.replace", "os.rename", "json.dump", "shutil.rmtree"):
            out.append(("fs-write", c))
    for s in self_field_writes(fn):
        out.append(("field-write", s))
    return out


def effects(ci, mname, depth=3, _seen=None):
    """Transitive effects of ci.<mname> through self.<m>() calls (inlining bound `depth`)."""
    _seen = _seen or set()
    dc, fn = ci.find_method(mname)
    if fn is None or (dc.qual, mname) in _seen:
        return []
    _seen.add((dc.qual, mname))
    out = [(k, n, f"{dc.name}.{mname}") for k, n in direct_effects(fn)]
    if depth > 0:
        for c in calls_in(fn):
            if call_recv(c) == "self" and ci.find_method(call_tail(c))[1] is not None:
                out += effects(ci, call_tail(c), depth - 1, _seen)
    return out


def derived_mutators(repo):
    """A Store-API method is a mutator iff its effect summary in some leaf store has a write."""
    M = {}
    for ln in LEAVES:
        ci = repo.cls(STORE, ln)
        for m in STORE_API:
            eff = effects(ci, m)
            if eff:
                M.setdefault(m, []).append((ln, eff[0][0], eff[0][2]))
    return M


def forwarded_calls(fn, recv_pred):
    """{method name: [call]} for calls `<recv>.<m>(...)` in fn with recv_pred(receiver text)."""
    out = {}
    for c in calls_in(fn):
        r = call_recv(c)
        if r is not None and recv_pred(r):
            out.setdefault(call_tail(c), []).append(c)
    return out


def key_param(fn):
    ps = params(fn)
    return ps[1] if len(ps) > 1 else None
