"""C13 - every cache back-end is a faithful key-value map of states."""
from . import cachefam as F

from . import extra as X

EXPLANATION = ("Structural clauses of the key-value contract over every cache class of liquer/cache.py: API "
               "completeness, data-presence witness per back-end, memo invalidation, one-row-per-key, combinators "
               "reaching both children, verbatim forwarding, injective key->location, codec discipline of the "
               "obfuscating caches, removal of both halves. NOT decided: value equality, arbitrary histories.")


def run(chk):
    repo = chk.repo
    F.rule_api_complete(chk, repo, "C13.0")
    F.rule_data_presence_witness(chk, repo, "C13.1")
    F.rule_memo_invalidation(chk, repo, "C13.2")
    F.rule_one_row_per_key(chk, repo, "C13.3")
    F.rule_combinators_reach_both(chk, repo, "C13.4")
    F.rule_wrappers_forward(chk, repo, "C13.5")
    F.rule_key_location_injective(chk, repo, "C13.6")
    F.rule_obfuscation(chk, repo, "C13.7")
    F.rule_remove_both_halves(chk, repo, "C13.8")
    F.rule_location_agreement(chk, repo, "C13.9")
    F.rule_memory_copy(chk, repo, "C13.10")
    X.rule_codec_pairs(chk, "C13.11")
    X.rule_memory_per_key_locality(chk, "C13.12")
    X.rule_memo_sentinel(chk, "C13.13")
    X.rule_charset_agreement(chk, "C13.14")
    X.rule_keystream_length(chk, "C13.15")
