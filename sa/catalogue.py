"""Mutant / benign-twin catalogue for the thorough tier (see sa/mutants.py).

M(name, props, file, function, old, new, rules=None)  -> must be reported by every property in `props`
T(name, props, file, function, old, new)              -> must stay silent for every property in `props`
`old` must occur exactly once inside the source of `function` ('Class.method', 'function', 'Class' or '' = module).
"""
CATALOGUE = []

CTX = "liquer/context.py"
CACHE = "liquer/cache.py"
PARSER = "liquer/parser.py"
STORE = "liquer/store.py"
CMD = "liquer/commands.py"
STATE = "liquer/state.py"
ST = "liquer/state_types.py"
RC = "liquer/recipes.py"
BP = "liquer/server/blueprint.py"
RS = "liquer/remote_store.py"


def _norm(edit):
    if isinstance(edit[0], str):
        return [tuple(edit)]
    if isinstance(edit[0], list):
        return [tuple(x) for x in edit[0]]
    return [tuple(x) for x in edit]


def _add(kind, name, props, edits, rules=None, **kw):
    if isinstance(props, str):
        props = [props]
    CATALOGUE.append({"kind": kind, "name": name, "props": props, "edits": edits, "rules": rules or {}, **kw})


def M(name, props, *edit, rules=None, **kw):
    _add("mutant", name, props, _norm(edit), rules, **kw)


def T(name, props, *edit, **kw):
    _add("twin", name, props, _norm(edit), None, **kw)


# ======================================================================================= evaluator (C01 C04 C05 C06 C08 C09 C18)
M("recursion evaluates the whole query instead of the predecessor", ["C01"], CTX, "Context.evaluate",
  "state = c.evaluate(p, cache=cache,", "state = c.evaluate(query, cache=cache,")
M("recursion drops input_value", ["C01"], CTX, "Context.evaluate",
  "state = c.evaluate(p, cache=cache, input_value=input_value, input_value_specified=input_value_specified)",
  "state = c.evaluate(p, cache=cache, input_value_specified=input_value_specified)")
M("extra parameters handed to the recursion", ["C01"], CTX, "Context.evaluate",
  "state = c.evaluate(p, cache=cache,", "state = c.evaluate(p, extra_parameters=extra_parameters, cache=cache,")
M("action applied to the predecessor instead of the last step", ["C01"], CTX, "Context.evaluate",
  "state = self.evaluate_action(state, r, extra_parameters=extra_parameters)", "state = self.evaluate_action(state, p, extra_parameters=extra_parameters)")
M("absolute and relative link routing swapped", ["C01"], CTX, "Context.evaluate_parameter",
  "value = self.apply(p.link)", "value = self.evaluate(p.link)")
M("int arguments parsed as float", ["C01"], CMD, "argument_parser_from_command_metadata", "int=INT_AP,", "int=FLOAT_AP,")
M("expanded-link rung dropped from the int parser", ["C01"], CMD, "IntArgumentParser.parse_meta",
  "elif isinstance(args[0], ExpandedActionParameter):", "elif isinstance(args[0], LinkedActionParameterXX):")
M("namespaces scanned in reverse", ["C01"], CMD, "CommandRegistry.resolve_command",
  'for ns in state.vars.get("active_namespaces", ["root"]):', 'for ns in reversed(state.vars.get("active_namespaces", ["root"])):')
M("parameters built in reverse order", ["C01"], CTX, "Context.evaluate_action",
  "parameters.append(self.evaluate_parameter(p, action))", "parameters.insert(0, self.evaluate_parameter(p, action))")
M("first commands receive the state", ["C01"], CMD, "FirstCommandExecutable.__call__", "result = self.f(*argv)", "result = self.f(state, *argv)")
T("parameters built with a comprehension", ["C01", "C05", "C06", "C18"], CTX, "Context.evaluate_action",
  """            for p in action.parameters:
                parameters.append(self.evaluate_parameter(p, action))
""", """            parameters = [self.evaluate_parameter(p, action) for p in action.parameters]
""")
T("debug line removed from evaluate", ["C01", "C04", "C05", "C06", "C08", "C09", "C18"], CTX, "Context.evaluate",
  '        self.debug(f"Using cache {repr(cache)}")\n', "")
T("hit test written with early negative return", ["C04", "C05", "C08", "C09", "C18"], CTX, "Context.evaluate",
  """            state = cache.get(query.encode())
            if state is not None:
                self.debug(f"Cache hit {query}")
                self._store_state(state)
                state = self.index_state(state)
                return state
""", """            state = cache.get(query.encode())
            if not (state is None):
                self._store_state(state)
                state = self.index_state(state)
                return state
""")

M("admission guard loses the volatility conjunct", ["C05"], CTX, "Context.evaluate",
  "            and not state.is_error\n            and not state.is_volatile()\n", "            and not state.is_error\n", rules={"C05": ["C05.1"]})
M("admission guard loses the error conjunct", ["C05"], CTX, "Context.evaluate",
  "            and not state.is_error\n            and not state.is_volatile()\n", "            and not state.is_volatile()\n", rules={"C05": ["C05.1"]})
M("stale entry no longer removed", ["C05"], CTX, "Context.evaluate",
  "                if not cache.remove(state.query):", "                if not cache.contains(state.query):", rules={"C05": ["C05.1"]})
M("list extras do not force volatility", ["C05"], CTX, "Context.evaluate_action",
  "                    parameters.extend(extra_parameters)\n                    is_volatile = True\n", "                    parameters.extend(extra_parameters)\n", rules={"C05": ["C05.2"]})
M("result volatility ignores the input's", ["C05"], CTX, "Context.evaluate_action",
  "state.set_volatile(is_volatile or state.is_volatile())", "state.set_volatile(state.is_volatile())", rules={"C05": ["C05.2"]})
M("caching flag taken from the context only", ["C05"], CTX, "Context.evaluate_action",
  """        metadata["caching"] = metadata.get("caching", True) and state.metadata.get(
            "caching", True
        )""", """        metadata["caching"] = metadata.get("caching", True)""", rules={"C05": ["C05.3"]})
M("NoCache no longer selected for injected inputs", ["C05", "C04"], CTX, "Context.evaluate",
  "            if input_value_specified or input_value is not None:", "            if input_value_specified:", rules={"C05": ["C05.4"], "C04": ["C04.1"]})
M("memory back-end accepts error states", ["C05"], CACHE, "MemoryCache.store", "        if state.is_error:\n            return None\n", "", rules={"C05": ["C05.5"]})
M("file back-end serves any status", ["C05", "C06", "C12"], CACHE, "FileCache.get",
  '        if metadata.get("status") != "ready":', '        if metadata.get("status") == "error":')
M("result filed before it is labelled", ["C05", "C18"], CTX, "Context.evaluate",
  "        state = self.evaluate_action(state, r, extra_parameters=extra_parameters)\n        state.query = query.encode()\n",
  "        state = self.evaluate_action(state, r, extra_parameters=extra_parameters)\n")
T("ready gate written positively", ["C05", "C06", "C12", "C13"], CACHE, "MemoryCache.get",
  """            if state.metadata.get("status") != "ready":
                return None
            return state.clone()""", """            if state.metadata.get("status") == "ready":
                return state.clone()
            return None""")
T("cache local renamed in SQL store", ["C05", "C13", "C09"], CACHE, "SQLCache.store",
  "        key = state.query\n", "        key = state.query\n        query_key = key\n")

M("recursion re-selects the global cache", ["C04", "C09"], CTX, "Context.evaluate",
  "state = c.evaluate(p, cache=cache,", "state = c.evaluate(p, cache=self.cache(),")
M("memory cache returns the stored object", ["C04", "C10", "C13", "C12", "C18"], CACHE, "MemoryCache.get", "return state.clone()", "return state")
T("memory cache copies with deepcopy", ["C04", "C05", "C10", "C13", "C18"], CACHE, "MemoryCache.store",
  "self.storage[state.query] = state.clone()", "self.storage[state.query] = deepcopy(state.clone())")

M("short-circuit return removed", ["C06"], CTX, "Context.evaluate",
  """                self._store_state(state)
                state = self.index_state(state)
                return state
        self.vars = Vars(state.vars)""", """                self._store_state(state)
                state = self.index_state(state)
        self.vars = Vars(state.vars)""")
M("exception handler does not mark the state", ["C06"], CTX, "Context.evaluate_action",
  "                traceback.print_exc()\n                state.is_error = True\n                self.exception(", "                traceback.print_exc()\n                self.exception(")
M("unknown action reported without position", ["C06"], CTX, "Context.evaluate_action",
  """                f"Unknown action: '{action.name}'",
                position=action.position,
""", """                f"Unknown action: '{action.name}'",
""")
M("link error test dropped", ["C06"], CTX, "Context.evaluate_parameter",
  "                value = self.apply(p.link)\n                if value.is_error:", "                value = self.apply(p.link)\n                if False:")
M("parse action loses the position", ["C06"], PARSER, "_action_request_parse_action",
  "return ActionRequest(name=name, parameters=parameters, position=position)", "return ActionRequest(name=name, parameters=parameters)")
M("resource failure reported on the context only", ["C06"], CTX, "Context.evaluate_resource",
  """            state.log_exception(
                f"Error evaluating resource {resource_query}",
                traceback=traceback.format_exc(),
                position=resource_query.position,
                query=self.raw_query,
            )
""", "")
T("two except clauses merged order kept", ["C06", "C18", "C05"], CTX, "Context.evaluate_action",
  '                print("EE:", ee)\n', "")

M("cache hit skips materialising the key", ["C08"], CTX, "Context.evaluate",
  '                self.debug(f"Cache hit {query}")\n                self._store_state(state)\n', '                self.debug(f"Cache hit {query}")\n')
M("recipe made unconditionally", ["C08"], RC, "NewRecipeSpecStore.get_bytes",
  "        if self.substore.contains(key):\n            return self.substore.get_bytes(key)\n", "")
M("recipe metadata without has_recipe", ["C08"], RC, "NewRecipeSpecStore.recipe_metadata", '        metadata["has_recipe"] = True\n', "")
M("string-form recipe not made absolute", ["C08", "C19"], RC, "resolve_recipe_definition",
  "            query = parse(r).to_absolute(directory)", "            query = parse(r)")
M("stored format follows the query again", ["C08"], CTX, "Context._store_state",
  'extension = key_extension(self.store_key) or state.metadata.get(\n                        "extension"\n                    )', 'extension = state.metadata.get("extension")')

M("lookup moved after the recursion guard", ["C09"], CTX, "Context.evaluate",
  "            state = cache.get(query.encode())\n            if state is not None:", "            state = None\n            if state is not None:", accept_analysis_error=True)
M("file cache reads data under another prefix", ["C09", "C13"], CACHE, "FileCache.get", 'prefix="data_"', 'prefix="dat_"')
M("sql string factory without delete-before-insert", ["C09", "C13"], CACHE, "SQLStringCache.from_sqlite", "            delete_before_insert=True,\n", "")
T("to_path helper renamed locally", ["C09", "C13", "C16"], CACHE, "FileCache.get_metadata",
  "return self._load_metadata(self.to_path(key))", "state_path = self.to_path(key)\n        return self._load_metadata(state_path)")

M("error edge does not flag the state", ["C18", "C06"], CTX, "Context.evaluate_action",
  "            state.status = Status.ERROR.value\n            state.is_error = True\n", "            state.status = Status.ERROR.value\n")
M("attribute filter lower-case", ["C18"], CTX, "Context.evaluate_action", "if key[0].isupper()", "if key[0].islower()")
M("empty-action exit not labelled", ["C18"], CTX, "Context.evaluate",
  """            self.debug(f"RETURN '{query}' AFTER EMPTY ACTION ON '{state.query}'")
            state.query = query.encode()
""", """            self.debug(f"RETURN '{query}' AFTER EMPTY ACTION ON '{state.query}'")
""")
M("with_filename takes the first dot", ["C18"], STATE, "State.with_filename", 'filename.split(".")[-1].lower()', 'filename.split(".")[1].lower()')

# ======================================================================================= parser (C02 C03 C19)
M("Query.encode ignores absolute", ["C02"], PARSER, "Query.encode", '        if self.absolute:\n            q = "/" + q\n', "")
M("SegmentHeader.encode ignores level", ["C02"], PARSER, "SegmentHeader.encode", 'encoded = "-" * self.level', 'encoded = "-"')
M("parse accepts a prefix", ["C02"], PARSER, "parse", "return parse_query.parseString(query, True)[0]", "return parse_query.parseString(query)[0]")
M("trailing slash printed again", ["C02"], PARSER, "ResourceQuerySegment.encode", "if len(rqs) and len(query):", "if len(rqs):")
T("resource encode reformatted", ["C02"], PARSER, "ResourceQuerySegment.encode",
  """        if len(query):
            return f"{rqs}{query}"
        else:
            return rqs""", """        if len(query):
            return rqs + query
        return rqs""")
T("action encode with separate join", ["C02", "C03"], PARSER, "ActionRequest.encode",
  """            p = "-".join(x.encode() for x in self.parameters)
            return f"{self.name}-{p}\"""", """            p = "-".join(x.encode() for x in self.parameters)
            return self.name + "-" + p""")

M("escape row not first", ["C03"], PARSER, "", '    (ESCAPE, ESCAPE + ESCAPE),\n    ("https://", ESCAPE + "H"),\n', '    ("https://", ESCAPE + "H"),\n    (ESCAPE, ESCAPE + ESCAPE),\n')
M("minus row dropped", ["C03"], PARSER, "", '    (PARAMETER_SEPARATOR, ESCAPE + "_"),\n', "")
M("code collides with link end", ["C03"], PARSER, "", '    (" ", ESCAPE + "."),', '    (" ", ESCAPE + "E"),')
M("code collides with negative number entity", ["C03"], PARSER, "", '    (" ", ESCAPE + "."),', '    (" ", ESCAPE + "5"),')
M("entity expands to the wrong text", ["C03"], PARSER, "", 'Literal("~_").setParseAction(lambda s, loc, toks: ["-"])', 'Literal("~_").setParseAction(lambda s, loc, toks: ["_"])')
M("entity removed from entities", ["C03"], PARSER, "", "    | islash_entity\n    | slash_entity\n", "    | slash_entity\n")
M("percent encoding not accepted in parameters", ["C03"], PARSER, "", "ZeroOrMore(parameter_text | entities | percent_encoding)", "ZeroOrMore(parameter_text | entities)")
M("parameter not unquoted", ["C03"], PARSER, "_parameter_parse_action", 'par = unquote("".join(toks))', 'par = "".join(toks)')
M("parameter unquoted twice", ["C03"], PARSER, "_parameter_parse_action", 'par = unquote("".join(toks))', 'par = unquote(unquote("".join(toks)))')
M("quote keeps slash and minus", ["C03"], PARSER, "encode_token", "return quote(token).replace", 'return quote(token, safe="/-+").replace')
M("second hand-written decode table", ["C03"], PARSER, "decode_token", "encoding = {e: s for s, e in ESCAPE_SEQUENCES}", 'encoding = {"~~": "~", "~_": "-", "~I": "/", "~.": " "}')
T("space row dropped", ["C03"], PARSER, "", '    (" ", ESCAPE + "."),\n', "")
T("protocol rows reordered", ["C03"], PARSER, "", '    ("http://", ESCAPE + "h"),\n    ("file://", ESCAPE + "f"),\n', '    ("file://", ESCAPE + "f"),\n    ("http://", ESCAPE + "h"),\n')
T("reader-only entity added", ["C03", "C02"], PARSER, "", "    | protocol_entity\n)", '    | protocol_entity\n    | Literal("~Q").setParseAction(lambda s, loc, toks: ["?"])\n)')

M("sentinel emptiness reintroduced", ["C19"], PARSER, "ResourceQuerySegment._query_to_absolute",
  "            if processed is None:\n                return self._query_to_absolute(path, path[:], rest[1:])", "            if not processed:\n                return self._query_to_absolute(path, path[:], rest[1:])", accept_analysis_error=True)
M("dotdot without root check", ["C19"], PARSER, "ResourceQuerySegment._query_to_absolute",
  '            if len(processed) == 0:\n                raise Exception("Can\'t go up from root")\n', "")
M("to_absolute rewrites every resource segment", ["C19"], PARSER, "Query.to_absolute",
  "                    resource_segment_name is None\n                    or resource_segment_name == s.segment_name()", "                    True")
T("explicit accumulator local", ["C19"], PARSER, "ResourceQuerySegment._query_to_absolute",
  "        return self._query_to_absolute(path, (processed or []) + [rest[0]], rest[1:])", "        extended = (processed or []) + [rest[0]]\n        return self._query_to_absolute(path, extended, rest[1:])")

# ======================================================================================= caches (C10 C11 C12 C13 C16)
M("command runs on the live state", ["C10"], CTX, "Context.evaluate_action", "old_state = state if is_volatile else state.clone()", "old_state = state")
M("defaults copied shallowly", ["C10"], STATE, "vars_clone", "return deepcopy(get_vars())", "return dict(get_vars())")
M("text-like copy for dictionaries", ["C10", "C11"], ST, "DictStateType.copy", "return deepcopy(data)", "return data")
M("context vars seeded from the live defaults", ["C10"], CTX, "Context.__init__", "self.vars = Vars(vars_clone())", "self.vars = Vars(get_vars())")
T("clone spelled with copy.deepcopy of metadata", ["C10"], STATE, "State.as_dict", "return deepcopy(self.metadata)", "result = deepcopy(self.metadata)\n        return result")

M("default extension write-only", ["C11"], ST, "JsonStateType.default_extension", 'return "json"', 'return "html"')
M("two types share an identifier", ["C11"], ST, "JsonStateType.identifier", 'return "generic"', 'return "dictionary"')
M("element triple reordered on the writer", ["C11"], ST, "DictStateType.encode_element",
  """                f'"{t.identifier()}"',
                f'"{extension}"',""", """                f'"{extension}"',
                f'"{t.identifier()}"',""")
M("djson key raw again", ["C11"], ST, "DictStateType.as_bytes", 'f"{json.dumps(key)}:"', "f'\"{key}\":'")
T("new write-only format added", ["C11"], ST, "TextStateType.default_mimetype", 'return "text/plain"', 'return "text/plain"  # unchanged')

M("sql remove forgets the memo", ["C13"], CACHE, "SQLCache.remove", "        self._available_keys = None\n", "")
M("raw dump next to the encoded data", ["C13"], CACHE, "FileCache.store",
  "            f.write(self.encode(b))\n", "            f.write(b)\n")
M("wrapper remove ignores the key", ["C13"], CACHE, "CacheIfHasAttributes.remove", "return self.cache.remove(key)", "return True")
M("combine cleans one child", ["C13"], CACHE, "CacheCombine.clean", "        self.cache1.clean()\n        self.cache2.clean()\n", "        self.cache1.clean()\n")
M("combine remove short-circuits again", ["C13"], CACHE, "CacheCombine.remove",
  "        removed1 = self.cache1.remove(key)\n        removed2 = self.cache2.remove(key)\n        return removed1 and removed2", "        return self.cache1.remove(key) and self.cache2.remove(key)")
M("memory placeholder served again", ["C13", "C05", "C12"], CACHE, "MemoryCache.get", "if state is None or key in self.metadata_only:", "if state is None:")
T("combine remove with tuple", ["C13"], CACHE, "CacheCombine.remove",
  "        removed1 = self.cache1.remove(key)\n        removed2 = self.cache2.remove(key)\n        return removed1 and removed2",
  "        results = (self.cache1.remove(key), self.cache2.remove(key))\n        return all(results)")

M("file cache data written in place again", ["C16", "C12"], CACHE, "FileCache.store",
  '        temporary_path = path + ".tmp"\n        with open(temporary_path, "wb") as f:\n            f.write(self.encode(b))\n        os.replace(temporary_path, path)\n',
  '        with open(path, "wb") as f:\n            f.write(self.encode(b))\n')
M("file store data written in place again", ["C16"], STORE, "FileStore.store",
  "        temporary_path.write_bytes(data)\n        temporary_path.replace(self.path_for_key(key))\n", "        self.path_for_key(key).write_bytes(data)\n")
M("temporary file never published", ["C16"], CACHE, "FileCache.store", "        os.replace(temporary_path, path)\n", "")
M("metadata parsed outside the handler", ["C16"], CACHE, "FileCache._load_metadata",
  """            try:
                return json.loads(self.decode_metadata(open(state_path, "rb").read()))
            except:
                traceback.print_exc()
                return None""", """            return json.loads(self.decode_metadata(open(state_path, "rb").read()))""")
T("temporary file with another suffix", ["C16", "C12", "C13"], CACHE, "FileCache.store", 'temporary_path = path + ".tmp"', 'temporary_path = path + ".partial"')

# ======================================================================================= stores (C07 C14 C15 C17)
M("proxy contains not forwarded", ["C07"], STORE, "ProxyStore.contains", "return self._store.contains(key)", 'return key == ""')
M("memory store skips finalisation", ["C07"], STORE, "MemoryStore.store",
  """        self.metadata[key] = self.finalize_metadata(
            metadata, key=key, is_dir=False, data=data
        )""", "        self.metadata[key] = metadata")
M("notification before the write", ["C07"], STORE, "ProxyStore.remove",
  "        self._store.remove(key)\n        self.on_removed(key)\n", "        self.on_removed(key)\n        self._store.remove(key)\n")
M("touch on read", ["C07"], STORE, "FileStore.contains",
  "        return self.path_for_key(key).exists()", "        self.path_for_key(key).parent.mkdir(parents=True, exist_ok=True)\n        return self.path_for_key(key).exists()")
M("memory remove keeps the metadata", ["C07"], STORE, "MemoryStore.remove",
  "        try:\n            del self.metadata[key]\n        except KeyError:\n            pass\n", "")
T("proxy methods reordered", ["C07", "C17"], STORE, "ProxyStore.is_dir", "return self._store.is_dir(key)", "answer = self._store.is_dir(key)\n        return answer", )

M("sub-store addressed with the untranslated key", ["C14"], STORE, "KeyTranslatingStore.contains",
  "return self.substore.contains(self.translate_key(key))", "return self.substore.contains(key)")
M("prefix strip off by one", ["C14"], STORE, "PrefixStore.translate_key", "return key[len(prefix) :]", "return key[len(self.prefix) :]")
M("route_to scans forward", ["C14"], STORE, "MountPointStore.route_to", "for prefix, store in reversed(self.routing_table):", "for prefix, store in self.routing_table:")
M("routed metadata keeps the inner key", ["C14"], STORE, "KeyTranslatingStore.get_metadata", '        metadata["key"] = key\n', "")
M("key listing not mapped back", ["C14"], STORE, "KeyTranslatingStore.keys", "yield self.translate_key(key, inverse=True)", "yield key")
T("insert-front with forward scan", ["C14"], [(STORE, "MountPointStore.mount", "self.routing_table.append((key, prefix_store))", "self.routing_table.insert(0, (key, prefix_store))"),
                                             (STORE, "MountPointStore.route_to", "for prefix, store in reversed(self.routing_table):", "for prefix, store in self.routing_table:"),
                                             (STORE, "MountPointStore.keys", "for prefix, store in reversed(self.routing_table):", "for prefix, store in self.routing_table:")])

M("overlay remove touches the fall-back", ["C15"], STORE, "OverlayStore.remove",
  "            if self.fallback.contains(key):\n                self.removed.add(key)", "            if self.fallback.contains(key):\n                self.fallback.remove(key)")
M("overlay store writes the fall-back", ["C15"], STORE, "OverlayStore.store", "self.overlay.store(key, data, metadata)", "self.fallback.store(key, data, metadata)")
M("overlay contains without tombstone test", ["C15"], STORE, "OverlayStore.contains",
  "        if key in self.removed:\n            return False\n        else:\n            return self.overlay.contains(key) or self.fallback.contains(key)",
  "        return self.overlay.contains(key) or self.fallback.contains(key)")
M("overlay get_bytes falls off again", ["C15", "C07"], STORE, "OverlayStore.get_bytes", "        raise KeyNotFoundStoreException(key=key, store=self)\n", "")
T("tombstones iterated differently", ["C15"], STORE, "OverlayStore.keys",
  """        return sorted(
            set(self.overlay.keys())
            .union(self.fallback.keys())
            .difference(self.removed)
        )""", """        visible = set(self.overlay.keys()).union(self.fallback.keys()).difference(self.removed)
        return sorted(visible)""")

M("read-only makedir override deleted", ["C17"], STORE, "ReadOnlyStore",
  "    def makedir(self, key):\n        raise ReadOnlyStoreException(key=key, store=self)\n\n", "")
M("read-only removedir forwards", ["C17"], STORE, "ReadOnlyStore.removedir", "raise ReadOnlyStoreException(key=key, store=self)", "return self._store.removedir(key, recursive=recursive)")
M("FileStore.contains bypasses the path constructor", ["C17"], STORE, "FileStore.contains", "return self.path_for_key(key).exists()", "return (self.path / key).exists()")
M("containment guard weakened to assert", ["C17"], STORE, "FileStore.check_key",
  '        if key.startswith("/") or ".." in parts or not (parts or allow_root):\n            raise KeyNotSupportedStoreException(key=key, store=self)',
  '        assert not (key.startswith("/") or ".." in parts or not (parts or allow_root))')
M("containment guard forgets dotdot", ["C17"], STORE, "FileStore.check_key", 'if key.startswith("/") or ".." in parts or not (parts or allow_root):', 'if key.startswith("/") or not (parts or allow_root):')
T("guard spelled with any()", ["C17"], STORE, "FileStore.check_key", '".." in parts or', 'any(part == ".." for part in parts) or ".." in parts or')

# ======================================================================================= server (C20)
M("enable and disable constants swapped", ["C20"], CMD, "enable_remote_registration", "_remote_registration = True", "_remote_registration = False")
M("cache contains endpoint removes", ["C20"], BP, "cache_contains", "contains = get_cache().contains(query)", "contains = get_cache().remove(query)")
M("remote is_dir asks contains", ["C20"], RS, "RemoteStore.is_dir", '"store/is_dir"', '"store/contains"')
M("response reads raw data", ["C20"], BP, "response", "        state.get(), extension=state.extension", "        state.data, extension=state.extension")
M("route registers without the gate", ["C20"], BP, "register_command1",
  "return jsonify(command_registry().register_remote_serialized(data))", "f, metadata, modify = command_registry().decode_registration(data)\n    return jsonify(command_registry().register_command(f, metadata))")
M("keys listing unwrapped again", ["C20"], BP, "store_keys", "keys = list(store.keys())", "keys = store.keys()")
T("routes reordered and handler local renamed", ["C20"], BP, "store_is_dir", "        is_dir = store.is_dir(query)\n", "        is_dir = store.is_dir(query)\n        answer = is_dir\n")
