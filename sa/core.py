"""Engine core (E1, E10): repository loader / class index / MRO / method resolution,
AST helpers, obligations, known findings, evidence, exit codes.

Nothing here imports or runs the analysed repository: sources are only parsed
with the standard-library ``ast`` module.
"""
import ast
import hashlib
import json
import os
import sys
import time

VERIF = os.path.dirname(os.path.dirname(os.path.abspath(__file__)))


class AnalysisError(Exception):
    """An anchor vanished / a construct is outside the recognised idiom family.
    Mapped to exit code 2 (never a VIOLATION, never a silent pass)."""


# --------------------------------------------------------------------------- AST helpers
def U(node):
    """Normalised source text of a node (whitespace/quote/paren independent)."""
    if node is None:
        return "None"
    if isinstance(node, str):
        return node
    return ast.unparse(node)


def walk_no_nested(node, include_lambda=False):
    """ast.walk that does not descend into nested function/class definitions
    (and, by default, lambdas): what is *executed* when `node` is executed."""
    stack = [node]
    first = True
    while stack:
        n = stack.pop()
        if not first and isinstance(n, (ast.FunctionDef, ast.AsyncFunctionDef, ast.ClassDef)):
            continue
        if not first and isinstance(n, ast.Lambda) and not include_lambda:
            continue
        first = False
        yield n
        stack.extend(reversed(list(ast.iter_child_nodes(n))))


def body_walk(fn, include_lambda=False):
    """Walk the body of a function definition (not nested defs)."""
    for st in fn.body:
        yield from walk_no_nested_stmt(st, include_lambda)


def walk_no_nested_stmt(st, include_lambda=False):
    if isinstance(st, (ast.FunctionDef, ast.AsyncFunctionDef, ast.ClassDef)):
        yield st
        return
    stack = [st]
    while stack:
        n = stack.pop()
        yield n
        for c in reversed(list(ast.iter_child_nodes(n))):
            if isinstance(c, (ast.FunctionDef, ast.AsyncFunctionDef, ast.ClassDef)):
                yield c
                continue
            if isinstance(c, ast.Lambda) and not include_lambda:
                continue
            stack.append(c)


def dotted(node):
    """`a.b.c` -> 'a.b.c'; calls in the chain are rendered as `f()`; else None."""
    parts = []
    while True:
        if isinstance(node, ast.Attribute):
            parts.append(node.attr)
            node = node.value
        elif isinstance(node, ast.Name):
            parts.append(node.id)
            break
        elif isinstance(node, ast.Call):
            inner = dotted(node.func)
            if inner is None:
                return None
            parts.append(inner + "()")
            break
        else:
            return None
    return ".".join(reversed(parts))


def call_name(call):
    return dotted(call.func) if isinstance(call, ast.Call) else None


def call_tail(call):
    """Last component of the callee: `self.x.store(...)` -> 'store', `f(...)` -> 'f'."""
    if not isinstance(call, ast.Call):
        return None
    f = call.func
    if isinstance(f, ast.Attribute):
        return f.attr
    if isinstance(f, ast.Name):
        return f.id
    return None


def call_recv(call):
    """Receiver expression text of a method call (None for plain calls)."""
    if not isinstance(call, ast.Call):
        return None
    f = call.func
    if isinstance(f, ast.Attribute):
        return U(f.value)
    return None


def calls_in(node, tail=None, name=None, recv=None, include_lambda=False):
    out = []
    it = body_walk(node, include_lambda) if isinstance(node, (ast.FunctionDef, ast.AsyncFunctionDef)) \
        else walk_no_nested(node, include_lambda)
    for n in it:
        if isinstance(n, ast.Call):
            if tail is not None and call_tail(n) != tail:
                continue
            if name is not None and call_name(n) != name:
                continue
            if recv is not None and call_recv(n) != recv:
                continue
            out.append(n)
    out.sort(key=lambda c: (c.lineno, c.col_offset))
    return out


def kwarg(call, name):
    for k in call.keywords:
        if k.arg == name:
            return k.value
    return None


def arg_or_kw(call, pos, name):
    if pos is not None and len(call.args) > pos and not any(isinstance(a, ast.Starred) for a in call.args[:pos + 1]):
        return call.args[pos]
    return kwarg(call, name)


def names_in(node):
    return {n.id for n in ast.walk(node) if isinstance(n, ast.Name)}


def const_str(node):
    if isinstance(node, ast.Constant) and isinstance(node.value, str):
        return node.value
    return None


def is_const(node, value):
    return isinstance(node, ast.Constant) and node.value is value or \
        (isinstance(node, ast.Constant) and not isinstance(value, bool) and value is not None
         and type(node.value) is type(value) and node.value == value)


def flatten_boolop(test, op):
    """Flatten nested `a and (b and c)` into [a, b, c] for op=ast.And (or ast.Or)."""
    if isinstance(test, ast.BoolOp) and isinstance(test.op, op):
        out = []
        for v in test.values:
            out.extend(flatten_boolop(v, op))
        return out
    return [test]


def is_noop_stmt(s):
    """docstring / bare constant, `pass`, print(...) and logging calls: statements without effect on the analysed behaviour"""
    if isinstance(s, ast.Pass):
        return True
    if isinstance(s, ast.Expr):
        if isinstance(s.value, ast.Constant):
            return True
        if isinstance(s.value, ast.Call):
            n = dotted(s.value.func) or ""
            if n == "print" or n.startswith(("logging.", "logger.", "traceback.print_")):
                return True
    return False


def strip_not(e):
    """returns (negated?, inner)"""
    neg = False
    while isinstance(e, ast.UnaryOp) and isinstance(e.op, ast.Not):
        neg = not neg
        e = e.operand
    return neg, e


# --------------------------------------------------------------------------- loader / index
class Module:
    def __init__(self, name, path, relpath, src):
        self.name, self.path, self.relpath, self.src = name, path, relpath, src
        self.tree = ast.parse(src, filename=path)
        self.sha = hashlib.sha256(src.encode("utf-8")).hexdigest()
        self.imports = {}   # local name -> dotted origin
        self.star_imports = []
        self.reindex()
        for st in ast.walk(self.tree):
            if isinstance(st, ast.Import):
                for a in st.names:
                    self.imports[a.asname or a.name.split(".")[0]] = a.name if a.asname else a.name.split(".")[0]
            elif isinstance(st, ast.ImportFrom) and st.module:
                for a in st.names:
                    if a.name == "*":
                        self.star_imports.append(st.module)
                    else:
                        self.imports[a.asname or a.name] = st.module + "." + a.name

    def reindex(self):
        """(re)build the tables of module-level classes / functions / assignments from self.tree (called again after canonicalisation)"""
        self.classes = {}
        self.functions = {}
        self.assigns = {}   # module-level simple name -> list of value nodes (in order)
        for st in self.tree.body:
            if isinstance(st, ast.ClassDef):
                self.classes[st.name] = st
            elif isinstance(st, (ast.FunctionDef, ast.AsyncFunctionDef)):
                self.functions[st.name] = st
            elif isinstance(st, ast.Assign):
                for t in st.targets:
                    if isinstance(t, ast.Name):
                        self.assigns.setdefault(t.id, []).append(st.value)
            elif isinstance(st, ast.AnnAssign) and isinstance(st.target, ast.Name) and st.value is not None:
                self.assigns.setdefault(st.target.id, []).append(st.value)

    def loc(self, node):
        return f"{self.relpath}:{getattr(node, 'lineno', 0)}"


class ClassInfo:
    def __init__(self, repo, module, node):
        self.repo, self.module, self.node, self.name = repo, module, node, node.name
        self.methods = {}
        self.class_assigns = {}
        for st in node.body:
            if isinstance(st, (ast.FunctionDef, ast.AsyncFunctionDef)):
                # keep the last definition of a name; property setters share the name: keep getter first
                if st.name in self.methods and any(U(d).endswith(".setter") for d in st.decorator_list):
                    self.methods[st.name + ".setter"] = st
                else:
                    self.methods[st.name] = st
            elif isinstance(st, ast.Assign):
                for t in st.targets:
                    if isinstance(t, ast.Name):
                        self.class_assigns[t.id] = st.value
        for fn_ in self.methods.values():
            fn_._class_assigns = self.class_assigns      # lets helpers resolve `self.CONSTANT` from a method node

    @property
    def qual(self):
        return f"{self.module.name}.{self.name}"

    def bases(self):
        out = []
        for b in self.node.bases:
            ci = self.repo.resolve_class(self.module, b)
            if ci is not None:
                out.append(ci)
        return out

    def mro(self):
        # C3 is overkill for the single/multiple inheritance used here, but cheap
        def merge(seqs):
            res = []
            seqs = [list(s) for s in seqs if s]
            while seqs:
                for s in seqs:
                    head = s[0]
                    if not any(head in t[1:] for t in seqs):
                        break
                else:
                    raise AnalysisError(f"inconsistent MRO for {self.qual}")
                res.append(head)
                seqs = [[x for x in s if x is not head] for s in seqs]
                seqs = [s for s in seqs if s]
            return res
        bs = self.bases()
        return [self] + merge([b.mro() for b in bs] + [bs])

    def find_method(self, name):
        """(defining ClassInfo, FunctionDef) through the MRO, or (None, None)."""
        for c in self.mro():
            if name in c.methods:
                return c, c.methods[name]
        return None, None

    def is_subclass_of(self, other_name):
        return any(c.name == other_name for c in self.mro())


class Repo:
    PKG = "liquer"

    def __init__(self, root):
        self.root = os.path.abspath(root)
        self.modules = {}
        pkg = os.path.join(self.root, self.PKG)
        if not os.path.isdir(pkg):
            raise AnalysisError(f"package directory {pkg} not found")
        for dp, dn, fn in os.walk(pkg):
            dn[:] = sorted(d for d in dn if d != "__pycache__")
            for f in sorted(fn):
                if not f.endswith(".py"):
                    continue
                p = os.path.join(dp, f)
                rel = os.path.relpath(p, self.root)
                name = rel[:-3].replace(os.sep, ".")
                if name.endswith(".__init__"):
                    name = name[: -len(".__init__")]
                try:
                    with open(p, encoding="utf-8") as fh:
                        src = fh.read()
                    self.modules[name] = Module(name, p, rel, src)
                except SyntaxError as e:
                    raise AnalysisError(f"syntax error in {rel}: {e}")
        self._classes = {}
        for m in self.modules.values():
            for cn, node in m.classes.items():
                self._classes[(m.name, cn)] = ClassInfo(self, m, node)
        self.consulted = set()
        # undo renames of locals so that rules can name them (see sa/canon.py); a no-op on the reference tree
        from .canon import canonicalise
        self.renames = canonicalise(self)
        for m in self.modules.values():
            m.reindex()

    # -- lookups (all fail closed)
    def module(self, name):
        if name not in self.modules:
            raise AnalysisError(f"module {name} not found in {self.root}")
        self.consulted.add(name)
        return self.modules[name]

    def has_module(self, name):
        return name in self.modules

    def cls(self, modname, clsname):
        self.module(modname)
        ci = self._classes.get((modname, clsname))
        if ci is None:
            raise AnalysisError(f"class {modname}.{clsname} not found")
        return ci

    def has_cls(self, modname, clsname):
        return (modname, clsname) in self._classes

    def classes_in(self, modname):
        self.module(modname)
        return [ci for (m, _), ci in self._classes.items() if m == modname]

    def all_classes(self):
        return list(self._classes.values())

    def func(self, modname, qual):
        """'Context.evaluate' (own or inherited method) or 'parse' (module function)."""
        m = self.module(modname)
        if "." in qual:
            cn, mn = qual.split(".", 1)
            ci = self.cls(modname, cn)
            dc, fn = ci.find_method(mn)
            if fn is None:
                raise AnalysisError(f"method {modname}.{qual} not found")
            self.consulted.add(dc.module.name)
            return fn
        if qual not in m.functions:
            raise AnalysisError(f"function {modname}.{qual} not found")
        return m.functions[qual]

    def own_method(self, modname, clsname, meth):
        ci = self.cls(modname, clsname)
        return ci.methods.get(meth)

    def resolve_class(self, module, expr):
        """Resolve a base-class expression / name used in `module` to a ClassInfo of the repo."""
        d = dotted(expr) if not isinstance(expr, str) else expr
        if d is None:
            return None
        head, _, rest = d.partition(".")
        if not rest:
            if (module.name, head) in self._classes:
                return self._classes[(module.name, head)]
            origin = module.imports.get(head)
            if origin:
                mod, _, cn = origin.rpartition(".")
                if (mod, cn) in self._classes:
                    return self._classes[(mod, cn)]
            for sm in module.star_imports:
                if (sm, head) in self._classes:
                    return self._classes[(sm, head)]
            return None
        origin = module.imports.get(head)
        if origin and (origin, rest) in self._classes:
            return self._classes[(origin, rest)]
        return None

    def subclasses_of(self, base_name, modnames=None):
        out = []
        for ci in self._classes.values():
            if modnames is not None and ci.module.name not in modnames:
                continue
            try:
                if ci.is_subclass_of(base_name):
                    out.append(ci)
            except AnalysisError:
                raise
        return out

    def digest(self):
        h = hashlib.sha256()
        for n in sorted(self.consulted):
            h.update(n.encode())
            h.update(self.modules[n].sha.encode())
        return h.hexdigest()


# --------------------------------------------------------------------------- obligations / report
class Obligation:
    __slots__ = ("rule", "construct", "ok", "what", "loc", "key", "nontrivial", "info")

    def __init__(self, rule, construct, ok, what, loc="", key="", nontrivial=True, info=False):
        self.rule, self.construct, self.ok, self.what = rule, construct, bool(ok), what
        self.loc, self.key, self.nontrivial, self.info = loc, key, nontrivial, info

    def ident(self):
        return (self.rule, self.construct, self.key)

    def as_sample(self):
        return f"{self.loc} {self.construct} [{self.rule}] {'holds' if self.ok else 'VIOLATED'}: {self.what}"


class Check:
    """Collects obligations for one property run."""

    def __init__(self, prop, repo, tier="quick"):
        self.prop, self.repo, self.tier = prop, repo, tier
        self.obs = []
        self.crossref = []
        self.rules = {}     # rule id -> description
        self.counts = {}    # free-form analysed counters
        self.assumptions = []
        self.extra = {}
        self.t0 = time.time()

    def rule(self, rid, text):
        self.rules[rid] = text

    def ob(self, rule, construct, ok, what, node=None, mod=None, key="", nontrivial=True):
        if rule not in self.rules:
            raise AnalysisError(f"rule {rule} used but not declared")
        loc = ""
        if node is not None and mod is not None:
            loc = mod.loc(node)
        elif mod is not None:
            loc = mod.relpath
        o = Obligation(rule, construct, ok, what, loc, key, nontrivial)
        self.obs.append(o)
        return o

    def require(self, rule, construct, cond, what, node=None, mod=None, key=""):
        return self.ob(rule, construct, cond, what, node, mod, key)

    def floor(self, rule, n, minimum, what):
        """Instance floor: fewer instances than confirmed by hand = the rule no longer
        sees the code it was written for = analysis broken (exit 2)."""
        self.counts[f"{rule}:{what}"] = n
        if n < minimum:
            raise AnalysisError(f"{rule}: only {n} {what} found, expected at least {minimum} "
                                f"(anchor moved or idiom changed; rule would pass vacuously)")

    def canary(self, rule, flagged, what):
        """A rule whose expected violation count is zero must flag its embedded positive example."""
        self.counts[f"{rule}:canary"] = 1 if flagged else 0
        if not flagged:
            raise AnalysisError(f"{rule}: canary not flagged ({what}); rule is not armed")

    def xref(self, text):
        self.crossref.append(text)

    def count(self, name, n):
        self.counts[name] = self.counts.get(name, 0) + n


def load_known():
    p = os.path.join(VERIF, "known_findings.json")
    if not os.path.exists(p):
        return {"known": [], "fixed": []}
    with open(p) as f:
        return json.load(f)


def unlisted_violations(chk):
    """failed obligations of chk that are not listed as known findings (what the harnesses count as an alarm)"""
    known = {(k["rule"], k["construct"], k.get("key", "")) for k in load_known().get("known", []) if k.get("property") == chk.prop}
    # rules shared between properties carry the other property's id prefix in the listed finding: compare by rule suffix as well
    known_loose = {(r.split(".", 1)[-1], c, k) for r, c, k in {(k["rule"], k["construct"], k.get("key", "")) for k in load_known().get("known", [])}}
    out = []
    for o in chk.obs:
        if o.ok:
            continue
        r, c, k = o.ident()
        if (r, c, k) in known:
            continue
        out.append(o)
    return out


def run_rules(mod, chk, fname="run"):
    """Execute the top-level statements of mod.<fname>(chk) one by one, so that a rule that cannot analyse the tree
    (AnalysisError: anchor vanished, floor not met, unsupported idiom) does not silence the other rules of the property.
    Errors are collected in chk.analysis_errors; a later statement that only fails because an earlier one did not define
    its inputs (NameError) is recorded as dependent."""
    import ast as _ast
    import inspect
    fn = getattr(mod, fname)
    src = inspect.getsource(mod)
    tree = _ast.parse(src)
    node = next(n for n in tree.body if isinstance(n, _ast.FunctionDef) and n.name == fname)
    pname = node.args.args[0].arg
    ns = dict(vars(mod))
    ns[pname] = chk
    if not hasattr(chk, "analysis_errors"):
        chk.analysis_errors = []
    for st in node.body:
        code = compile(_ast.Module(body=[st], type_ignores=[]), mod.__file__, "exec")
        try:
            exec(code, ns)
        except AnalysisError as e:
            chk.analysis_errors.append(str(e))
        except NameError as e:
            if not chk.analysis_errors:
                raise
            chk.analysis_errors.append(f"dependent on a failed step: {e}")
    return chk.analysis_errors


def finish(chk, level="other", explanation="", level_text=""):
    """Decide the exit code, print lines, write evidence. Returns exit code."""
    prop = chk.prop
    known = [k for k in load_known().get("known", []) if k.get("property") == prop]
    known_idents = {(k["rule"], k["construct"], k.get("key", "")): k for k in known}
    violations = [o for o in chk.obs if not o.ok]
    new, listed = [], []
    for v in violations:
        if v.ident() in known_idents:
            listed.append(v)
        else:
            new.append(v)
    ev_dir = os.path.join(VERIF, "evidence")
    os.makedirs(ev_dir, exist_ok=True)
    replay_dir = os.path.join(ev_dir, "replay")
    for o in chk.obs:
        pass
    seen = set()
    for v in listed:
        if v.ident() in seen:
            continue
        seen.add(v.ident())
        print(f"KNOWN-FINDING: property={prop} {v.rule} {v.construct} {v.what} ({v.loc})")
    # a listed finding that no longer reproduces is only informational
    for ident, k in known_idents.items():
        if ident not in {v.ident() for v in violations}:
            print(f"NOTE: listed finding no longer reproduces: property={prop} {ident[0]} {ident[1]} {ident[2]}")
    rc = 0
    if new:
        if os.environ.get("VERIF_NO_EVIDENCE"):
            replay_dir = os.path.join(os.environ.get("TMPDIR", "/tmp"), "verif_replay_scratch")
        os.makedirs(replay_dir, exist_ok=True)
        for i, v in enumerate(new):
            rp = os.path.join(replay_dir, f"{prop}-{i}.json")
            with open(rp, "w") as f:
                json.dump({"property": prop, "rule": v.rule, "rule_text": chk.rules.get(v.rule, ""),
                           "construct": v.construct, "key": v.key, "location": v.loc, "what": v.what,
                           "repo": chk.repo.root}, f, indent=1)
            print(f"{v.loc}  {v.rule}  {v.construct}  {v.what}")
            print(f"VIOLATION property={prop} replay={rp}")
        rc = 1
    errs = getattr(chk, "analysis_errors", [])
    if not hasattr(chk, "analysis_errors"):
        chk.analysis_errors = errs
    # a declared rule without a single obligation would pass vacuously: that is "cannot decide", never a pass
    have = {o.rule for o in chk.obs}
    for rid_ in sorted(chk.rules):
        if rid_ not in have and not any(rid_ in e for e in errs):
            errs.append(f"{rid_}: the rule produced no obligation on this tree (its anchor was not found; it would pass vacuously)")
    for e in errs:
        print(f"ANALYSIS-ERROR property={prop}: {e}")
    if errs and rc == 0:
        rc = 2          # some rule could not analyse the tree and no other rule found a violation: cannot decide
    for x in chk.crossref:
        print(f"CROSS-REF: {x}")
    obligations = len(chk.obs)
    discharged = sum(1 for o in chk.obs if o.ok)
    distinct_nt = len({o.ident() for o in chk.obs if o.nontrivial})
    samples = [o.as_sample() for o in chk.obs if not o.ok][:10]
    per_rule = {}
    for o in chk.obs:
        per_rule.setdefault(o.rule, []).append(o)
    for r, lst in sorted(per_rule.items()):
        samples.append(lst[0].as_sample())
    ev = {
        "property_id": prop,
        "tier": chk.tier,
        "seed": int(os.environ.get("VERIF_SEED", "0") or 0),
        "level": level,
        "coverage": {
            "explanation": explanation or "; ".join(f"{k}: {v}" for k, v in sorted(chk.rules.items())),
            "obligations": obligations,
            "discharged": discharged,
            "evaluations": obligations,
            "distinct_nontrivial": distinct_nt,
            "rule": "one obligation per rule instance (rule id x qualified construct x key) found in /repo's "
                    "current source; non-trivial = the obligation inspects a concrete construct (not a vacuous/"
                    "absent one); distinct by (rule, construct, key)",
            "samples": samples,
            "rules": chk.rules,
            "per_rule_instances": {r: len(l) for r, l in sorted(per_rule.items())},
            "analysed": chk.counts,
            "modules_parsed": len(chk.repo.modules),
            "modules_consulted": sorted(chk.repo.consulted),
            "sources_sha256": chk.repo.digest(),
            "known_findings_listed": [list(v.ident()) for v in listed],
            "cross_ref": chk.crossref,
            "checker_cmd": f"./check {prop} --tier {chk.tier}",
            "trusted_base": ["CPython ast module", "this checker's rule encodings (sa/rules)"],
            **chk.extra,
        },
        "assumptions": chk.assumptions or ["CPython `ast` parses the tree as the interpreter would"],
        "wall_s": round(time.time() - chk.t0, 3),
        "violations": len(new),
    }
    if errs:
        ev["coverage"]["analysis_errors"] = errs
    if not os.environ.get("VERIF_NO_EVIDENCE") and rc != 2:   # set only by the seed/mutant harness (scratch copies)
        with open(os.path.join(ev_dir, f"{prop}.json"), "w") as f:
            json.dump(ev, f, indent=1, default=str)
    print(f"{prop}: {obligations} obligations over {len(per_rule)} rules, {discharged} hold, "
          f"{len(listed)} known finding(s), {len(new)} new violation(s) [{chk.tier}]")
    return rc
