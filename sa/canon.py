"""Canonicalisation of local variable names (rename-robustness).

Many rules name locals of the analysed functions (`state`, `metadata`, `store`, `value` ...). A developer may rename
a local without changing behaviour. Before the rules run, every function listed in sa/canon_table.py is inspected:
if a local is *defined* by one of the recorded defining forms (assignment value / loop iterable / with item /
except type, other locals abstracted) under a different name, it is renamed back to the name the rules expect.
On the tree the table was generated from this is a no-op. The table never judges anything; if a defining form
no longer matches, nothing is renamed and the rules see the source as it is."""
import ast
from .core import U

try:
    from .canon_table import TABLE
except Exception:      # table absent: no canonicalisation
    TABLE = {}
try:
    from .canon_table import COMPARES
except Exception:
    COMPARES = {}

_PC = {}


def _pat(src):
    if src not in _PC:
        _PC[src] = ast.parse(src, mode="eval").body
    return _PC[src]


def _match(pat, node, env):
    from .lib import pmatch
    return pmatch(pat, node, env)


class _Rename(ast.NodeTransformer):
    def __init__(self, old, new):
        self.old, self.new = old, new

    def visit_Name(self, node):
        if node.id == self.old:
            node.id = self.new
        return node

    def visit_ExceptHandler(self, node):
        self.generic_visit(node)
        if node.name == self.old:
            node.name = self.new
        return node


def _candidates(fn, kind, pat):
    """names of locals in fn defined by (kind, pat); metavariable _T must not occur in value patterns"""
    out = set()
    for n in ast.walk(fn):
        tgt = val = None
        if kind == "assign" and isinstance(n, ast.Assign) and len(n.targets) == 1 and isinstance(n.targets[0], ast.Name):
            tgt, val = n.targets[0].id, n.value
        elif kind.startswith("unpack") and isinstance(n, ast.Assign) and len(n.targets) == 1 and isinstance(n.targets[0], (ast.Tuple, ast.List)):
            i = int(kind[6:])
            es = n.targets[0].elts
            if i < len(es) and isinstance(es[i], ast.Name):
                tgt, val = es[i].id, n.value
        elif kind.startswith("iter") and isinstance(n, (ast.For, ast.comprehension)):
            t = n.target
            if kind == "iter" and isinstance(t, ast.Name):
                tgt, val = t.id, n.iter
            elif kind != "iter" and isinstance(t, (ast.Tuple, ast.List)):
                i = int(kind[4:])
                if i < len(t.elts) and isinstance(t.elts[i], ast.Name):
                    tgt, val = t.elts[i].id, n.iter
        elif kind == "with" and isinstance(n, ast.withitem) and isinstance(n.optional_vars, ast.Name):
            tgt, val = n.optional_vars.id, n.context_expr
        elif kind == "except" and isinstance(n, ast.ExceptHandler) and n.name and n.type is not None:
            tgt, val = n.name, n.type
        if tgt is None:
            continue
        if _match(_pat(pat), val, {}) is not None:
            out.add(tgt)
    return out


def _names(fn):
    out = set()
    for n in ast.walk(fn):
        if isinstance(n, ast.Name):
            out.add(n.id)
        elif isinstance(n, ast.arg):
            out.add(n.arg)
    return out


def _inline_return_temps(fn):
    """`x = <expr>` immediately followed by `return x` is rewritten to `return <expr>` (always behaviour-preserving: nothing
    can read that definition of x after the return). Rules look at return expressions; a pass-through local is a benign
    refactor. `x = f(x); return x` is left alone (the rules name such re-bindings, e.g. `state = self.index_state(state)`)."""
    stores, loads = {}, {}
    for n in ast.walk(fn):
        if isinstance(n, ast.Name):
            (stores if isinstance(n.ctx, ast.Store) else loads).setdefault(n.id, []).append(n)
    n_done = 0

    def blocks(node):
        for f in ("body", "orelse", "finalbody"):
            b = getattr(node, f, None)
            if isinstance(b, list) and b and isinstance(b[0], ast.stmt):
                yield b
        for h in getattr(node, "handlers", []) or []:
            yield h.body

    stack = [fn]
    while stack:
        node = stack.pop()
        for b in blocks(node):
            i = 0
            while i + 1 < len(b):
                a, r = b[i], b[i + 1]
                if isinstance(a, ast.Assign) and len(a.targets) == 1 and isinstance(a.targets[0], ast.Name) and isinstance(r, ast.Return) \
                        and isinstance(r.value, ast.Name) and r.value.id == a.targets[0].id \
                        and r.value.id not in {x.id for x in ast.walk(a.value) if isinstance(x, ast.Name)}:
                    r.value = a.value
                    del b[i]
                    n_done += 1
                    continue
                i += 1
            for st in b:
                if not isinstance(st, (ast.FunctionDef, ast.AsyncFunctionDef, ast.ClassDef)):
                    stack.append(st)
    return n_done


def _normalise_negated_ifs(fn):
    """`if not X: A else: B` (else not an elif chain) is rewritten to `if X: B else: A`; double negations are stripped.
    Behaviour-preserving; makes branch inversion a non-event for the rules."""
    k = 0
    for n in ast.walk(fn):
        if isinstance(n, (ast.If, ast.While, ast.IfExp)):
            while isinstance(n.test, ast.UnaryOp) and isinstance(n.test.op, ast.Not) and isinstance(n.test.operand, ast.UnaryOp) \
                    and isinstance(n.test.operand.op, ast.Not):
                n.test = n.test.operand.operand
                k += 1
        if isinstance(n, ast.If) and n.orelse and not (len(n.orelse) == 1 and isinstance(n.orelse[0], ast.If)) \
                and isinstance(n.test, ast.UnaryOp) and isinstance(n.test.op, ast.Not):
            n.test = n.test.operand
            n.body, n.orelse = n.orelse, n.body
            k += 1
    return k


def _merge_nested_ifs(fn):
    """`if a: (if b: X)` with no else on either level is rewritten to `if a and b: X` (behaviour-preserving)."""
    k = 0
    changed = True
    while changed:
        changed = False
        for n in ast.walk(fn):
            if isinstance(n, ast.If) and not n.orelse and len(n.body) == 1 and isinstance(n.body[0], ast.If) and not n.body[0].orelse:
                inner = n.body[0]
                vals = []
                for t in (n.test, inner.test):
                    vals += t.values if isinstance(t, ast.BoolOp) and isinstance(t.op, ast.And) else [t]
                n.test = ast.copy_location(ast.BoolOp(op=ast.And(), values=vals), n.test)
                n.body = inner.body
                k += 1
                changed = True
    return k


def _restore_compare_order(fn, ref):
    """`b == a` is rewritten to `a == b` when the reference tree writes this comparison as `a == b` (==/!= are symmetric for the
    str / int / None operands used in the analysed functions)."""
    k = 0
    ref = set(ref)
    for n in ast.walk(fn):
        if isinstance(n, ast.Compare) and len(n.ops) == 1 and isinstance(n.ops[0], (ast.Eq, ast.NotEq)):
            if U(n) in ref:
                continue
            sw = ast.Compare(left=n.comparators[0], ops=n.ops, comparators=[n.left])
            if U(sw) in ref:
                n.left, n.comparators = sw.left, sw.comparators
                k += 1
    return k


def canonicalise(repo):
    """mutates the function ASTs of `repo` in place; returns the list of renames performed"""
    done = []
    from .inline import inline_new_helpers
    done += inline_new_helpers(repo)
    for m in repo.modules.values():
        for fn in ast.walk(m.tree):
            if isinstance(fn, (ast.FunctionDef, ast.AsyncFunctionDef)):
                k = _normalise_negated_ifs(fn)
                if k:
                    done.append((m.name, fn.name, "<negated if/else normalised>", k))
                k = _merge_nested_ifs(fn)
                if k:
                    done.append((m.name, fn.name, "<nested ifs merged>", k))
    for m in repo.modules.values():
        for st in m.tree.body:
            fns = [st] if isinstance(st, (ast.FunctionDef, ast.AsyncFunctionDef)) else \
                [x for x in st.body if isinstance(x, (ast.FunctionDef, ast.AsyncFunctionDef))] if isinstance(st, ast.ClassDef) else []
            for fn in fns:
                k = _inline_return_temps(fn)
                if k:
                    done.append((m.name, fn.name, "<return temps inlined>", k))
    for (modname, qual), ent in TABLE.items():
        if modname not in repo.modules:
            continue
        m = repo.modules[modname]
        fn = None
        if "." in qual:
            cn, mn = qual.split(".", 1)
            cnode = m.classes.get(cn)
            if cnode is not None:
                for x in cnode.body:
                    if isinstance(x, (ast.FunctionDef, ast.AsyncFunctionDef)) and x.name == mn:
                        fn = x
        else:
            fn = m.functions.get(qual)
        if fn is None:
            continue
        for _ in range(3):     # a few rounds: patterns mention other locals only as metavariables, so one is usually enough
            changed = False
            for canonical, forms in ent.items():
                actual = set()
                for kind, pat in forms:
                    actual |= _candidates(fn, kind, pat)
                if len(actual) != 1:
                    continue
                (a,) = actual
                if a == canonical or canonical in _names(fn):
                    continue
                _Rename(a, canonical).visit(fn)
                done.append((modname, qual, a, canonical))
                changed = True
            if not changed:
                break
    for (modname, qual), ref in COMPARES.items():
        if modname not in repo.modules:
            continue
        m = repo.modules[modname]
        fn = None
        if "." in qual:
            cn, mn = qual.split(".", 1)
            cnode = m.classes.get(cn)
            if cnode is not None:
                for x in cnode.body:
                    if isinstance(x, (ast.FunctionDef, ast.AsyncFunctionDef)) and x.name == mn:
                        fn = x
        else:
            fn = m.functions.get(qual)
        if fn is not None:
            k = _restore_compare_order(fn, ref)
            if k:
                done.append((modname, qual, "<==/!= operand order restored>", k))
    return done
