"""Canonicalisation of local variable names (rename-robustness).

Many rules name locals of the analysed functions (`state`, `metadata`, `store`, `value` ...). A developer may rename
a local without changing behaviour. Before the rules run, every function listed in sa/canon_table.py is inspected:
if a local is *defined* by one of the recorded defining forms (assignment value / loop iterable / with item /
except type, other locals abstracted) under a different name, it is renamed back to the name the rules expect.
On the tree the table was generated from this is a no-op. The table never judges anything; if a defining form
no longer matches, nothing is renamed and the rules see the source as it is."""
import ast
from .core import U

try:
    from .canon_table import TABLE
except Exception:      # table absent: no canonicalisation
    TABLE = {}
try:
    from .canon_table import COMPARES
except Exception:
    COMPARES = {}
try:
    from .canon_table import LOCALS
except Exception:
    LOCALS = {}

PURE_FUNCS = {"is_remote_registration_enabled", "get_vars", "get_cache", "get_store", "state_types_registry", "command_registry", "quote", "unquote", "join_key", "key_name", "key_extension", "len", "type", "isinstance", "str", "bool", "int", "float", "repr", "tuple", "list", "dict", "set", "sorted", "min", "max", "any", "all"}
# methods without side effects in this code base (path constructors, printers, accessors)
PURE_METHODS = {"clone", "copy", "as_dict", "get_metadata", "get_bytes", "decode", "as_bytes", "from_bytes", "listdir", "listdir_keys",
                "to_root_key", "translate_key", "route_to", "is_supported", "read_only", "parent", "with_name", "joinpath", "path_for_key", "metadata_path_for_key", "to_path", "encode", "get", "segment_name", "is_volatile", "is_dir", "contains",
                "startswith", "endswith", "split", "join", "lower", "upper", "strip", "items", "keys", "values", "key_name", "key_extension",
                "default_extension", "identifier", "is_action_request", "is_filename", "is_resource_query", "is_transform_query", "name",
                "with_suffix", "format", "replace_", "isupper", "exists"}


def _is_pure(e):
    if isinstance(e, (ast.Name, ast.Constant)):
        return True
    if isinstance(e, ast.Attribute):
        return _is_pure(e.value)
    if isinstance(e, ast.Subscript):
        return _is_pure(e.value) and _is_pure(e.slice)
    if isinstance(e, ast.Slice):
        return all(x is None or _is_pure(x) for x in (e.lower, e.upper, e.step))
    if isinstance(e, ast.BoolOp):
        return all(_is_pure(v) for v in e.values)
    if isinstance(e, ast.UnaryOp):
        return _is_pure(e.operand)
    if isinstance(e, ast.BinOp):
        return _is_pure(e.left) and _is_pure(e.right)
    if isinstance(e, ast.Compare):
        return _is_pure(e.left) and all(_is_pure(c) for c in e.comparators)
    if isinstance(e, ast.IfExp):
        return _is_pure(e.test) and _is_pure(e.body) and _is_pure(e.orelse)
    if isinstance(e, (ast.Tuple, ast.List)):
        return all(_is_pure(x) for x in e.elts)
    if isinstance(e, ast.JoinedStr):
        return all(_is_pure(v.value) if isinstance(v, ast.FormattedValue) else True for v in e.values)
    if isinstance(e, (ast.ListComp, ast.SetComp, ast.GeneratorExp)):
        return _is_pure(e.elt) and all(_is_pure(g.iter) and all(_is_pure(c) for c in g.ifs) for g in e.generators)
    if isinstance(e, ast.DictComp):
        return _is_pure(e.key) and _is_pure(e.value) and all(_is_pure(g.iter) and all(_is_pure(c) for c in g.ifs) for g in e.generators)
    if isinstance(e, ast.Call):
        if e.keywords and any(k.arg is None for k in e.keywords):
            return False
        args_ok = all(_is_pure(a) for a in e.args) and all(_is_pure(k.value) for k in e.keywords)
        if isinstance(e.func, ast.Name):
            return e.func.id in PURE_FUNCS and args_ok
        if isinstance(e.func, ast.Attribute):
            return e.func.attr in PURE_METHODS and _is_pure(e.func.value) and args_ok
    return False


def _blocks_of(node):
    for f in ("body", "orelse", "finalbody"):
        b = getattr(node, f, None)
        if isinstance(b, list) and b and isinstance(b[0], ast.stmt):
            yield b
    for h in getattr(node, "handlers", []) or []:
        yield h.body


def _absorb_tail_into_if(fn, known):
    """`if c: A else: B` followed by a short tail T that is the rest of its block, where T reads a local the reference function does
    not have and both branches assign it: T is copied to the end of both branches (`if c: A; T else: B; T`) so that the branch-local
    definitions can be substituted. Always behaviour-preserving; a branch that ends in return/raise/break/continue gets no copy."""
    import copy
    for node in ast.walk(fn):
        for b in _blocks_of(node):
            for i, st in enumerate(b):
                if not (isinstance(st, ast.If) and st.orelse):
                    continue
                tail = b[i + 1:]
                if not tail:
                    continue
                # the block must be the body of the function or end in a return (so that nothing after the tail is affected): any block qualifies,
                # the statements after an if run after either branch
                def last_branches(s_):
                    out = []
                    for blk in (s_.body, s_.orelse):
                        if blk and isinstance(blk[-1], ast.If) and blk[-1].orelse:
                            out += last_branches(blk[-1])     # elif chain / a branch that itself ends in an if/else: its leaves
                        else:
                            out.append(blk)
                    return out
                branches = last_branches(st)
                assigned_all = None
                for blk in branches:
                    if blk and isinstance(blk[-1], (ast.Return, ast.Raise, ast.Break, ast.Continue)):
                        continue
                    names = {n.targets[0].id for n in blk if isinstance(n, ast.Assign) and len(n.targets) == 1 and isinstance(n.targets[0], ast.Name)}
                    assigned_all = names if assigned_all is None else assigned_all & names
                cands = {t for t in (assigned_all or set()) if t not in known}
                if not cands:
                    continue
                # the shortest prefix of the following statements that contains every read of the fresh locals
                last = -1
                for j_, x in enumerate(tail):
                    if any(isinstance(n, ast.Name) and n.id in cands for n in ast.walk(x)):
                        last = j_
                if last < 0 or last > 3:
                    continue
                tail = tail[:last + 1]
                if any(isinstance(x, (ast.FunctionDef, ast.AsyncFunctionDef, ast.ClassDef)) for x in tail):
                    continue
                for blk in branches:
                    if blk and isinstance(blk[-1], (ast.Return, ast.Raise, ast.Break, ast.Continue)):
                        continue
                    blk.extend(copy.deepcopy(tail))
                del b[i + 1:i + 1 + len(tail)]
                ast.fix_missing_locations(fn)
                return 1
    return 0


def _source_order(fn):
    """{id(node): index} in depth-first field order (line numbers are useless after inlining: spliced statements keep the helper's)"""
    order = {}

    def go(n):
        order[id(n)] = len(order)
        for ch in ast.iter_child_nodes(n):
            go(ch)
    go(fn)
    return order


def _eliminate_alias(fn, known):
    """`escaped = token` where `escaped` is a local the reference function does not have and `token` is never mentioned again after
    that statement: the alias is renamed back to `token` (the copy-a-parameter-into-a-fresh-name refactor)."""
    nested_names = set()
    for n in ast.walk(fn):
        if isinstance(n, (ast.FunctionDef, ast.AsyncFunctionDef, ast.Lambda)) and n is not fn:
            nested_names |= {x.id for x in ast.walk(n) if isinstance(x, ast.Name)}
    body_nodes = list(ast.walk(fn))
    order = _source_order(fn)
    for st in body_nodes:
        if isinstance(st, ast.Assign) and len(st.targets) == 1 and isinstance(st.targets[0], ast.Name) and isinstance(st.value, ast.Name):
            t, y = st.targets[0].id, st.value.id
            if t == y or t in nested_names or y in nested_names:
                continue
            if t in known and y not in known:
                # reverse alias `t = fresh` where `fresh` is a local the reference function does not have, is never mentioned after this
                # statement, and `t` is not mentioned between the first mention of `fresh` and this statement: `fresh` *is* t
                pos = lambda n: order[id(n)]
                ys = [n for n in body_nodes if isinstance(n, ast.Name) and n.id == y]
                first_y = min(pos(n) for n in ys)
                if any(pos(n) > pos(st.value) for n in ys):
                    continue
                if any(first_y <= pos(n) < pos(st.targets[0]) for n in body_nodes if isinstance(n, ast.Name) and n.id == t):
                    continue
                if any(isinstance(n, (ast.For, ast.While)) and any(x is st for x in ast.walk(n)) for n in body_nodes):
                    continue
                _Rename(y, t).visit(fn)
                for node in ast.walk(fn):
                    for b in _blocks_of(node):
                        if st in b:
                            b.remove(st)
                            if not b:
                                b.append(ast.copy_location(ast.Pass(), st))
                return 1
            if t in known:
                continue
            # first binding of t in source order, and y not mentioned anywhere after this statement
            first = min(order[id(n)] for n in body_nodes if isinstance(n, ast.Name) and n.id == t)
            if order[id(st.targets[0])] != first:
                continue
            after = [n for n in body_nodes if isinstance(n, ast.Name) and n.id == y and order[id(n)] > order[id(st.value)]]
            if after:
                continue
            # the statement must not sit inside a loop (a second iteration would re-read y)
            def in_loop(node, target, inside=False):
                for ch in ast.iter_child_nodes(node):
                    if ch is target:
                        return inside
                    r = in_loop(ch, target, inside or isinstance(ch, (ast.For, ast.While)))
                    if r is not None:
                        return r
                return None
            if in_loop(fn, st):
                continue
            _Rename(t, y).visit(fn)
            # the assignment became `y = y`: drop it
            for node in ast.walk(fn):
                for b in _blocks_of(node):
                    if st in b:
                        b.remove(st)
                        if not b:
                            b.append(ast.copy_location(ast.Pass(), st))
            return 1
    return 0


def _evaluated_before_is_pure(expr, t):
    """True when `t` occurs exactly once in expr and everything Python evaluates before that occurrence is side-effect free
    (so an impure defining expression may be moved into its place without reordering effects)."""
    uses = [n for n in ast.walk(expr) if isinstance(n, ast.Name) and n.id == t]
    if len(uses) != 1:
        return False
    target = uses[0]

    def contains(e):
        return any(n is target for n in ast.walk(e))

    def go(e):
        if e is target:
            return True
        if isinstance(e, ast.Call):
            seq = [e.func] + list(e.args) + [k.value for k in e.keywords]
        elif isinstance(e, ast.Attribute):
            seq = [e.value]
        elif isinstance(e, ast.Subscript):
            seq = [e.value, e.slice]
        elif isinstance(e, ast.BinOp):
            seq = [e.left, e.right]
        elif isinstance(e, (ast.Tuple, ast.List)):
            seq = list(e.elts)
        elif isinstance(e, ast.JoinedStr):
            seq = [v.value for v in e.values if isinstance(v, ast.FormattedValue)]
        elif isinstance(e, ast.keyword):
            seq = [e.value]
        else:
            return False          # conditional / boolean contexts: evaluation of the use is not unconditional
        for x in seq:
            if contains(x):
                return go(x)
            if not _is_pure(x):
                return False
        return False
    return go(expr)


def _inline_new_locals(fn, known, limit=None):
    """a local the reference function does not have, assigned exactly once to a side-effect-free expression whose operands are not
    re-bound afterwards, and read only in the statements that follow the assignment in its block, is substituted into its uses
    (the inverse of the hoist-local refactor: `has_input = flag or value is not None; if extras is None and not has_input:`)."""
    done = 0
    for _ in range(8 if limit is None else limit):
        stores = {}
        nested_names = set()
        for n in ast.walk(fn):
            if isinstance(n, (ast.FunctionDef, ast.AsyncFunctionDef, ast.Lambda)) and n is not fn:
                nested_names |= {x.id for x in ast.walk(n) if isinstance(x, ast.Name)}
        for n in ast.walk(fn):
            if isinstance(n, ast.Name) and isinstance(n.ctx, (ast.Store, ast.Del)):
                stores.setdefault(n.id, 0)
                stores[n.id] += 1
            elif isinstance(n, ast.ExceptHandler) and n.name:
                stores[n.name] = stores.get(n.name, 0) + 1
        progress = False
        stack = [fn]
        while stack and not progress:
            node = stack.pop()
            for b in _blocks_of(node):
                for i, st in enumerate(b):
                    if isinstance(st, ast.Assign) and len(st.targets) == 1 and isinstance(st.targets[0], ast.Name):
                        t = st.targets[0].id
                        if t in known or t in nested_names:
                            continue
                        if not _is_pure(st.value):
                            # an impure value may still move into the *next* statement when it is read exactly once there and nothing
                            # with an effect is evaluated before that read
                            nxt = b[i + 1] if i + 1 < len(b) else None
                            ev = getattr(nxt, "value", None) if isinstance(nxt, (ast.Assign, ast.Expr, ast.Return)) else None
                            n_uses = sum(1 for n in ast.walk(fn) if isinstance(n, ast.Name) and n.id == t and isinstance(n.ctx, ast.Load))
                            if stores.get(t) == 1 and ev is not None and n_uses == 1 and _evaluated_before_is_pure(ev, t) \
                                    and not (isinstance(nxt, ast.Assign) and any(not _is_pure(tg) for tg in nxt.targets)):
                                import copy
                                val_ = st.value

                                class S2(ast.NodeTransformer):
                                    def visit_Name(self, n):
                                        if n.id == t and isinstance(n.ctx, ast.Load):
                                            return ast.copy_location(copy.deepcopy(val_), n)
                                        return n
                                S2().visit(nxt)
                                del b[i]
                                done += 1
                                progress = True
                                break
                            continue
                        rest = b[i + 1:]
                        uses_rest = [n for s2 in rest for n in ast.walk(s2) if isinstance(n, ast.Name) and n.id == t]
                        uses_all = [n for n in ast.walk(fn) if isinstance(n, ast.Name) and n.id == t and isinstance(n.ctx, ast.Load)]
                        if stores.get(t) != 1:
                            # several definitions (one per branch after tail absorption): each must own its reads - no store of t in this
                            # definition's rest-of-block, and every read of t in the function lies in the rest-of-block of exactly one definition
                            if any(isinstance(n, ast.Name) and n.id == t and isinstance(n.ctx, (ast.Store, ast.Del)) for s2 in rest for n in ast.walk(s2)):
                                continue
                            owned = set()
                            fine = True
                            for node2 in ast.walk(fn):
                                for b2 in _blocks_of(node2):
                                    for j2, st2 in enumerate(b2):
                                        if isinstance(st2, ast.Assign) and len(st2.targets) == 1 and isinstance(st2.targets[0], ast.Name) and st2.targets[0].id == t:
                                            mine = {id(n) for s3 in b2[j2 + 1:] for n in ast.walk(s3) if isinstance(n, ast.Name) and n.id == t and isinstance(n.ctx, ast.Load)}
                                            if mine & owned:
                                                fine = False
                                            owned |= mine
                            n_assign = sum(1 for n in ast.walk(fn) if isinstance(n, ast.Assign) and len(n.targets) == 1 and isinstance(n.targets[0], ast.Name) and n.targets[0].id == t)
                            if not fine or owned != {id(n) for n in uses_all} or n_assign != stores.get(t) or not uses_rest:
                                continue
                            uses_all = [n for n in uses_rest if isinstance(n.ctx, ast.Load)]
                        elif len(uses_rest) != len(uses_all) or not uses_all:
                            continue
                        if isinstance(st.value, (ast.List, ast.Dict, ast.Set, ast.ListComp, ast.DictComp, ast.SetComp)) or \
                                (isinstance(st.value, ast.Call) and isinstance(st.value.func, ast.Name) and st.value.func.id in ("list", "dict", "set")):
                            # a fresh mutable object: substitution is an identity only for a single read that does not go through it
                            through = any(isinstance(n, (ast.Attribute, ast.Subscript)) and isinstance(n.value, ast.Name) and n.value.id == t
                                          for s2 in rest for n in ast.walk(s2))
                            if through or len(uses_all) != 1:
                                continue
                        operands = {n.id for n in ast.walk(st.value) if isinstance(n, ast.Name)}
                        attrs = {U(n) for n in ast.walk(st.value) if isinstance(n, ast.Attribute)}
                        def rebinds(node):
                            for n in ast.walk(node):
                                if isinstance(n, ast.Name) and isinstance(n.ctx, (ast.Store, ast.Del)) and n.id in operands:
                                    return True
                                if isinstance(n, (ast.Attribute, ast.Subscript)) and isinstance(n.ctx, (ast.Store, ast.Del)) and any(
                                        a == U(n) or a.startswith(U(n) + ".") or U(n).startswith(a + ".") or U(n).startswith(a + "[") for a in attrs | operands):
                                    return True
                                if isinstance(n, ast.ExceptHandler) and n.name in operands:
                                    return True
                                if isinstance(n, ast.Call) and isinstance(n.func, ast.Attribute) and n.func.attr not in PURE_METHODS \
                                        and {x.id for x in ast.walk(n.func.value) if isinstance(x, ast.Name)} & (operands - {"self"}):
                                    return True      # a mutating method call on an operand (parameters.append(...))
                            return False

                        def has_use(node):
                            return any(isinstance(n, ast.Name) and n.id == t for n in ast.walk(node))
                        last = max(k for k, s2 in enumerate(rest) if has_use(s2))
                        rebound = False
                        for k, s2 in enumerate(rest[:last + 1]):
                            if k < last:
                                rebound = rebound or rebinds(s2)
                            else:
                                # the statement holding the last use: a plain assignment evaluates its value before it stores
                                if isinstance(s2, ast.Assign) and not any(has_use(tg) for tg in s2.targets):
                                    rebound = rebound or rebinds(s2.value)
                                elif isinstance(s2, ast.If) and not any(has_use(x) for blk in (s2.body, s2.orelse) for x in blk):
                                    rebound = rebound or rebinds(s2.test)     # the test is evaluated before either branch runs
                                elif isinstance(s2, ast.For) and not any(has_use(x) for blk in (s2.body, s2.orelse) for x in blk) and not has_use(s2.target):
                                    rebound = rebound or rebinds(s2.iter)     # the iterable is evaluated once, before the first iteration
                                else:
                                    rebound = rebound or rebinds(s2)
                        if rebound:
                            continue
                        val = st.value

                        class S(ast.NodeTransformer):
                            def visit_Name(self, n):
                                if n.id == t and isinstance(n.ctx, ast.Load):
                                    import copy
                                    return ast.copy_location(copy.deepcopy(val), n)
                                return n
                        for s2 in rest:
                            S().visit(s2)
                        del b[i]
                        if not b:
                            b.append(ast.copy_location(ast.Pass(), st))
                        done += 1
                        progress = True
                        break
                if progress:
                    break
                for st in b:
                    if not isinstance(st, (ast.FunctionDef, ast.AsyncFunctionDef, ast.ClassDef)):
                        stack.append(st)
        if not progress:
            break
    if done:
        ast.fix_missing_locations(fn)
    return done

_PC = {}


def _pat(src):
    if src not in _PC:
        _PC[src] = ast.parse(src, mode="eval").body
    return _PC[src]


def _match(pat, node, env):
    from .lib import pmatch
    return pmatch(pat, node, env)


class _Rename(ast.NodeTransformer):
    def __init__(self, old, new):
        self.old, self.new = old, new

    def visit_Name(self, node):
        if node.id == self.old:
            node.id = self.new
        return node

    def visit_ExceptHandler(self, node):
        self.generic_visit(node)
        if node.name == self.old:
            node.name = self.new
        return node


def _candidates(fn, kind, pat):
    """names of locals in fn defined by (kind, pat); metavariable _T must not occur in value patterns"""
    out = set()
    for n in ast.walk(fn):
        tgt = val = None
        if kind == "assign" and isinstance(n, ast.Assign) and len(n.targets) == 1 and isinstance(n.targets[0], ast.Name):
            tgt, val = n.targets[0].id, n.value
        elif kind.startswith("unpack") and isinstance(n, ast.Assign) and len(n.targets) == 1 and isinstance(n.targets[0], (ast.Tuple, ast.List)):
            i = int(kind[6:])
            es = n.targets[0].elts
            if i < len(es) and isinstance(es[i], ast.Name):
                tgt, val = es[i].id, n.value
        elif kind.startswith("iter") and isinstance(n, (ast.For, ast.comprehension)):
            t = n.target
            if kind == "iter" and isinstance(t, ast.Name):
                tgt, val = t.id, n.iter
            elif kind != "iter" and isinstance(t, (ast.Tuple, ast.List)):
                i = int(kind[4:])
                if i < len(t.elts) and isinstance(t.elts[i], ast.Name):
                    tgt, val = t.elts[i].id, n.iter
        elif kind == "with" and isinstance(n, ast.withitem) and isinstance(n.optional_vars, ast.Name):
            tgt, val = n.optional_vars.id, n.context_expr
        elif kind == "except" and isinstance(n, ast.ExceptHandler) and n.name and n.type is not None:
            tgt, val = n.name, n.type
        if tgt is None:
            continue
        if _match(_pat(pat), val, {}) is not None:
            out.add(tgt)
    return out


def _names(fn):
    out = set()
    for n in ast.walk(fn):
        if isinstance(n, ast.Name):
            out.add(n.id)
        elif isinstance(n, ast.arg):
            out.add(n.arg)
    return out


def _inline_return_temps(fn):
    """`x = <expr>` immediately followed by `return x` is rewritten to `return <expr>` (always behaviour-preserving: nothing
    can read that definition of x after the return). Rules look at return expressions; a pass-through local is a benign
    refactor. `x = f(x); return x` is left alone (the rules name such re-bindings, e.g. `state = self.index_state(state)`)."""
    stores, loads = {}, {}
    for n in ast.walk(fn):
        if isinstance(n, ast.Name):
            (stores if isinstance(n.ctx, ast.Store) else loads).setdefault(n.id, []).append(n)
    n_done = 0

    def blocks(node):
        for f in ("body", "orelse", "finalbody"):
            b = getattr(node, f, None)
            if isinstance(b, list) and b and isinstance(b[0], ast.stmt):
                yield b
        for h in getattr(node, "handlers", []) or []:
            yield h.body

    stack = [fn]
    while stack:
        node = stack.pop()
        for b in blocks(node):
            i = 0
            while i + 1 < len(b):
                a, r = b[i], b[i + 1]
                if isinstance(a, ast.Assign) and len(a.targets) == 1 and isinstance(a.targets[0], ast.Name) and isinstance(r, ast.Return) \
                        and isinstance(r.value, ast.Name) and r.value.id == a.targets[0].id \
                        and r.value.id not in {x.id for x in ast.walk(a.value) if isinstance(x, ast.Name)}:
                    r.value = a.value
                    del b[i]
                    n_done += 1
                    continue
                i += 1
            for st in b:
                if not isinstance(st, (ast.FunctionDef, ast.AsyncFunctionDef, ast.ClassDef)):
                    stack.append(st)
    return n_done


def _normalise_negated_ifs(fn):
    """`if not X: A else: B` (else not an elif chain) is rewritten to `if X: B else: A`; double negations are stripped.
    Behaviour-preserving; makes branch inversion a non-event for the rules."""
    k = 0
    for n in ast.walk(fn):
        if isinstance(n, (ast.If, ast.While, ast.IfExp)):
            while isinstance(n.test, ast.UnaryOp) and isinstance(n.test.op, ast.Not) and isinstance(n.test.operand, ast.UnaryOp) \
                    and isinstance(n.test.operand.op, ast.Not):
                n.test = n.test.operand.operand
                k += 1
        if isinstance(n, ast.If) and n.orelse and not (len(n.orelse) == 1 and isinstance(n.orelse[0], ast.If)) \
                and isinstance(n.test, ast.UnaryOp) and isinstance(n.test.op, ast.Not):
            n.test = n.test.operand
            n.body, n.orelse = n.orelse, n.body
            k += 1
    return k


def _merge_nested_ifs(fn):
    """`if a: (if b: X)` with no else on either level is rewritten to `if a and b: X` (behaviour-preserving)."""
    k = 0
    changed = True
    while changed:
        changed = False
        for n in ast.walk(fn):
            if isinstance(n, ast.If) and not n.orelse and len(n.body) == 1 and isinstance(n.body[0], ast.If) and not n.body[0].orelse:
                inner = n.body[0]
                vals = []
                for t in (n.test, inner.test):
                    vals += t.values if isinstance(t, ast.BoolOp) and isinstance(t.op, ast.And) else [t]
                n.test = ast.copy_location(ast.BoolOp(op=ast.And(), values=vals), n.test)
                n.body = inner.body
                k += 1
                changed = True
    return k


def _restore_compare_order(fn, ref):
    """`b == a` is rewritten to `a == b` when the reference tree writes this comparison as `a == b` (==/!= are symmetric for the
    str / int / None operands used in the analysed functions)."""
    k = 0
    ref = set(ref)
    for n in ast.walk(fn):
        if isinstance(n, ast.Compare) and len(n.ops) == 1 and isinstance(n.ops[0], (ast.Eq, ast.NotEq)):
            if U(n) in ref:
                continue
            sw = ast.Compare(left=n.comparators[0], ops=n.ops, comparators=[n.left])
            if U(sw) in ref:
                n.left, n.comparators = sw.left, sw.comparators
                k += 1
    return k


class _Fold(ast.NodeTransformer):
    """constant folding of what parameter substitution leaves behind: `a if True else b`, `if False: ...`, `not True`,
    `None is None`, `True and x`"""
    def __init__(self):
        self.n = 0

    @staticmethod
    def _const(e):
        return isinstance(e, ast.Constant) and (e.value is None or isinstance(e.value, bool))

    def visit_UnaryOp(self, node):
        self.generic_visit(node)
        if isinstance(node.op, ast.Not) and self._const(node.operand):
            self.n += 1
            return ast.copy_location(ast.Constant(not node.operand.value), node)
        return node

    def visit_Compare(self, node):
        self.generic_visit(node)
        if len(node.ops) == 1 and isinstance(node.ops[0], (ast.Is, ast.IsNot)) and self._const(node.left) and self._const(node.comparators[0]):
            v = node.left.value is node.comparators[0].value
            self.n += 1
            return ast.copy_location(ast.Constant(v if isinstance(node.ops[0], ast.Is) else not v), node)
        return node

    def visit_BoolOp(self, node):
        self.generic_visit(node)
        is_and = isinstance(node.op, ast.And)
        vals = []
        for v in node.values:
            if self._const(v) and isinstance(v.value, bool):
                if v.value is is_and:
                    self.n += 1
                    continue            # neutral element
                if not vals:
                    self.n += 1
                    return ast.copy_location(ast.Constant(v.value), node)     # absorbing element in first position decides
            vals.append(v)
        if not vals:
            return ast.copy_location(ast.Constant(is_and), node)
        if len(vals) == 1:
            return vals[0]
        node.values = vals
        return node

    def visit_IfExp(self, node):
        self.generic_visit(node)
        if self._const(node.test):
            self.n += 1
            return node.body if node.test.value else node.orelse
        return node

    def _block(self, stmts):
        out = []
        for s in stmts:
            r = self.visit(s)
            if r is None:
                continue
            out.extend(r if isinstance(r, list) else [r])
        return out

    def visit_If(self, node):
        node.test = self.visit(node.test)
        node.body = self._block(node.body) or [ast.copy_location(ast.Pass(), node)]
        node.orelse = self._block(node.orelse)
        if self._const(node.test):
            self.n += 1
            chosen = node.body if node.test.value else node.orelse
            return chosen or [ast.copy_location(ast.Pass(), node)]
        return node


def _fold_constants(fn):
    f = _Fold()
    for fld in ("body",):
        fn.body = f._block(fn.body) or [ast.Pass()]
    if f.n:
        ast.fix_missing_locations(fn)
    return f.n


def _expand_generator_idioms(fn):
    """`yield from (E for x in it if c)` -> `for x in it: if c: yield E`;  `return any(c for x in it)` -> `for x in it: if c: return True`
    followed by `return False` (and the dual for all()). Behaviour-preserving; the rules reason about loops."""
    k = 0

    def loop_of(gen, leaf):
        body = leaf
        for comp in reversed(gen.generators):
            if comp.is_async:
                return None
            for c in reversed(comp.ifs):
                body = [ast.If(test=c, body=body, orelse=[])]
            body = [ast.For(target=comp.target, iter=comp.iter, body=body, orelse=[])]
        return body

    for node in ast.walk(fn):
        for b in _blocks_of(node):
            i = 0
            while i < len(b):
                st = b[i]
                repl = None
                if isinstance(st, ast.Expr) and isinstance(st.value, ast.YieldFrom) and isinstance(st.value.value, ast.GeneratorExp):
                    g = st.value.value
                    repl = loop_of(g, [ast.Expr(value=ast.Yield(value=g.elt))])
                elif isinstance(st, ast.Return) and isinstance(st.value, ast.Call) and isinstance(st.value.func, ast.Name) \
                        and st.value.func.id in ("any", "all") and len(st.value.args) == 1 and not st.value.keywords \
                        and isinstance(st.value.args[0], ast.GeneratorExp):
                    g = st.value.args[0]
                    is_any = st.value.func.id == "any"
                    cond = g.elt if is_any else ast.UnaryOp(op=ast.Not(), operand=g.elt)
                    inner = loop_of(g, [ast.If(test=cond, body=[ast.Return(value=ast.Constant(is_any))], orelse=[])])
                    if inner is not None:
                        repl = inner + [ast.Return(value=ast.Constant(not is_any))]
                if repl:
                    for r in repl:
                        ast.copy_location(r, st)
                        ast.fix_missing_locations(r)
                    b[i:i + 1] = repl
                    k += 1
                    i += len(repl)
                    continue
                i += 1
    return k


def _dict_literals_to_calls(tree):
    """`{"a": x, "b": y}` with identifier keys is rewritten to `dict(a=x, b=y)` (same mapping, same evaluation order)."""
    import keyword
    k = 0

    class D(ast.NodeTransformer):
        def visit_Dict(self, node):
            nonlocal k
            self.generic_visit(node)
            if node.keys and all(isinstance(x, ast.Constant) and isinstance(x.value, str) and x.value.isidentifier() and not keyword.iskeyword(x.value)
                                 for x in node.keys) and len({x.value for x in node.keys}) == len(node.keys):
                k += 1
                return ast.copy_location(ast.Call(func=ast.Name(id="dict", ctx=ast.Load()), args=[],
                                                  keywords=[ast.keyword(arg=x.value, value=v) for x, v in zip(node.keys, node.values)]), node)
            return node
    D().visit(tree)
    if k:
        ast.fix_missing_locations(tree)
    return k


def _ifexp_statements(fn):
    """`x = a if c else b` -> `if c: x = a else: x = b`;  `return a if c else b` -> `if c: return a else: return b` (top-level conditional
    expressions only; the value of x / the returned value is the same on every path)."""
    k = 0
    import copy
    for node in ast.walk(fn):
        for b in _blocks_of(node):
            i = 0
            while i < len(b):
                st = b[i]
                v = getattr(st, "value", None)
                if isinstance(st, (ast.Assign, ast.Return)) and isinstance(v, ast.IfExp) and \
                        not (isinstance(st, ast.Assign) and any(isinstance(t, (ast.Subscript, ast.Attribute)) and not _is_pure(t) for t in st.targets)):
                    def mk(val):
                        if isinstance(st, ast.Return):
                            return ast.Return(value=val)
                        return ast.Assign(targets=copy.deepcopy(st.targets), value=val)
                    new = ast.If(test=v.test, body=[mk(v.body)], orelse=[mk(v.orelse)])
                    ast.copy_location(new, st)
                    ast.fix_missing_locations(new)
                    b[i] = new
                    k += 1
                    continue        # re-examine: nested conditional expressions
                # `f(a if c else b)` as a statement, everything evaluated before the argument being side-effect free
                call = v if isinstance(st, (ast.Expr, ast.Assign, ast.Return)) and isinstance(v, ast.Call) else None
                if call is not None and not call.keywords and sum(isinstance(x, ast.IfExp) for x in call.args) == 1 \
                        and _is_pure(call.func.value if isinstance(call.func, ast.Attribute) else call.func) \
                        and not (isinstance(st, ast.Assign) and any(not _is_pure(t) for t in st.targets)):
                    j = next(j_ for j_, x in enumerate(call.args) if isinstance(x, ast.IfExp))
                    if all(_is_pure(x) for x in call.args[:j]) and _is_pure(call.args[j].test):
                        ife = call.args[j]

                        def mk2(val, call=call, j=j, st=st):
                            c2 = copy.deepcopy(call)
                            c2.args[j] = val
                            if isinstance(st, ast.Return):
                                return ast.Return(value=c2)
                            if isinstance(st, ast.Expr):
                                return ast.Expr(value=c2)
                            return ast.Assign(targets=copy.deepcopy(st.targets), value=c2)
                        new = ast.If(test=ife.test, body=[mk2(ife.body)], orelse=[mk2(ife.orelse)])
                        ast.copy_location(new, st)
                        ast.fix_missing_locations(new)
                        b[i] = new
                        k += 1
                        continue
                i += 1
    return k


def _inline_nested_expression_functions(fn):
    """a local function whose body is a single `return <expr>` (docstring allowed), that is only ever *called* (never passed around)
    and whose free variables are not re-bound between its definition and... (they are read at call time, like the inlined text):
    calls are replaced by the expression with the parameters substituted, and the definition is dropped."""
    import copy
    k = 0
    for node in list(ast.walk(fn)):
        for b in _blocks_of(node):
            for st in list(b):
                if not isinstance(st, ast.FunctionDef) or st is fn or st.decorator_list or st.args.vararg or st.args.kwarg or st.args.kwonlyargs:
                    continue
                body = [x for x in st.body if not (isinstance(x, ast.Expr) and isinstance(x.value, ast.Constant))]
                if len(body) != 1 or not isinstance(body[0], ast.Return) or body[0].value is None:
                    continue
                name = st.name
                refs = [n for n in ast.walk(fn) if isinstance(n, ast.Name) and n.id == name]
                calls = [n for n in ast.walk(fn) if isinstance(n, ast.Call) and isinstance(n.func, ast.Name) and n.func.id == name]
                if not calls or len(refs) != len(calls) or any(c.keywords or any(isinstance(a, ast.Starred) for a in c.args) for c in calls):
                    continue
                ps = [a.arg for a in st.args.args]
                if any(len(c.args) != len(ps) for c in calls) or any(isinstance(n, ast.Name) and n.id == name for n in ast.walk(st)):
                    continue
                expr = body[0].value

                class R(ast.NodeTransformer):
                    def visit_Call(self, n):
                        self.generic_visit(n)
                        if isinstance(n.func, ast.Name) and n.func.id == name:
                            bound = dict(zip(ps, n.args))

                            class S(ast.NodeTransformer):
                                def visit_Name(self, m_):
                                    return copy.deepcopy(bound[m_.id]) if m_.id in bound and isinstance(m_.ctx, ast.Load) else m_
                            return ast.copy_location(S().visit(copy.deepcopy(expr)), n)
                        return n
                b.remove(st)
                if not b:
                    b.append(ast.Pass())
                R().visit(fn)
                k += 1
    if k:
        ast.fix_missing_locations(fn)
    return k


def _unroll_literal_loops(fn):
    """`for x in (a, b): BODY` over a literal tuple/list of at most four side-effect-free elements, with a plain name as target and no
    break/continue/else: the body is repeated once per element with the element substituted for x."""
    import copy
    k = 0
    for node in list(ast.walk(fn)):
        for b in _blocks_of(node):
            i = 0
            while i < len(b):
                st = b[i]
                if isinstance(st, ast.For) and not st.orelse and isinstance(st.target, ast.Name) and isinstance(st.iter, (ast.Tuple, ast.List)) \
                        and 1 <= len(st.iter.elts) <= 4 and all(_is_pure(e) and not isinstance(e, ast.Starred) for e in st.iter.elts) \
                        and not any(isinstance(n, (ast.Break, ast.Continue)) for x in st.body for n in ast.walk(x)) \
                        and not any(isinstance(n, ast.Name) and n.id == st.target.id and isinstance(n.ctx, ast.Store) for x in st.body for n in ast.walk(x)) \
                        and not any(isinstance(n, ast.Name) and n.id == st.target.id for s2 in b[i + 1:] for n in ast.walk(s2)):
                    t = st.target.id
                    out = []
                    for e in st.iter.elts:
                        class S(ast.NodeTransformer):
                            def visit_Name(self, n):
                                return copy.deepcopy(e) if n.id == t and isinstance(n.ctx, ast.Load) else n
                        for x in st.body:
                            out.append(S().visit(copy.deepcopy(x)))
                    b[i:i + 1] = out
                    k += 1
                    i += len(out)
                    continue
                i += 1
    if k:
        ast.fix_missing_locations(fn)
    return k


_INV = {ast.Eq: ast.NotEq, ast.NotEq: ast.Eq, ast.Is: ast.IsNot, ast.IsNot: ast.Is, ast.In: ast.NotIn, ast.NotIn: ast.In,
        ast.Lt: ast.GtE, ast.GtE: ast.Lt, ast.Gt: ast.LtE, ast.LtE: ast.Gt}


def _negate(e):
    if isinstance(e, ast.UnaryOp) and isinstance(e.op, ast.Not):
        return e.operand
    if isinstance(e, ast.Compare) and len(e.ops) == 1 and type(e.ops[0]) in _INV:
        return ast.copy_location(ast.Compare(left=e.left, ops=[_INV[type(e.ops[0])]()], comparators=e.comparators), e)
    return ast.copy_location(ast.UnaryOp(op=ast.Not(), operand=e), e)


def _surely_bool(e):
    return isinstance(e, ast.Compare) or (isinstance(e, ast.UnaryOp) and isinstance(e.op, ast.Not)) or \
        (isinstance(e, ast.Call) and isinstance(e.func, ast.Name) and e.func.id in ("isinstance", "bool", "callable", "hasattr"))


def _boolean_returns(fn):
    """`return A or B` with A certainly a bool -> `if A: return True` + `return B`;  `return A and B` -> `if not A: return False` +
    `return B` (the value returned is the same object on every path because A is a comparison / negation)."""
    k = 0
    for node in ast.walk(fn):
        for b in _blocks_of(node):
            i = 0
            while i < len(b):
                st = b[i]
                v = st.value if isinstance(st, ast.Return) else None
                if isinstance(v, ast.BoolOp) and len(v.values) >= 2 and _surely_bool(v.values[0]):
                    first, rest = v.values[0], v.values[1:]
                    rest_e = rest[0] if len(rest) == 1 else ast.copy_location(ast.BoolOp(op=v.op, values=rest), v)
                    if isinstance(v.op, ast.Or):
                        guard = ast.If(test=first, body=[ast.Return(value=ast.Constant(True))], orelse=[])
                    else:
                        guard = ast.If(test=_negate(first), body=[ast.Return(value=ast.Constant(False))], orelse=[])
                    new_ret = ast.Return(value=rest_e)
                    for x in (guard, new_ret):
                        ast.copy_location(x, st)
                        ast.fix_missing_locations(x)
                    b[i:i + 1] = [guard, new_ret]
                    k += 1
                    i += 1          # re-examine the new return (it may be a further and/or)
                    continue
                i += 1
    return k


def _namedtuple_fields(module_tree, known_names):
    """{name: [fields]} for module-level `X = namedtuple("X", [...])` / `collections.namedtuple(...)` definitions the reference tree
    does not have"""
    out = {}
    for st in module_tree.body:
        if isinstance(st, ast.Assign) and len(st.targets) == 1 and isinstance(st.targets[0], ast.Name) and isinstance(st.value, ast.Call):
            f = st.value.func
            if (isinstance(f, ast.Name) and f.id == "namedtuple") or (isinstance(f, ast.Attribute) and f.attr == "namedtuple"):
                a = st.value.args
                if len(a) >= 2:
                    if isinstance(a[1], (ast.List, ast.Tuple)) and all(isinstance(e, ast.Constant) and isinstance(e.value, str) for e in a[1].elts):
                        out[st.targets[0].id] = [e.value for e in a[1].elts]
                    elif isinstance(a[1], ast.Constant) and isinstance(a[1].value, str):
                        out[st.targets[0].id] = a[1].value.replace(",", " ").split()
    return {k: v for k, v in out.items() if k not in known_names}


def _scalar_replace(fn, known, ntfields):
    """`x = NT(a, b, c)` (NT a private namedtuple introduced after the reference tree, x a fresh local whose reads in the rest of
    the block are all attribute reads `x.field`, operands not re-bound in between): the reads become the field expressions."""
    import copy
    for node in ast.walk(fn):
        for b in _blocks_of(node):
            for i, st in enumerate(b):
                if not (isinstance(st, ast.Assign) and len(st.targets) == 1 and isinstance(st.targets[0], ast.Name) and isinstance(st.value, ast.Call)
                        and isinstance(st.value.func, ast.Name) and st.value.func.id in ntfields):
                    continue
                t = st.targets[0].id
                if t in known:
                    continue
                fields = ntfields[st.value.func.id]
                call = st.value
                if any(isinstance(a, ast.Starred) for a in call.args) or any(k.arg is None for k in call.keywords):
                    continue
                bound = dict(zip(fields, call.args))
                for k in call.keywords:
                    bound[k.arg] = k.value
                if set(bound) != set(fields) or not all(_is_pure(v) or isinstance(v, (ast.List, ast.Dict)) and not (v.elts if isinstance(v, ast.List) else v.keys) for v in bound.values()):
                    continue
                rest = b[i + 1:]
                loads = [n for s2 in rest for n in ast.walk(s2) if isinstance(n, ast.Name) and n.id == t]
                attr_reads = [n for s2 in rest for n in ast.walk(s2) if isinstance(n, ast.Attribute) and isinstance(n.value, ast.Name) and n.value.id == t
                              and isinstance(n.ctx, ast.Load) and n.attr in bound]
                everywhere = [n for n in ast.walk(fn) if isinstance(n, ast.Name) and n.id == t and isinstance(n.ctx, ast.Load)]
                if not loads or len(loads) != len(attr_reads):
                    continue
                # all reads of this definition are in the rest of its block (other definitions of t own their own rests)
                others = [n for n in everywhere if n not in loads]
                if any(True for n in others if not any(n in list(ast.walk(s3)) for node2 in ast.walk(fn) for b2 in _blocks_of(node2) for j2, st2 in enumerate(b2)
                                                       if isinstance(st2, ast.Assign) and st2 is not st and len(st2.targets) == 1 and isinstance(st2.targets[0], ast.Name)
                                                       and st2.targets[0].id == t for s3 in b2[j2 + 1:])):
                    continue
                operands = {n.id for v in bound.values() for n in ast.walk(v) if isinstance(n, ast.Name)}
                if any(isinstance(n, ast.Name) and isinstance(n.ctx, (ast.Store, ast.Del)) and n.id in operands for s2 in rest for n in ast.walk(s2)
                       if not (isinstance(s2, ast.Assign) and n in s2.targets)):
                    # an operand is re-bound somewhere in the rest: only safe when each field is read before that; keep it simple
                    continue

                class S(ast.NodeTransformer):
                    def visit_Attribute(self, n):
                        self.generic_visit(n)
                        if isinstance(n.value, ast.Name) and n.value.id == t and isinstance(n.ctx, ast.Load) and n.attr in bound:
                            return ast.copy_location(copy.deepcopy(bound[n.attr]), n)
                        return n
                for s2 in rest:
                    S().visit(s2)
                del b[i]
                if not b:
                    b.append(ast.copy_location(ast.Pass(), st))
                ast.fix_missing_locations(fn)
                return 1
    return 0


def _simplify_trivia(fn):
    """`x.extend([])` / `x.update({})` dropped; `a or False` -> a; `a or True` -> True (a side-effect free); `a and True` -> a; `x = x` dropped."""
    k = 0

    class B(ast.NodeTransformer):
        def visit_BoolOp(self, n):
            nonlocal k
            self.generic_visit(n)
            is_or = isinstance(n.op, ast.Or)
            vals = list(n.values)
            if all(_is_pure(v) for v in vals):
                if any(isinstance(v, ast.Constant) and v.value is (True if is_or else False) for v in vals):
                    k += 1
                    return ast.copy_location(ast.Constant(True if is_or else False), n)
                kept = [v for v in vals if not (isinstance(v, ast.Constant) and v.value is (False if is_or else True))]
                if len(kept) != len(vals):
                    k += 1
                    if not kept:
                        return ast.copy_location(ast.Constant(False if is_or else True), n)
                    if len(kept) == 1:
                        return kept[0]
                    n.values = kept
            return n
    for node in ast.walk(fn):
        if isinstance(node, (ast.Assign, ast.If, ast.Return)):
            for fld in ("value", "test"):
                v = getattr(node, fld, None)
                if isinstance(v, ast.AST):
                    setattr(node, fld, B().visit(v))
    for node in ast.walk(fn):
        for b in _blocks_of(node):
            i = 0
            while i < len(b):
                st = b[i]
                drop = False
                if isinstance(st, ast.Expr) and isinstance(st.value, ast.Call) and isinstance(st.value.func, ast.Attribute) and len(st.value.args) == 1 \
                        and not st.value.keywords and _is_pure(st.value.func.value):
                    a = st.value.args[0]
                    if (st.value.func.attr == "extend" and isinstance(a, (ast.List, ast.Tuple)) and not a.elts) or \
                            (st.value.func.attr == "update" and isinstance(a, ast.Dict) and not a.keys):
                        drop = True
                if isinstance(st, ast.Assign) and len(st.targets) == 1 and isinstance(st.targets[0], ast.Name) and isinstance(st.value, ast.Name) \
                        and st.value.id == st.targets[0].id:
                    drop = True
                if drop:
                    del b[i]
                    if not b:
                        b.append(ast.copy_location(ast.Pass(), st))
                    k += 1
                    continue
                i += 1
    if k:
        ast.fix_missing_locations(fn)
    return k


def _forward_flags(fn, known):
    """a fresh boolean flag that is only ever assigned True/False constants and read once, as the whole test of `if flag: X = <const>`
    (no else), where that `if` follows - in the same block - the statements that set the flag, nothing in between mentions X and none
    of those statements can leave the block early by return/break/continue: every `flag = True` becomes `X = <const>`, the flag goes."""
    import copy
    order = _source_order(fn)
    names = {}
    for n in ast.walk(fn):
        if isinstance(n, ast.Name):
            names.setdefault(n.id, []).append(n)
    for flag, occ in names.items():
        if flag in known:
            continue
        loads = [n for n in occ if isinstance(n.ctx, ast.Load)]
        if len(loads) != 1:
            continue
        sets = [st for st in ast.walk(fn) if isinstance(st, ast.Assign) and len(st.targets) == 1 and isinstance(st.targets[0], ast.Name) and st.targets[0].id == flag]
        if len(sets) + 1 != len(occ) or not sets or not all(isinstance(st.value, ast.Constant) and isinstance(st.value.value, bool) for st in sets):
            continue
        for node in ast.walk(fn):
            for b in _blocks_of(node):
                for j, st in enumerate(b):
                    if isinstance(st, ast.If) and st.test is loads[0] and not st.orelse and st.body and \
                            all(isinstance(x, ast.Assign) and len(x.targets) == 1 and isinstance(x.targets[0], ast.Name) and isinstance(x.value, ast.Constant) for x in st.body):
                        xs = {x.targets[0].id for x in st.body}
                        first_set = min(order[id(s_)] for s_ in sets)
                        # every flag assignment sits inside an earlier statement of this block
                        earlier = b[:j]
                        inside = {id(n) for e in earlier for n in ast.walk(e)}
                        if not all(id(s_) in inside for s_ in sets):
                            continue
                        span = [e for e in earlier if any(order[id(n)] >= first_set for n in ast.walk(e))]
                        if any(isinstance(n, (ast.Return, ast.Break, ast.Continue)) for e in span for n in ast.walk(e)):
                            continue
                        if any(isinstance(n, ast.Name) and n.id in xs and order[id(n)] > first_set for e in span for n in ast.walk(e)):
                            continue
                        # rewrite
                        for n2 in ast.walk(fn):
                            for b2 in _blocks_of(n2):
                                i2 = 0
                                while i2 < len(b2):
                                    if b2[i2] in sets:
                                        if b2[i2].value.value is True:
                                            repl = [ast.copy_location(copy.deepcopy(x), b2[i2]) for x in st.body]
                                            b2[i2:i2 + 1] = repl
                                            i2 += len(repl)
                                            continue
                                        del b2[i2]
                                        if not b2:
                                            b2.append(ast.Pass())
                                        continue
                                    i2 += 1
                        b.remove(st)
                        if not b:
                            b.append(ast.Pass())
                        ast.fix_missing_locations(fn)
                        return 1
    return 0


def _find_fn(m, qual):
    if "." in qual:
        cn, mn = qual.split(".", 1)
        cnode = m.classes.get(cn)
        if cnode is not None:
            for x in cnode.body:
                if isinstance(x, (ast.FunctionDef, ast.AsyncFunctionDef)) and x.name == mn:
                    return x
        return None
    return m.functions.get(qual)


def _negated_definitions(fn, ent):
    """`succeeded = not (state.is_error or self.is_error)` where the reference function defines `is_error = state.is_error or
    self.is_error` (and `is_error` itself is gone): the local is renamed back and every read becomes `not is_error`."""
    done = []
    names = _names(fn)
    for canonical, forms in ent.items():
        if canonical in names:
            continue
        for kind, pat in forms:
            if kind != "assign":
                continue
            cands = []
            for n in ast.walk(fn):
                if isinstance(n, ast.Assign) and len(n.targets) == 1 and isinstance(n.targets[0], ast.Name) \
                        and isinstance(n.value, ast.UnaryOp) and isinstance(n.value.op, ast.Not) and _match(_pat(pat), n.value.operand, {}) is not None:
                    cands.append(n)
            if len(cands) != 1:
                continue
            a = cands[0]
            old = a.targets[0].id
            if sum(1 for n in ast.walk(fn) if isinstance(n, ast.Name) and n.id == old and isinstance(n.ctx, ast.Store)) != 1:
                continue
            a.value = a.value.operand

            class R(ast.NodeTransformer):
                def visit_Name(self, n):
                    if n.id == old:
                        if isinstance(n.ctx, ast.Load):
                            return ast.copy_location(ast.UnaryOp(op=ast.Not(), operand=ast.Name(id=canonical, ctx=ast.Load())), n)
                        n.id = canonical
                    return n
            R().visit(fn)
            ast.fix_missing_locations(fn)
            done.append((old, canonical))
            names = _names(fn)
            break
    return done


def _strip_double_not(fn):
    class D(ast.NodeTransformer):
        def visit_UnaryOp(self, n):
            self.generic_visit(n)
            if isinstance(n.op, ast.Not) and isinstance(n.operand, ast.UnaryOp) and isinstance(n.operand.op, ast.Not):
                return n.operand.operand if False else ast.copy_location(ast.Call(func=ast.Name(id="bool", ctx=ast.Load()), args=[n.operand.operand], keywords=[]), n) \
                    if False else n.operand.operand
            return n
    # `not not x` only ever appears here in test position (after the negated-definition pass), where it equals `x`
    for n in ast.walk(fn):
        if isinstance(n, (ast.If, ast.While, ast.IfExp)):
            n.test = D().visit(n.test)


def canonicalise(repo):
    """mutates the function ASTs of `repo` in place; returns the list of transformations performed.
    Order: (1) helpers the reference tree does not know are inlined; (2) locals renamed back by their defining forms (incl. negated
    definitions); (3) locals the reference function does not have are substituted into their uses; (4) negated if/else swapped,
    nested ifs merged; (5) `x = e; return x` inlined; (6) ==/!= operand order restored."""
    done = []
    for m in repo.modules.values():
        k = _dict_literals_to_calls(m.tree)
        if k:
            done.append((m.name, "<module>", "<dict literals as dict() calls>", k))
    from .inline import inline_new_helpers
    done += inline_new_helpers(repo)
    touched = {(d[0], d[1]) for d in done if d[2].startswith("<helper")}
    for m in repo.modules.values():
        for fn in ast.walk(m.tree):
            if isinstance(fn, (ast.FunctionDef, ast.AsyncFunctionDef)) and (m.name, fn.name) in touched:
                k = _fold_constants(fn)
                if k:
                    done.append((m.name, fn.name, "<constants folded>", k))
    for m in repo.modules.values():
        for st in m.tree.body:
            fns = [st] if isinstance(st, (ast.FunctionDef, ast.AsyncFunctionDef)) else \
                [x for x in st.body if isinstance(x, (ast.FunctionDef, ast.AsyncFunctionDef))] if isinstance(st, ast.ClassDef) else []
            for fn in fns:
                k = _inline_nested_expression_functions(fn)
                if k:
                    done.append((m.name, fn.name, "<local expression functions inlined>", k))
                k = _unroll_literal_loops(fn)
                if k:
                    done.append((m.name, fn.name, "<loops over literal tuples unrolled>", k))
    def rename_pass(modname, qual, fn, ent):
        for _ in range(3):     # a few rounds: patterns mention other locals only as metavariables, so one is usually enough
            changed = False
            for canonical, forms in ent.items():
                actual = set()
                for kind, pat in forms:
                    actual |= _candidates(fn, kind, pat)
                if len(actual) != 1:
                    continue
                (a,) = actual
                if a == canonical or canonical in _names(fn):
                    continue
                _Rename(a, canonical).visit(fn)
                done.append((modname, qual, a, canonical))
                changed = True
            if not changed:
                break
        for old, new in _negated_definitions(fn, ent):
            done.append((modname, qual, f"not {old}", new))

    # first rename pass on the tree as written (the defining forms were recorded on the reference tree as written)
    for (modname, qual), ent in TABLE.items():
        if modname in repo.modules:
            fn = _find_fn(repo.modules[modname], qual)
            if fn is not None:
                rename_pass(modname, qual, fn, ent)
    for m in repo.modules.values():
        for fn in ast.walk(m.tree):
            if isinstance(fn, (ast.FunctionDef, ast.AsyncFunctionDef)):
                k = _ifexp_statements(fn)
                if k:
                    done.append((m.name, fn.name, "<conditional expressions as statements>", k))
    # (2) rename table and (3) new locals, interleaved: a substitution may complete the defining form of another local
    nt = {}
    for m in repo.modules.values():
        ref_names = set()
        try:
            from .canon_table import KNOWN as _K
            ref_names = {q for q in _K.get(m.name, [])}
        except Exception:
            pass
        f_ = _namedtuple_fields(m.tree, ref_names)
        if f_:
            nt[m.name] = f_
    for (modname, qual), known in LOCALS.items():
        if modname not in repo.modules:
            continue
        fn = _find_fn(repo.modules[modname], qual)
        if fn is None:
            continue
        ent = TABLE.get((modname, qual), {})
        known = set(known)
        for _ in range(12):
            if ent:
                rename_pass(modname, qual, fn, ent)
            k = _absorb_tail_into_if(fn, known) or _scalar_replace(fn, known, nt.get(modname, {})) or _eliminate_alias(fn, known) \
                or _forward_flags(fn, known) \
                or _inline_new_locals(fn, known - set(), limit=1)
            if k:
                _simplify_trivia(fn)
            if not k:
                break
            done.append((modname, qual, "<new local substituted>", k))
    # (4), (5)
    for m in repo.modules.values():
        for fn in ast.walk(m.tree):
            if isinstance(fn, (ast.FunctionDef, ast.AsyncFunctionDef)):
                k = _expand_generator_idioms(fn)
                if k:
                    done.append((m.name, fn.name, "<generator idioms expanded>", k))
                k = _boolean_returns(fn)
                if k:
                    done.append((m.name, fn.name, "<boolean returns as guards>", k))
                k = _ifexp_statements(fn)
                if k:
                    done.append((m.name, fn.name, "<conditional expressions as statements>", k))
                _strip_double_not(fn)
                k = _normalise_negated_ifs(fn)
                if k:
                    done.append((m.name, fn.name, "<negated if/else normalised>", k))
                k = _merge_nested_ifs(fn)
                if k:
                    done.append((m.name, fn.name, "<nested ifs merged>", k))
        for st in m.tree.body:
            fns = [st] if isinstance(st, (ast.FunctionDef, ast.AsyncFunctionDef)) else \
                [x for x in st.body if isinstance(x, (ast.FunctionDef, ast.AsyncFunctionDef))] if isinstance(st, ast.ClassDef) else []
            for fn in fns:
                k = _inline_return_temps(fn)
                if k:
                    done.append((m.name, fn.name, "<return temps inlined>", k))
    # (6)
    for (modname, qual), ref in COMPARES.items():
        if modname not in repo.modules:
            continue
        fn = _find_fn(repo.modules[modname], qual)
        if fn is not None:
            k = _restore_compare_order(fn, ref)
            if k:
                done.append((modname, qual, "<==/!= operand order restored>", k))
    return done
