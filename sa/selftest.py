"""Thorough tier: checker self-validation on scratch copies (mutants must be reported, benign twins
must stay silent).  The catalogue lives in sa/mutants.py; a property without catalogue entries
only records that fact in the evidence."""
import importlib


def run_for(prop, chk):
    try:
        m = importlib.import_module("sa.mutants")
    except ModuleNotFoundError:
        chk.extra["selftest"] = "no mutant catalogue yet"
        return
    m.run_for(prop, chk)
