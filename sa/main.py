"""./check <ID|all> [--tier quick|thorough] [--repo PATH]

Exit codes: 0 property held on everything analysed (known findings printed),
1 unlisted violation (VIOLATION line), 2 ANALYSIS-ERROR (anchor vanished /
instance floor not met / internal error) -- never a silent pass.
"""
import argparse
import importlib
import os
import sys
import traceback

HERE = os.path.dirname(os.path.abspath(__file__))
sys.path.insert(0, os.path.dirname(HERE))

from sa.core import Repo, Check, AnalysisError, finish, run_rules  # noqa: E402

ALL = [f"C{i:02d}" for i in range(1, 21)]


def run_one(prop, tier, repo_root):
    try:
        mod = importlib.import_module(f"sa.rules.{prop.lower()}")
    except ModuleNotFoundError:
        print(f"ANALYSIS-ERROR property={prop}: no rule module")
        return 2
    try:
        repo = Repo(repo_root)
        chk = Check(prop, repo, tier)
        run_rules(mod, chk)
        if tier == "thorough" and hasattr(mod, "run_thorough"):
            mod.run_thorough(chk)
        if tier == "thorough":
            from sa import selftest
            selftest.run_for(prop, chk)
        if not chk.obs and not chk.analysis_errors:
            raise AnalysisError("no obligations produced")
        return finish(chk, level=getattr(mod, "LEVEL", "other"),
                      explanation=getattr(mod, "EXPLANATION", ""))
    except AnalysisError as e:
        print(f"ANALYSIS-ERROR property={prop}: {e}")
        return 2
    except Exception:
        traceback.print_exc()
        print(f"ANALYSIS-ERROR property={prop}: internal error (traceback above)")
        return 2


def main():
    ap = argparse.ArgumentParser()
    ap.add_argument("prop")
    ap.add_argument("--tier", default=os.environ.get("VERIF_TIER", "quick"), choices=["quick", "thorough"])
    ap.add_argument("--repo", default=os.environ.get("VERIF_REPO", "/repo"))
    a = ap.parse_args()
    props = ALL if a.prop == "all" else [a.prop]
    rc = 0
    for p in props:
        r = run_one(p, a.tier, a.repo)
        rc = max(rc, r)
    sys.exit(rc)


if __name__ == "__main__":
    main()
