"""Engine E8: printer-grammar extraction.  Path-sensitive abstract interpretation of the `encode`
methods of the query node classes of liquer/parser.py into guarded productions

    Class  ->  term            when  {guard: bool, ...}

where a term is a tuple of atoms
    ("lit", s)               literal text
    ("field", f)             raw text of field f
    ("rep", s, expr)         s * <int field>
    ("enctok", expr)         encode_token(<field>)
    ("enc", expr)            <sub-object>.encode()
    ("join", sep, field)     sep.join(x.encode() for x in <list field>)
    ("each", body, field)    concatenation over the list field of body (with ("elem",) = element.encode())
    ("elemraw",)             raw str(element) inside an `each` body (a printer bug candidate)
and guards are predicates over fields decided per instance shape.  Supported statement subset:
assign, augmented +=, if/else, for-over-field, return, assert (ignored), f-strings, sep.join(genexp),
"-" * self.level, inlined zero-argument self methods.  Anything else => AnalysisError (exit 2)."""
import ast
from .core import AnalysisError, U, is_noop_stmt


class Fork(Exception):
    def __init__(self, key):
        self.key = key


def lit(s):
    return (("lit", s),) if s else ()


def cat(a, b):
    r = list(a)
    for x in b:
        if r and r[-1][0] == "lit" and x[0] == "lit":
            r[-1] = ("lit", r[-1][1] + x[1])
        else:
            r.append(x)
    return tuple(r)


class PrinterExtractor:
    def __init__(self, repo, modname="liquer.parser"):
        self.repo = repo
        self.mod = repo.module(modname)
        self.modname = modname
        self._cache = {}

    def method(self, cname, mname):
        ci = self.repo.cls(self.modname, cname)
        dc, fn = ci.find_method(mname)
        if fn is None:
            raise AnalysisError(f"printer: {cname}.{mname} not found")
        return fn

    def productions(self, cname, mname="encode"):
        key = (cname, mname)
        if key in self._cache:
            return self._cache[key]
        fn = self.method(cname, mname)
        results = []
        work = [{}]
        guard = 0
        while work:
            guard += 1
            if guard > 4096:
                raise AnalysisError(f"printer: too many case splits in {cname}.{mname}")
            a = work.pop()
            try:
                t = self._run(cname, fn, a)
                results.append((a, t))
            except Fork as f:
                work.append({**a, f.key: True})
                work.append({**a, f.key: False})
        self._cache[key] = results
        return results

    def _run(self, cname, fn, assume):
        env = {}
        ex = self

        def ask(key):
            if key in assume:
                return assume[key]
            raise Fork(key)

        def unsupported(what, node):
            raise AnalysisError(f"printer: unsupported {what} `{U(node)[:70]}` in {cname}.{fn.name} "
                                f"(line {getattr(node, 'lineno', '?')})")

        def modconst(e):
            """a module-level string constant named by e, else None"""
            if isinstance(e, ast.Constant) and isinstance(e.value, str):
                return e.value
            if isinstance(e, ast.Name) and e.id not in env:
                vals = ex.mod.assigns.get(e.id, [])
                if len(vals) == 1 and isinstance(vals[0], ast.Constant) and isinstance(vals[0].value, str):
                    return vals[0].value
            return None

        def sval(e):
            if isinstance(e, ast.Constant) and isinstance(e.value, str):
                return lit(e.value)
            if isinstance(e, ast.Name):
                if e.id in env:
                    return env[e.id]
                cv = modconst(e)
                if cv is not None:
                    return lit(cv)
                unsupported("name", e)
            if isinstance(e, ast.Attribute) and isinstance(e.value, ast.Name) and e.value.id == "self":
                return (("field", e.attr),)
            if isinstance(e, ast.JoinedStr):
                t = ()
                for v in e.values:
                    if isinstance(v, ast.Constant):
                        t = cat(t, lit(v.value))
                    else:
                        t = cat(t, sval(v.value))
                return t
            if isinstance(e, ast.BinOp) and isinstance(e.op, ast.Add):
                return cat(sval(e.left), sval(e.right))
            if isinstance(e, ast.BinOp) and isinstance(e.op, ast.Mult) and isinstance(e.left, ast.Constant) \
                    and isinstance(e.left.value, str):
                return (("rep", e.left.value, U(e.right)),)
            if isinstance(e, ast.IfExp):
                return sval(e.body) if cond(e.test) else sval(e.orelse)
            if isinstance(e, ast.Call):
                f = e.func
                if isinstance(f, ast.Name) and f.id == "encode_token" and len(e.args) == 1:
                    return (("enctok", U(e.args[0])),)
                if isinstance(f, ast.Name) and f.id == "str" and len(e.args) == 1:
                    return (("str", U(e.args[0])),)
                if isinstance(f, ast.Name) and f.id in ex.mod.functions and not e.keywords:
                    # module-level helper with a single return expression: inline it with the arguments substituted
                    h = ex.mod.functions[f.id]
                    hb = [s for s in h.body if not is_noop_stmt(s)]
                    hp = [a.arg for a in h.args.args]
                    if len(hb) == 1 and isinstance(hb[0], ast.Return) and len(hp) == len(e.args):
                        import copy as _copy
                        sub = dict(zip(hp, e.args))

                        class _Sub(ast.NodeTransformer):
                            def visit_Name(self, node):
                                return _copy.deepcopy(sub[node.id]) if node.id in sub else node
                        body = _Sub().visit(_copy.deepcopy(hb[0].value))
                        # module constants used as separators
                        class _Const(ast.NodeTransformer):
                            def visit_Name(self, node):
                                vals = ex.mod.assigns.get(node.id, [])
                                if len(vals) == 1 and isinstance(vals[0], ast.Constant) and isinstance(vals[0].value, str):
                                    return ast.Constant(vals[0].value)
                                return node
                        body = _Const().visit(body)
                        return sval(ast.fix_missing_locations(body))
                if isinstance(f, ast.Attribute):
                    if f.attr == "encode" and not e.args:
                        return (("enc", U(f.value)),)
                    if f.attr == "join" and modconst(f.value) is not None and len(e.args) == 1 and \
                            (isinstance(e.args[0], (ast.Tuple, ast.List)) or (isinstance(e.args[0], ast.Name) and isinstance(env.get(e.args[0].id), list))):
                        sep = modconst(f.value)
                        a0 = e.args[0]
                        items = [("t", sval(x)) for x in a0.elts] if isinstance(a0, (ast.Tuple, ast.List)) else list(env[a0.id])
                        if any(isinstance(x, ast.Starred) for x in getattr(a0, "elts", [])):
                            unsupported("starred join", e)
                        out = ()
                        for k_, it in enumerate(items):
                            if it[0] == "t":
                                out = cat(out, it[1]) if k_ == 0 else cat(cat(out, lit(sep)), it[1])
                            else:       # ("each", body, fld): one element per member of the list field
                                _, body_, fld_ = it
                                if k_ == 0:
                                    if len(items) != 1:
                                        unsupported("join over a list that starts with a loop", e)
                                    out = (("joinx", sep, body_, fld_),)
                                else:
                                    out = cat(out, (("each", cat(lit(sep), body_), fld_),))
                        return out
                    if f.attr == "join" and modconst(f.value) is not None and len(e.args) == 1:
                        sep = modconst(f.value)
                        g = e.args[0]
                        if isinstance(g, (ast.GeneratorExp, ast.ListComp)) and len(g.generators) == 1 \
                                and isinstance(g.generators[0].target, ast.Name) and not g.generators[0].ifs:
                            var = g.generators[0].target.id
                            fld = U(g.generators[0].iter)
                            if not ask(("nonempty", fld)):
                                return ()
                            if U(g.elt) == f"{var}.encode()":
                                return (("join", sep, fld),)
                            body = elem_term(g.elt, var)
                            return (("joinx", sep, body, fld),)
                    if isinstance(f.value, ast.Name) and f.value.id == "self" and not e.args:
                        alts = ex.productions(cname, f.attr)
                        for a_, _ in alts:
                            for k in a_:
                                if k not in assume:
                                    raise Fork(k)
                        ok = [t for a_, t in alts if all(assume.get(k) == v for k, v in a_.items())]
                        if len(ok) != 1:
                            unsupported("helper call (ambiguous)", e)
                        return ok[0]
            unsupported("string expression", e)

        def elem_term(e, var):
            """term of an expression over the loop variable"""
            if isinstance(e, ast.Call) and U(e) == f"{var}.encode()":
                return (("elem",),)
            if isinstance(e, ast.Name) and e.id == var:
                return (("elemraw",),)
            if isinstance(e, ast.Call) and isinstance(e.func, ast.Name) and e.func.id == "str" and len(e.args) == 1 \
                    and isinstance(e.args[0], ast.Name) and e.args[0].id == var:
                return (("elemraw",),)
            if isinstance(e, ast.Constant) and isinstance(e.value, str):
                return lit(e.value)
            if isinstance(e, ast.JoinedStr):
                t = ()
                for v in e.values:
                    if isinstance(v, ast.Constant):
                        t = cat(t, lit(v.value))
                    else:
                        t = cat(t, elem_term(v.value, var))
                return t
            if isinstance(e, ast.BinOp) and isinstance(e.op, ast.Add):
                return cat(elem_term(e.left, var), elem_term(e.right, var))
            return sval(e)

        def nonempty_term(t):
            if any(a[0] == "lit" for a in t):
                return True
            if not t:
                return False
            return ask(("strnonempty", t))

        def cond(e):
            if isinstance(e, ast.UnaryOp) and isinstance(e.op, ast.Not):
                return not cond(e.operand)
            if isinstance(e, ast.BoolOp):
                if isinstance(e.op, ast.And):
                    for v in e.values:
                        if not cond(v):
                            return False
                    return True
                for v in e.values:
                    if cond(v):
                        return True
                return False
            if isinstance(e, ast.Call) and isinstance(e.func, ast.Name) and e.func.id == "len" and len(e.args) == 1:
                a = e.args[0]
                if isinstance(a, ast.Attribute):
                    return ask(("nonempty", U(a)))
                return nonempty_term(sval(a))
            if isinstance(e, ast.Compare) and len(e.ops) == 1:
                l, op, r = e.left, e.ops[0], e.comparators[0]
                if isinstance(r, ast.Constant) and r.value is None and isinstance(l, ast.Attribute):
                    v = ask(("notnone", U(l)))
                    if isinstance(op, (ast.Is, ast.Eq)):
                        return not v
                    if isinstance(op, (ast.IsNot, ast.NotEq)):
                        return v
                if isinstance(l, ast.Call) and isinstance(l.func, ast.Name) and l.func.id == "len" and isinstance(r, ast.Constant) \
                        and r.value == 0:
                    inner = cond(l)
                    if isinstance(op, (ast.Gt, ast.NotEq)):
                        return inner
                    if isinstance(op, ast.Eq):
                        return not inner
            if isinstance(e, ast.Attribute) and isinstance(e.value, ast.Name) and e.value.id == "self":
                return ask(("true", U(e)))
            if isinstance(e, ast.Name) and e.id in env:
                return nonempty_term(env[e.id])
            if isinstance(e, ast.Call) and isinstance(e.func, ast.Attribute):
                f = e.func
                if f.attr == "startswith" and len(e.args) == 1 and isinstance(e.args[0], ast.Constant):
                    t = sval(f.value)
                    if t and t[0][0] == "lit":
                        return t[0][1].startswith(e.args[0].value)
                    return ask(("startswith", t, e.args[0].value))
                if isinstance(f.value, ast.Name) and f.value.id == "self" and not e.args:
                    return ask(("pred", f.attr))
            unsupported("condition", e)

        def block(stmts):
            for s in stmts:
                if is_noop_stmt(s) or isinstance(s, ast.Assert):
                    continue
                if isinstance(s, ast.Assign) and len(s.targets) == 1 and isinstance(s.targets[0], ast.Name) and isinstance(s.value, (ast.List, ast.Tuple)) \
                        and not any(isinstance(x, ast.Starred) for x in s.value.elts):
                    env[s.targets[0].id] = [("t", sval(x)) for x in s.value.elts]      # a list of text parts (joined later)
                    continue
                if isinstance(s, ast.Expr) and isinstance(s.value, ast.Call) and isinstance(s.value.func, ast.Attribute) and s.value.func.attr == "append" \
                        and isinstance(s.value.func.value, ast.Name) and isinstance(env.get(s.value.func.value.id), list) and len(s.value.args) == 1:
                    env[s.value.func.value.id] = env[s.value.func.value.id] + [("t", sval(s.value.args[0]))]
                    continue
                if isinstance(s, ast.Assign) and len(s.targets) == 1 and isinstance(s.targets[0], ast.Name):
                    env[s.targets[0].id] = sval(s.value)
                    continue
                if isinstance(s, ast.AugAssign) and isinstance(s.op, ast.Add) and isinstance(s.target, ast.Name):
                    env[s.target.id] = cat(env.get(s.target.id, ()), sval(s.value))
                    continue
                if isinstance(s, ast.If):
                    r = block(s.body) if cond(s.test) else block(s.orelse)
                    if r is not None:
                        return r
                    continue
                if isinstance(s, ast.For) and isinstance(s.iter, ast.Attribute) and isinstance(s.target, ast.Name):
                    fld = U(s.iter)
                    def _is_part_append(x):
                        return isinstance(x, ast.Expr) and isinstance(x.value, ast.Call) and isinstance(x.value.func, ast.Attribute) and x.value.func.attr == "append" \
                            and isinstance(x.value.func.value, ast.Name) and isinstance(env.get(x.value.func.value.id), list) and len(x.value.args) == 1
                    if s.body and all(_is_part_append(x) for x in s.body) and len({x.value.func.value.id for x in s.body}) == 1 and len(s.body) == 1:
                        if ask(("nonempty", fld)):
                            ln = s.body[0].value.func.value.id
                            env[ln] = env[ln] + [("each", elem_term(s.body[0].value.args[0], s.target.id), fld)]
                        continue
                    if ask(("nonempty", fld)):
                        var = s.target.id
                        accs = {x.target.id for x in s.body if isinstance(x, ast.AugAssign) and isinstance(x.target, ast.Name)}
                        if len(accs) != 1 or not all(isinstance(x, ast.AugAssign) for x in s.body):
                            unsupported("loop body", s)
                        acc = accs.pop()
                        body = ()
                        for x in s.body:
                            body = cat(body, elem_term(x.value, var))
                        env[acc] = cat(env.get(acc, ()), (("each", body, fld),))
                    continue
                if isinstance(s, ast.Return):
                    return sval(s.value) if s.value is not None else ()
                unsupported("statement", s)
            return None

        r = block(fn.body)
        if r is None:
            unsupported("fall-off-end in", fn)
        return r
