"""Shared rule primitives built on the CFG: dominating literals, literal
normalisation, reaching definitions with kills, forwarding checks, effect scans."""
import ast
from .core import (AnalysisError, U, walk_no_nested, body_walk, calls_in, call_tail, call_recv,
                   call_name, flatten_boolop, strip_not, dotted, kwarg, arg_or_kw)
from .cfg import CFG, assigned_value


# --------------------------------------------------------------------------- literals
def norm_literal(expr, polarity=True):
    """Normalise a boolean expression to (text, polarity):
    `not x` -> (x, False); `a != b` -> (a == b, False); `a is not b` -> (a is b, False);
    `a not in b` -> (a in b, False)."""
    neg, inner = strip_not(expr)
    if neg:
        polarity = not polarity
    if isinstance(inner, ast.Compare) and len(inner.ops) == 1:
        op = inner.ops[0]
        flip = {ast.NotEq: ast.Eq, ast.IsNot: ast.Is, ast.NotIn: ast.In}
        for k, v in flip.items():
            if isinstance(op, k):
                inner2 = ast.Compare(left=inner.left, ops=[v()], comparators=inner.comparators)
                return U(inner2), (not polarity)
    return U(inner), polarity


def literals_of_test(test, label):
    """Literals known to hold after taking edge `label` ('T'/'F') out of `test`.
    T: every conjunct of an `and`; F: the negation of every disjunct of an `or`."""
    out = []

    def facts(e, truth):
        neg, inner = strip_not(e)
        if neg:
            truth = not truth
        if isinstance(inner, ast.BoolOp) and ((isinstance(inner.op, ast.And) and truth) or (isinstance(inner.op, ast.Or) and not truth)):
            for v in inner.values:       # De Morgan: not (a or b) gives not a, not b; (a and b) gives a, b
                facts(v, truth)
        else:
            out.append((inner,) + norm_literal(inner, truth))

    if label in ("T", "F"):
        facts(test, label == "T")
    return out


def _literal_bases(expr):
    """names / attribute texts whose redefinition invalidates a literal: `state.is_error` -> {'state', 'state.is_error'}"""
    out = set()
    for n in ast.walk(expr):
        if isinstance(n, ast.Name):
            out.add(n.id)
        elif isinstance(n, ast.Attribute):
            out.add(U(n))
    out.discard("self")
    out.discard("len")
    out.discard("isinstance")
    out.discard("type")
    return out


def dominating_literals(cfg, nid):
    """[(expr_ast, text, polarity, test_node_id)] for every If/While test edge that every path entry -> nid must
    take, *and whose operands are not redefined between the test and nid* (a literal about `state` established
    before `state = f(...)` says nothing about the new value)."""
    out = []
    if not cfg.is_reachable(nid):
        return out
    cache = getattr(cfg, "_def_cache", None)
    if cache is None:
        cache = cfg._def_cache = {}
    for n in cfg.nodes:
        if n.kind != "test" or n.id == nid:
            continue
        for label in ("T", "F"):
            if not any(lab == label for _, lab in cfg.succ[n.id]):
                continue
            if cfg.edge_dominates(n.id, label, nid):
                after = None
                for e, txt, pol in literals_of_test(n.ast, label):
                    stale = False
                    for b in _literal_bases(e):
                        if b not in cache:
                            cache[b] = cfg.defs_of(b)
                        for d in cache[b]:
                            if d == nid:
                                continue
                            if d == n.id:
                                continue
                            if after is None:
                                after = cfg.succ_reach(n.id, avoid=[n.id], avoid_edges=[(n.id, "F" if label == "T" else "T")])
                            if d in after and nid in cfg.succ_reach(d, avoid=[n.id]):
                                stale = True
                                break
                        if stale:
                            break
                    if not stale:
                        out.append((e, txt, pol, n.id))
    return out


def has_literal(lits, pred, polarity):
    """any dominating literal with given polarity whose text satisfies pred"""
    return any(pol == polarity and pred(txt) for _, txt, pol, _ in lits)


def disjunct_literals(test):
    """normalised literals of the disjuncts of a test (for 'T edge of an or-test' reasoning)"""
    return [norm_literal(d, True) for d in flatten_boolop(test, ast.Or)]


# --------------------------------------------------------------------------- def-use
def reaching_defs_attr(cfg, base, attr_text, at):
    """Definitions reaching `at` for the attribute expression `attr_text` (e.g. 'state.query'),
    where any rebinding of `base` kills it. Returns (attr_def_nodes, base_def_nodes, from_entry)."""
    adefs = set(cfg.defs_of(attr_text))
    bdefs = set(cfg.defs_of(base))
    alld = adefs | bdefs
    ra, rb = [], []
    for d in sorted(alld):
        others = [x for x in alld if x != d and x != at]
        if at in cfg.succ_reach(d, avoid=others):
            (ra if d in adefs else rb).append(d)
    from_entry = at in cfg.reachable(cfg.entry, avoid=[x for x in alld if x != at])
    return ra, rb, from_entry


def single_def_value(cfg, var, at):
    """If exactly one definition of local `var` reaches `at` and it is a plain assignment,
    return its value expression; else None."""
    ds = cfg.reaching_defs(var, at)
    if len(ds) != 1 or ds[0] == cfg.entry:
        return None
    return assigned_value(cfg, ds[0], var)


def resolve_local(cfg, expr, at, depth=3):
    """Follow `x` -> its single reaching assignment value (up to depth)."""
    while depth > 0 and isinstance(expr, ast.Name):
        v = single_def_value(cfg, expr.id, at)
        if v is None:
            break
        expr = v
        depth -= 1
    return expr


# --------------------------------------------------------------------------- effects
FS_WRITE_TAILS = {"write_bytes", "write_text", "unlink", "rmdir", "mkdir", "makedirs", "remove",
                  "rename", "replace", "rmtree", "touch", "truncate", "removedirs", "symlink_to", "chmod"}


def open_mode(call):
    """mode string of an open()/Path.open() call if constant, 'r' if absent, None if dynamic."""
    m = None
    if call_tail(call) == "open":
        if isinstance(call.func, ast.Name):
            m = arg_or_kw(call, 1, "mode")
        else:
            m = arg_or_kw(call, 0, "mode")
        if m is None:
            return "r"
        if isinstance(m, ast.Constant) and isinstance(m.value, str):
            return m.value
        return None
    return "r"


def is_write_open(call):
    if call_tail(call) != "open":
        return False
    m = open_mode(call)
    return m is None or any(c in m for c in "wax+")


def fs_write_calls(node):
    """Calls with a direct file-system write effect inside node (function or stmt)."""
    out = []
    for c in calls_in(node):
        t = call_tail(c)
        if t == "open" and is_write_open(c):
            out.append(c)
        elif t in FS_WRITE_TAILS and isinstance(c.func, ast.Attribute):
            r = U(c.func.value)
            # list.remove / set.remove / dict on plain names are not FS effects: decided by caller
            out.append(c)
        elif t in ("remove", "makedirs", "mkdir", "rmdir", "unlink", "rename", "replace") and isinstance(c.func, ast.Name):
            out.append(c)
        elif call_name(c) in ("json.dump", "pickle.dump"):
            out.append(c)
    return out


def self_field_writes(fn):
    """Statements in fn that mutate state reachable from self: assignment / augmented assignment /
    delete with a target rooted at `self`, and mutator method calls on self.<field>."""
    MUT = {"add", "append", "extend", "insert", "remove", "pop", "clear", "update", "discard", "setdefault",
           "popitem", "sort", "reverse"}
    out = []
    for n in body_walk(fn):
        tg = []
        if isinstance(n, ast.Assign):
            tg = n.targets
        elif isinstance(n, (ast.AugAssign, ast.AnnAssign)):
            tg = [n.target]
        elif isinstance(n, ast.Delete):
            tg = n.targets
        for t in tg:
            for e in _flat(t):
                root = e
                while isinstance(root, (ast.Attribute, ast.Subscript)):
                    root = root.value
                if isinstance(root, ast.Name) and root.id == "self" and not isinstance(e, ast.Name):
                    out.append(n)
        if isinstance(n, ast.Call) and isinstance(n.func, ast.Attribute) and n.func.attr in MUT:
            root = n.func.value
            depth = 0
            while isinstance(root, (ast.Attribute, ast.Subscript)):
                root = root.value
                depth += 1
            if isinstance(root, ast.Name) and root.id == "self" and depth >= 1:
                out.append(n)
    return out


def _flat(t):
    if isinstance(t, (ast.Tuple, ast.List)):
        for e in t.elts:
            yield from _flat(e)
    else:
        yield t


# --------------------------------------------------------------------------- function shape helpers
def params(fn):
    a = fn.args
    return [x.arg for x in a.posonlyargs + a.args]


def returns_of(fn):
    return [n for n in body_walk(fn) if isinstance(n, ast.Return)]


def is_none_const(e):
    return e is None or (isinstance(e, ast.Constant) and e.value is None)


def only_raises(fn):
    """Body (ignoring docstring) consists of a single raise."""
    body = [s for s in fn.body if not (isinstance(s, ast.Expr) and isinstance(s.value, ast.Constant))]
    return len(body) == 1 and isinstance(body[0], ast.Raise)


def all_paths_raise(fn, exc_name=None):
    """Every path from entry ends in an (uncaught) raise, optionally of the named exception."""
    cfg = CFG(fn)
    if cfg.exit in cfg.reachable(cfg.entry):
        return False
    if exc_name is not None:
        for r in cfg.raises():
            if not cfg.is_reachable(r):
                continue
            exc = cfg.nodes[r].ast.exc
            name = call_name(exc) if isinstance(exc, ast.Call) else dotted(exc) if exc is not None else None
            if name is None or name.split(".")[-1] != exc_name:
                return False
    return bool([r for r in cfg.raises() if cfg.is_reachable(r)])


def find_forward_call(fn, recv_pred, method):
    """Calls `<recv>.<method>(...)` in fn where recv_pred(receiver text) holds."""
    return [c for c in calls_in(fn, tail=method) if call_recv(c) is not None and recv_pred(call_recv(c))]


# --------------------------------------------------------------------------- AST patterns with metavariables
import re as _re

_META = _re.compile(r"^_[A-Z][A-Za-z0-9]*$")
_PCACHE = {}


def _parse_pattern(src):
    if src not in _PCACHE:
        tree = ast.parse(src)
        if len(tree.body) != 1:
            raise AnalysisError(f"pattern must be one statement/expression: {src}")
        st = tree.body[0]
        _PCACHE[src] = st.value if isinstance(st, ast.Expr) else st
    return _PCACHE[src]


def pmatch(pat, node, env=None):
    """Structural match of pattern AST `pat` against `node`. Names `_X`, `_Key` ... in the pattern are metavariables
    that match any expression (the same one at every occurrence). Returns the binding dict or None."""
    env = {} if env is None else env
    if isinstance(pat, ast.Name) and _META.match(pat.id):
        if not isinstance(node, ast.AST) or isinstance(node, (ast.stmt,)):
            return None
        t = U(node)
        if pat.id in env:
            return env if env[pat.id] == t else None
        env[pat.id] = t
        return env
    if type(pat) is not type(node):
        return None
    if isinstance(pat, ast.Constant):
        return env if (type(pat.value) is type(node.value) and pat.value == node.value) else None
    for f in pat._fields:
        if f in ("ctx", "type_comment", "lineno", "col_offset", "end_lineno", "end_col_offset", "kind"):
            continue
        pv, nv = getattr(pat, f, None), getattr(node, f, None)
        if isinstance(pv, list):
            if not isinstance(nv, list) or len(pv) != len(nv):
                return None
            if f == "keywords":
                nk = {k.arg: k for k in nv}
                for k in pv:
                    if k.arg not in nk or pmatch(k.value, nk[k.arg].value, env) is None:
                        return None
                continue
            for a, b in zip(pv, nv):
                if isinstance(a, ast.AST):
                    if pmatch(a, b, env) is None:
                        return None
                elif a != b:
                    return None
        elif isinstance(pv, ast.AST):
            if not isinstance(nv, ast.AST) or pmatch(pv, nv, env) is None:
                return None
        else:
            if pv != nv:
                return None
    return env


def find_pattern(root, src, stmts_only=None):
    """All (node, bindings) inside `root` (function def: its body, nested defs excluded) matching pattern `src`."""
    pat = _parse_pattern(src)
    want_stmt = isinstance(pat, ast.stmt)
    out = []
    it = body_walk(root) if isinstance(root, (ast.FunctionDef, ast.AsyncFunctionDef)) else walk_no_nested(root, include_lambda=True)
    for n in it:
        if want_stmt != isinstance(n, ast.stmt):
            continue
        b = pmatch(pat, n, {})
        if b is not None:
            out.append((n, b))
    return out


def has_pattern(root, src):
    return bool(find_pattern(root, src))


# ---------------------------------------------------------------------------------------------------------------- NNF
def nnf(expr, truth=True, leaf=None):
    """Negation normal form of a boolean expression as a tree: ("and", [t...]) | ("or", [t...]) | ("lit", text, polarity).
    `not` is pushed through and/or (De Morgan); leaves are normalised by `leaf` (default norm_literal)."""
    leaf = leaf or norm_literal
    neg, inner = strip_not(expr)
    if neg:
        truth = not truth
    if isinstance(inner, ast.BoolOp):
        is_and = isinstance(inner.op, ast.And)
        kind = "and" if (is_and == truth) else "or"
        kids = []
        for v in inner.values:
            k = nnf(v, truth, leaf)
            if k[0] == kind:
                kids.extend(k[1])
            else:
                kids.append(k)
        return (kind, kids)
    t, p = leaf(inner, truth)
    return ("lit", t, p)


def nnf_mentions(t, name):
    if t[0] == "lit":
        import re as _re
        return bool(_re.search(r"\b" + _re.escape(name) + r"\b", t[1]))
    return any(nnf_mentions(k, name) for k in t[1])


def nnf_lits(t):
    """set of (text, polarity) of a flat and/or of literals, or of a single literal; None when nested deeper"""
    if t[0] == "lit":
        return {(t[1], t[2])}
    out = set()
    for k in t[1]:
        if k[0] != "lit":
            return None
        out.add((k[1], k[2]))
    return out


def is_slash_terminated(e):
    """expression that certainly ends with '/': `x + '/'`, or `x if x.endswith('/') else x + '/'` (either orientation)"""
    def plus_slash(b):
        return isinstance(b, ast.BinOp) and isinstance(b.op, ast.Add) and isinstance(b.right, ast.Constant) and b.right.value == "/"
    if plus_slash(e):
        return True
    if isinstance(e, ast.IfExp):
        neg, t = strip_not(e.test)
        a, b = (e.orelse, e.body) if neg else (e.body, e.orelse)
        if isinstance(t, ast.Call) and isinstance(t.func, ast.Attribute) and t.func.attr == "endswith" and len(t.args) == 1 \
                and isinstance(t.args[0], ast.Constant) and t.args[0].value == "/" and U(t.func.value) == U(a) and plus_slash(b) and U(b.left) == U(a):
            return True
    return False


def conditional_values(cfg, expr, at_node, depth=2):
    """The alternatives an expression can denote at a node, each with the literals known where it is chosen:
    a conditional expression splits on its test; a local is replaced by its reaching definitions (with the literals
    dominating each definition). -> [(value_ast, {(text, polarity), ...}), ...]; an undefined/parameter name stays itself."""
    out = []
    if isinstance(expr, ast.IfExp):
        for val, truth in ((expr.body, True), (expr.orelse, False)):
            facts = {(t, p) for _, t, p in [(x[0], x[1], x[2]) for x in literals_of_test(expr.test, "T" if truth else "F")]}
            for v, f in conditional_values(cfg, val, at_node, depth):
                out.append((v, f | facts))
        return out
    if isinstance(expr, ast.Name) and depth > 0:
        ds = [d for d in cfg.reaching_defs(expr.id, at_node) if d != cfg.entry]
        if ds and cfg.entry not in cfg.reaching_defs(expr.id, at_node):
            from .cfg import assigned_value
            for d in ds:
                v = assigned_value(cfg, d, expr.id)
                if v is None:
                    return [(expr, set())]
                facts = {(t, p) for _, t, p, _ in dominating_literals(cfg, d)}
                for vv, f in conditional_values(cfg, v, d, depth - 1):
                    out.append((vv, f | facts))
            return out
    return [(expr, set())]
