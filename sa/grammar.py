"""Engine E7: extract the pyparsing grammar of a module into an IR and recognise strings under a
*relaxed* CFG semantics (ordered choice -> union, greedy repetition -> any split, look-ahead -> epsilon).
The relaxed language is a superset of what the real (PEG-style) parser accepts, so "not in the relaxed
language" implies "rejected by the real parser".  No repository code is imported."""
import ast
import functools
import re
import sys
from .core import AnalysisError, U

CTORS = {"Literal", "Regex", "Word", "ZeroOrMore", "OneOrMore", "Optional", "Group", "Combine", "FollowedBy",
         "delimitedList", "DelimitedList", "Forward", "Suppress", "NotAny"}
ANNOT = ("setParseAction", "setName", "suppress", "setResultsName", "set_parse_action", "set_name", "addParseAction",
         "leaveWhitespace", "leave_whitespace")


class N:
    def __init__(self, kind, *kids, **kw):
        self.kind, self.kids, self.kw = kind, list(kids), kw

    def __repr__(self):
        return f"{self.kind}({', '.join(map(repr, self.kids))}{', ' if self.kw and self.kids else ''}{self.kw if self.kw else ''})"


class Grammar:
    def __init__(self, module):
        self.module = module
        tree = module.tree
        self.rules_ast = {}
        self.consts = {}
        cands = {}
        # module-level factories (`def _entity(text, replacement, name): return Literal(text).setParseAction(...)`) are expanded
        # at their call sites, arguments substituted (also inside the lambda of the parse action)
        import copy as _copy
        factories = {}
        for st in tree.body:
            if isinstance(st, ast.FunctionDef) and not st.args.vararg and not st.args.kwarg:
                body = [x for x in st.body if not (isinstance(x, ast.Expr) and isinstance(x.value, ast.Constant))]
                if len(body) == 1 and isinstance(body[0], ast.Return) and body[0].value is not None:
                    factories[st.name] = (st, body[0].value)

        def expand(v, depth=0):
            if depth > 4:
                return v

            class X(ast.NodeTransformer):
                def visit_Call(self, node):
                    self.generic_visit(node)
                    if isinstance(node.func, ast.Name) and node.func.id in factories and not any(isinstance(a, ast.Starred) for a in node.args):
                        fn_, ret = factories[node.func.id]
                        ps = [a.arg for a in fn_.args.args]
                        bound = dict(zip(ps, node.args))
                        for k in node.keywords:
                            if k.arg in ps:
                                bound[k.arg] = k.value
                        ds = fn_.args.defaults
                        for p_, d_ in zip(ps[len(ps) - len(ds):], ds):
                            bound.setdefault(p_, d_)
                        if set(ps) <= set(bound):
                            class S(ast.NodeTransformer):
                                def visit_Name(self, n):
                                    return _copy.deepcopy(bound[n.id]) if n.id in bound and isinstance(n.ctx, ast.Load) else n
                            return expand(ast.copy_location(S().visit(_copy.deepcopy(ret)), node), depth + 1)
                    return node
            return X().visit(v)

        for st in tree.body:
            if isinstance(st, ast.Assign) and len(st.targets) == 1 and isinstance(st.targets[0], ast.Name):
                if factories and any(isinstance(c, ast.Call) and isinstance(c.func, ast.Name) and c.func.id in factories for c in ast.walk(st.value)):
                    st.value = ast.fix_missing_locations(expand(st.value))
                cands[st.targets[0].id] = st.value
                folded = self._fold_str(st.value)
                if folded is not None:
                    self.consts[st.targets[0].id] = folded
            elif isinstance(st, ast.Expr) and isinstance(st.value, ast.BinOp) and isinstance(st.value.op, ast.LShift) \
                    and isinstance(st.value.left, ast.Name):
                cands[st.value.left.id + "<<"] = st.value.right
        rules = self.rules_ast
        changed = True
        while changed:
            changed = False
            for k, v in cands.items():
                name = k.rstrip("<")
                if k.endswith("<<"):
                    if name in rules and rules[name] is not v and self._grammarish(v, rules):
                        rules[name] = v
                        changed = True
                elif k not in rules and self._grammarish(v, rules):
                    rules[k] = v
                    changed = True
        self.IR = {}
        for name, e in rules.items():
            self.IR[name] = self.conv(e)
        self.order = list(rules)

    def _grammarish(self, e, known):
        if isinstance(e, ast.Name):
            return e.id in known
        if isinstance(e, ast.BinOp) and isinstance(e.op, (ast.Add, ast.BitOr)):
            l = self._grammarish(e.left, known) or (isinstance(e.left, ast.Constant) and isinstance(e.left.value, str))
            r = self._grammarish(e.right, known) or (isinstance(e.right, ast.Constant) and isinstance(e.right.value, str))
            return l and r and (self._grammarish(e.left, known) or self._grammarish(e.right, known))
        if isinstance(e, ast.UnaryOp) and isinstance(e.op, ast.Invert):
            return self._grammarish(e.operand, known)
        if isinstance(e, ast.Call):
            if isinstance(e.func, ast.Name):
                return e.func.id in CTORS
            if isinstance(e.func, ast.Attribute) and e.func.attr in ANNOT:
                return self._grammarish(e.func.value, known)
        return False

    def _fold_str(self, a):
        """a string built from literals, earlier string constants, `+` and f-strings of those; else None"""
        if isinstance(a, ast.Constant) and isinstance(a.value, str):
            return a.value
        if isinstance(a, ast.Name) and a.id in self.consts:
            return self.consts[a.id]
        if isinstance(a, ast.BinOp) and isinstance(a.op, ast.Add):
            l, r = self._fold_str(a.left), self._fold_str(a.right)
            return l + r if l is not None and r is not None else None
        if isinstance(a, ast.JoinedStr):
            parts = []
            for v in a.values:
                x = self._fold_str(v.value if isinstance(v, ast.FormattedValue) else v)
                if x is None or (isinstance(v, ast.FormattedValue) and (v.conversion != -1 or v.format_spec is not None)):
                    return None
                parts.append(x)
            return "".join(parts)
        return None

    def _s(self, a):
        if isinstance(a, ast.Constant) and isinstance(a.value, str):
            return a.value
        folded = self._fold_str(a)
        if folded is not None:
            return folded
        if isinstance(a, ast.Name) and a.id in self.consts:
            return self.consts[a.id]
        if isinstance(a, ast.Name) and a.id in ("alphas", "nums", "alphanums"):
            import string
            return {"alphas": string.ascii_letters, "nums": string.digits,
                    "alphanums": string.ascii_letters + string.digits}[a.id]
        raise AnalysisError(f"grammar: non-constant string argument `{U(a)}` at line {getattr(a, 'lineno', '?')}")

    def conv(self, e):
        if isinstance(e, ast.Constant) and isinstance(e.value, str):
            return N("lit", s=e.value)
        if isinstance(e, ast.Name):
            if e.id not in self.rules_ast:
                raise AnalysisError(f"grammar: unknown name {e.id} line {e.lineno}")
            return N("ref", name=e.id)
        if isinstance(e, ast.BinOp):
            if isinstance(e.op, ast.Add):
                return N("seq", self.conv(e.left), self.conv(e.right))
            if isinstance(e.op, ast.BitOr):
                return N("alt", self.conv(e.left), self.conv(e.right))
        if isinstance(e, ast.UnaryOp) and isinstance(e.op, ast.Invert):
            return N("not", self.conv(e.operand))
        if isinstance(e, ast.Call):
            f = e.func
            if isinstance(f, ast.Name):
                a = e.args
                if f.id == "Literal":
                    return N("lit", s=self._s(a[0]))
                if f.id == "Regex":
                    return N("re", s=self._s(a[0]))
                if f.id == "Word":
                    return N("re", s="[" + re.escape(self._s(a[0])) + "]+", word=self._s(a[0]))
                if f.id == "ZeroOrMore":
                    return N("star", self.conv(a[0]))
                if f.id == "OneOrMore":
                    return N("plus", self.conv(a[0]))
                if f.id == "Optional":
                    return N("opt", self.conv(a[0]))
                if f.id in ("Group", "Combine", "Suppress"):
                    return self.conv(a[0])
                if f.id == "FollowedBy":
                    return N("look", self.conv(a[0]))
                if f.id == "NotAny":
                    return N("not", self.conv(a[0]))
                if f.id == "Forward":
                    return N("forward")
                if f.id in ("delimitedList", "DelimitedList"):
                    d = a[1] if len(a) > 1 else None
                    for k in e.keywords:
                        if k.arg == "delim":
                            d = k.value
                    dn = N("lit", s=self._s(d) if d is not None else ",")
                    x = self.conv(a[0])
                    return N("seq", x, N("star", N("seq", dn, x)), delimited=True)
            if isinstance(f, ast.Attribute) and f.attr in ANNOT:
                inner = self.conv(f.value)
                if f.attr in ("setParseAction", "set_parse_action", "addParseAction") and e.args:
                    inner.kw.setdefault("actions", []).append(e.args[0])
                if f.attr in ("setName", "set_name") and e.args:
                    inner.kw["label"] = self._s(e.args[0])
                if f.attr == "suppress":
                    inner.kw["suppressed"] = True
                return inner
        raise AnalysisError(f"grammar: unsupported construct `{U(e)[:80]}` at line {getattr(e, 'lineno', '?')}")

    # ---- structure queries
    def alternatives(self, node):
        """flatten nested alt into ordered list"""
        if node.kind == "alt":
            return self.alternatives(node.kids[0]) + self.alternatives(node.kids[1])
        return [node]

    def sequence(self, node):
        if node.kind == "seq" and not node.kw.get("delimited"):
            return self.sequence(node.kids[0]) + self.sequence(node.kids[1])
        return [node]

    def refs_in(self, node, seen=None):
        out = set()
        stack = [node]
        while stack:
            n = stack.pop()
            if n.kind == "ref":
                out.add(n.kw["name"])
            stack.extend(n.kids)
        return out

    def reachable_rules(self, start):
        seen = set()
        stack = [start]
        while stack:
            r = stack.pop()
            if r in seen or r not in self.IR:
                continue
            seen.add(r)
            stack.extend(self.refs_in(self.IR[r]))
        return seen

    # ---- relaxed recogniser
    def recogniser(self, text):
        sys.setrecursionlimit(20000)
        IR = self.IR
        active = set()

        @functools.lru_cache(maxsize=None)
        def ends_rule(name, i):
            return frozenset(ends(IR[name], i))

        @functools.lru_cache(maxsize=None)
        def re_ends(pat, i):
            p = re.compile(pat)
            return frozenset(j for j in range(i, len(text) + 1) if p.fullmatch(text, i, j))

        def ends(n, i):
            k = n.kind
            if k == "ref":
                return ends_rule(n.kw["name"], i)
            if k == "lit":
                s = n.kw["s"]
                return {i + len(s)} if text.startswith(s, i) else set()
            if k == "re":
                return re_ends(n.kw["s"], i)
            if k == "seq":
                out = set()
                for m in ends(n.kids[0], i):
                    out |= ends(n.kids[1], m)
                return out
            if k == "alt":
                return set(ends(n.kids[0], i)) | set(ends(n.kids[1], i))
            if k in ("not", "look"):
                return {i}
            if k == "opt":
                return {i} | set(ends(n.kids[0], i))
            if k in ("star", "plus"):
                seen = set()
                frontier = {i}
                out = {i} if k == "star" else set()
                while frontier:
                    nxt = set()
                    for p in frontier:
                        for m in ends(n.kids[0], p):
                            if m not in seen and m != p:
                                seen.add(m)
                                nxt.add(m)
                    out |= nxt
                    frontier = nxt
                return out
            if k == "forward":
                return set()
            raise AnalysisError("grammar: bad IR node " + k)

        return lambda start: len(text) in ends_rule(start, 0)

    # ---- exact recogniser (pyparsing semantics: ordered choice takes the first alternative that matches and never revisits it,
    #      repetition is greedy and is not backed into, look-aheads consume nothing, Regex/Literal match at the position)
    def exact_end(self, start, text, i=0):
        """end offset of the match of rule `start` at offset i under pyparsing's deterministic semantics, or None.
        Whitespace skipping is not modelled (the texts analysed contain none); parse actions are assumed not to veto a match."""
        IR = self.IR
        sys.setrecursionlimit(20000)

        def m(n, i):
            k = n.kind
            if k == "ref":
                return m(IR[n.kw["name"]], i)
            if k == "lit":
                s_ = n.kw["s"]
                return i + len(s_) if text.startswith(s_, i) else None
            if k == "re":
                mm = re.compile(n.kw["s"]).match(text, i)
                return mm.end() if mm else None
            if k == "seq":
                j = m(n.kids[0], i)
                return None if j is None else m(n.kids[1], j)
            if k == "alt":
                j = m(n.kids[0], i)
                return j if j is not None else m(n.kids[1], i)
            if k == "opt":
                j = m(n.kids[0], i)
                return i if j is None else j
            if k in ("star", "plus"):
                j, cnt = i, 0
                while True:
                    nx = m(n.kids[0], j)
                    if nx is None or nx == j:
                        break
                    j, cnt = nx, cnt + 1
                return None if (k == "plus" and cnt == 0) else j
            if k == "look":
                return i if m(n.kids[0], i) is not None else None
            if k == "not":
                return i if m(n.kids[0], i) is None else None
            if k == "forward":
                return None
            raise AnalysisError("grammar: bad IR node " + k)
        return m(IR[start], i)

    def exact_accepts(self, start, text):
        """parseString(text, parseAll=True) succeeds for rule `start` (exact model)"""
        return self.exact_end(start, text, 0) == len(text)

    def accepts(self, text, starts):
        r = self.recogniser(text)
        return any(r(s) for s in starts)


def lambda_const_result(action):
    """For a parse action `lambda s, loc, toks: ["x"]` return "x" (the constant expansion); else None."""
    if isinstance(action, ast.Lambda):
        b = action.body
        if isinstance(b, (ast.List, ast.Tuple)) and len(b.elts) == 1 and isinstance(b.elts[0], ast.Constant) \
                and isinstance(b.elts[0].value, str):
            return b.elts[0].value
        if isinstance(b, ast.Constant) and isinstance(b.value, str):
            return b.value
    return None
