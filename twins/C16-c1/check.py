"""Crash-consistency check for file-backed caches and stores (property C16).

Run as:  cd <repo root> && /venv/bin/python check.py

For every scenario the operation (store / overwrite / store_metadata / remove)
is executed in a forked child process in which every file-system operation
boundary is a potential crash point: the child dies with os._exit() at the
N-th boundary (N = 1, 2, ... until the operation completes).  After each crash
the parent opens a FRESH cache/store object on the same directory and checks
that the entry reads as nothing, the complete old value or the complete new
value, and that an unrelated entry is unaffected.
"""
import os
import sys

sys.path.insert(0, os.getcwd())

import builtins
import contextlib
import io
import pathlib
import shutil
import tempfile
import warnings

CRASH_CODE = 17
MAX_POINTS = 400


# --------------------------------------------------------------------------
# crash injection (only ever installed in a forked child)
# --------------------------------------------------------------------------
class Crasher:
    def __init__(self, root, crash_at):
        self.root = os.path.realpath(root)
        self.crash_at = crash_at
        self.count = 0

    def inside(self, path):
        try:
            return os.path.realpath(os.fspath(path)).startswith(self.root)
        except TypeError:
            return False

    def tick(self):
        self.count += 1
        if self.count == self.crash_at:
            os._exit(CRASH_CODE)

    def due_next(self):
        return self.count + 1 == self.crash_at


class FileProxy:
    """Write-mode file object whose operation boundaries are crash points."""

    def __init__(self, f, crasher):
        self._f = f
        self._c = crasher
        self._writes = 0

    def write(self, data):
        # json.dump issues hundreds of tiny writes: the first few and then
        # every 8th of them are crash points, the rest are passed through.
        self._writes += 1
        if self._writes > 4 and self._writes % 8 != 0:
            result = self._f.write(data)
            self._f.flush()
            return result
        self._c.tick()  # die before anything of this write is issued
        if self._c.due_next() and len(data) > 1:
            # die in the middle of the write: half of it reaches the disk
            self._f.write(data[: len(data) // 2])
            self._f.flush()
            os._exit(CRASH_CODE)
        self._c.tick()
        result = self._f.write(data)
        self._f.flush()
        return result

    def close(self):
        self._c.tick()
        return self._f.close()

    def __enter__(self):
        return self

    def __exit__(self, *exc):
        self.close()
        return False

    def __getattr__(self, name):
        return getattr(self._f, name)


def install_crash_hooks(root, crash_at):
    c = Crasher(root, crash_at)
    real_open = builtins.open
    P = pathlib.Path

    def open_hook(file, mode="r", *args, **kwargs):
        writing = isinstance(mode, str) and any(ch in mode for ch in "wax+")
        if writing and not isinstance(file, int) and c.inside(file):
            c.tick()  # before open/truncate
            return FileProxy(real_open(file, mode, *args, **kwargs), c)
        return real_open(file, mode, *args, **kwargs)

    builtins.open = open_hook
    io.open = open_hook

    def write_bytes(self, data):
        with open_hook(self, "wb") as f:
            return f.write(data)

    def write_text(self, data, *args, **kwargs):
        with open_hook(self, "w") as f:
            return f.write(data)

    def path_open(self, mode="r", *args, **kwargs):
        return open_hook(self, mode, *args, **kwargs)

    P.write_bytes = write_bytes
    P.write_text = write_text
    P.open = path_open

    def guard_function(module, name):
        real = getattr(module, name)

        def hook(*args, **kwargs):
            c.tick()
            return real(*args, **kwargs)

        setattr(module, name, hook)

    for name in ("replace", "rename", "remove", "unlink", "mkdir", "makedirs", "rmdir"):
        guard_function(os, name)
    for name in ("replace", "rename", "unlink", "mkdir", "rmdir"):
        guard_function(P, name)
    return c


def run_with_crash(root, crash_at, operation):
    """Run operation() in a forked child that dies at boundary crash_at.
    Returns True if the child crashed, False if the operation completed."""
    sys.stdout.flush()
    sys.stderr.flush()
    with warnings.catch_warnings():
        warnings.simplefilter("ignore", DeprecationWarning)
        pid = os.fork()
    if pid == 0:
        code = 3
        try:
            devnull = os.open(os.devnull, os.O_WRONLY)
            os.dup2(devnull, 1)
            os.dup2(devnull, 2)
            install_crash_hooks(root, crash_at)
            operation()
            code = 0
        except BaseException:
            code = 4
        finally:
            os._exit(code)
    _, status = os.waitpid(pid, 0)
    code = os.waitstatus_to_exitcode(status)
    if code == CRASH_CODE:
        return True
    if code == 0:
        return False
    raise RuntimeError(f"child failed unexpectedly with exit code {code}")


# --------------------------------------------------------------------------
# scenarios
# --------------------------------------------------------------------------
def quiet(f, *args, **kwargs):
    with contextlib.redirect_stdout(io.StringIO()), contextlib.redirect_stderr(
        io.StringIO()
    ):
        return f(*args, **kwargs)


class Violation(Exception):
    pass


def make_state(key, value):
    from liquer.state import State

    state = State().with_data(value)
    state.query = key
    return state


def values():
    import pandas as pd

    return [
        ("text", "old text value " * 20, "NEW TEXT VALUE " * 33),
        ("json", {"a": 1, "b": list(range(50))}, {"c": "x" * 300, "d": [1, 2, 3]}),
        ("bytes", b"\x00\x01old" * 40, b"new\xff\xfe" * 77),
        ("int", 123, 4567890),
        (
            "dataframe",
            pd.DataFrame({"a": [1, 2, 3], "b": [4, 5, 6]}),
            pd.DataFrame({"a": list(range(40)), "c": list(range(40))}),
        ),
    ]


def same(a, b):
    try:
        import pandas as pd

        if isinstance(a, pd.DataFrame) or isinstance(b, pd.DataFrame):
            return (
                isinstance(a, pd.DataFrame)
                and isinstance(b, pd.DataFrame)
                and list(a.columns) == list(b.columns)
                and a.shape == b.shape
                and bool((a.values == b.values).all())
            )
    except ImportError:
        pass
    return type(a) == type(b) and a == b


def cache_factories():
    from cryptography.fernet import Fernet
    from liquer.cache import FileCache, XORFileCache, FernetFileCache, StoreCache
    from liquer.store import FileStore

    fernet_key = Fernet.generate_key()
    return [
        ("FileCache", lambda d: FileCache(d)),
        ("XORFileCache", lambda d: XORFileCache(d, b"secret-code")),
        ("FernetFileCache", lambda d: FernetFileCache(d, fernet_key)),
        ("StoreCache(FileStore)", lambda d: StoreCache(FileStore(d), path="cache")),
        (
            "StoreCache(FileStore,flat)",
            lambda d: StoreCache(FileStore(d), path="cache", flat=True),
        ),
    ]


KEY = "ns/cmd-1/result"
OTHER = "ns/other-entry"
OTHER_VALUE = "the unrelated entry " * 10


def cache_read(cache, key):
    """Read through the public API; key-not-found style exceptions are 'nothing'."""
    from liquer.store import KeyNotFoundStoreException

    try:
        state = quiet(cache.get, key)
    except KeyNotFoundStoreException:
        state = quiet(cache.get, key)
        if state is not None:
            raise Violation("entry reported missing and then served")
    return state


def check_cache_scenario(name, factory, tag, old, new, op):
    """op in: fresh, overwrite, metadata, remove"""
    for crash_at in range(1, MAX_POINTS):
        d = tempfile.mkdtemp(prefix="c16_")
        try:
            cache = factory(d)
            assert quiet(cache.store, make_state(OTHER, OTHER_VALUE))
            acceptable = [new]
            if op in ("overwrite", "metadata", "remove"):
                assert quiet(cache.store, make_state(KEY, old))
                acceptable = [old] if op != "overwrite" else [old, new]

            def operation():
                c = factory(d)
                if op in ("fresh", "overwrite"):
                    c.store(make_state(KEY, new))
                elif op == "metadata":
                    md = dict(c.get_metadata(KEY))
                    md["message"] = "updated " * 30
                    c.store_metadata(md)
                elif op == "remove":
                    c.remove(KEY)

            crashed = run_with_crash(d, crash_at, operation)
            where = f"{name} / {tag} / {op} / crash point {crash_at}"
            fresh = factory(d)
            state = cache_read(fresh, KEY)
            if state is not None:
                value = state.get()
                if not any(same(value, a) for a in acceptable):
                    raise Violation(
                        f"{where}: corrupt value served as valid: {repr(value)[:80]}"
                    )
                if state.metadata.get("query") != KEY:
                    raise Violation(f"{where}: metadata of another entry served")
            elif not crashed and op in ("fresh", "overwrite", "metadata"):
                raise Violation(f"{where}: completed operation left no entry")
            if not crashed and op == "remove" and state is not None:
                raise Violation(f"{where}: completed remove left the entry")
            other = cache_read(factory(d), OTHER)
            if other is None or other.get() != OTHER_VALUE:
                raise Violation(f"{where}: unrelated entry damaged")
            if not crashed:
                return crash_at - 1
        finally:
            shutil.rmtree(d, ignore_errors=True)
    raise Violation(f"{name}/{tag}/{op}: operation never completed")


def store_read(d, key):
    from liquer.store import FileStore, KeyNotFoundStoreException

    def get_bytes(store):
        try:
            return store.get_bytes(key)
        except KeyNotFoundStoreException:
            return None

    def get_metadata(store):
        try:
            return quiet(store.get_metadata, key)
        except KeyNotFoundStoreException:
            return None

    first = get_bytes(FileStore(d))  # data alone, before any repair
    store = FileStore(d)
    metadata = get_metadata(store)
    second = get_bytes(store)
    return first, metadata, second


def check_store_scenario(tag, old, new, op):
    from liquer.store import FileStore

    skey = "dir/sub/item.bin"
    sother = "dir/sub/other.bin"
    for crash_at in range(1, MAX_POINTS):
        d = tempfile.mkdtemp(prefix="c16_")
        try:
            store = FileStore(d)
            store.store(sother, b"unrelated" * 9, {"note": "other"})
            acceptable = [new]
            if op in ("overwrite", "metadata", "remove"):
                store.store(skey, old, {"note": "old"})
                acceptable = [old] if op != "overwrite" else [old, new]

            def operation():
                s = FileStore(d)
                if op in ("fresh", "overwrite"):
                    s.store(skey, new, {"note": "new " * 50})
                elif op == "metadata":
                    md = s.get_metadata(skey)
                    md["note"] = "changed " * 50
                    s.store_metadata(skey, md)
                elif op == "remove":
                    s.remove(skey)

            crashed = run_with_crash(d, crash_at, operation)
            where = f"FileStore / {tag} / {op} / crash point {crash_at}"
            first, metadata, second = store_read(d, skey)
            for b in (first, second):
                if b is not None and b not in acceptable:
                    raise Violation(f"{where}: corrupt data served: {b[:40]!r}")
            if metadata is not None:
                if not isinstance(metadata, dict) or metadata.get("key") != skey:
                    raise Violation(f"{where}: corrupt metadata served")
                if metadata.get("note") not in (
                    None,
                    "old",
                    "new " * 50,
                    "changed " * 50,
                ):
                    raise Violation(f"{where}: mixed metadata served")
            if not crashed:
                if op == "remove" and (second is not None or first is not None):
                    raise Violation(f"{where}: completed remove left the entry")
                if op in ("fresh", "overwrite") and second != new:
                    raise Violation(f"{where}: completed store lost the value")
                if op == "metadata" and (
                    metadata is None or metadata.get("note") != "changed " * 50
                ):
                    raise Violation(f"{where}: completed store_metadata lost")
            fresh = FileStore(d)
            if fresh.get_bytes(sother) != b"unrelated" * 9:
                raise Violation(f"{where}: unrelated entry damaged")
            if quiet(fresh.get_metadata, sother).get("note") != "other":
                raise Violation(f"{where}: unrelated metadata damaged")
            if not crashed:
                return crash_at - 1
        finally:
            shutil.rmtree(d, ignore_errors=True)
    raise Violation(f"FileStore/{tag}/{op}: operation never completed")


def main():
    import logging

    logging.disable(logging.CRITICAL)
    total = 0
    scenarios = 0
    try:
        vals = values()
        for name, factory in cache_factories():
            # every value type for store/overwrite on the plain file cache,
            # a smaller selection for the other variants
            selected = vals if name == "FileCache" else vals[:2] + vals[4:]
            for tag, old, new in selected:
                for op in ("fresh", "overwrite"):
                    total += check_cache_scenario(name, factory, tag, old, new, op)
                    scenarios += 1
            tag, old, new = vals[1]
            for op in ("metadata", "remove"):
                total += check_cache_scenario(name, factory, tag, old, new, op)
                scenarios += 1
        for tag, old, new in [
            ("bytes", b"old store bytes " * 30, b"NEW STORE BYTES!" * 47),
            ("empty-old", b"x", b"y" * 1000),
        ]:
            for op in ("fresh", "overwrite", "metadata", "remove"):
                total += check_store_scenario(tag, old, new, op)
                scenarios += 1
    except Violation as e:
        print(f"PROPERTY VIOLATED: {e}")
        return 1
    if total < scenarios:
        print("PROPERTY VIOLATED: crash injection did not hit any crash point")
        return 1
    print(f"PROPERTY HOLDS ({scenarios} scenarios, {total} crash points)")
    return 0


if __name__ == "__main__":
    sys.exit(main())
