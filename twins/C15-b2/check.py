"""Standalone check of property C15 (OverlayStore is a copy-on-write view).

Run as:  cd <repo root> && /venv/bin/python check.py

A small reference model (dict of files + set of directories) is driven in
lock-step with an OverlayStore over a pre-populated fall-back store.  After
every operation all reads through the overlay are compared against the model
and the fall-back store is compared against a snapshot taken before the
history started.
"""
import copy
import os
import shutil
import sys
import tempfile

sys.path.insert(0, os.getcwd())

from liquer.store import (  # noqa: E402
    FileStore,
    MemoryStore,
    OverlayStore,
    StoreException,
)


class Violation(Exception):
    pass


def parents(key):
    parts = key.split("/")
    return ["/".join(parts[:i]) for i in range(1, len(parts))]


class Model:
    def __init__(self):
        self.files = {}  # key -> (bytes, title)
        self.dirs = set()

    def store(self, key, data, title):
        self.files[key] = (data, title)
        self.dirs.update(parents(key))

    def store_metadata(self, key, title):
        self.files[key] = (self.files[key][0], title)

    def remove(self, key):
        self.files.pop(key, None)

    def makedir(self, key):
        self.dirs.add(key)
        self.dirs.update(parents(key))

    def removedir_recursive(self, key):
        prefix = key + "/"
        for k in list(self.files):
            if k.startswith(prefix):
                del self.files[k]
        for k in list(self.dirs):
            if k == key or k.startswith(prefix):
                self.dirs.discard(k)

    def removedir_empty(self, key):
        self.dirs.discard(key)

    def keys(self):
        return sorted(set(self.files) | self.dirs)

    def listdir(self, key):
        out = set()
        for k in self.keys():
            p = "/".join(k.split("/")[:-1])
            if p == key:
                out.add(k.split("/")[-1])
        return sorted(out)


UNIVERSE = ["a", "a/x", "a/y", "b", "b/x", "b/s", "b/s/z", "c", "r", "q", "d", "d/n"]


def snapshot(store, root):
    """Full snapshot of a fall-back store (raw, not through the public read API)."""
    if isinstance(store, MemoryStore):
        return (
            copy.deepcopy(store.data),
            copy.deepcopy(store.metadata),
            copy.deepcopy(store.directories),
        )
    snap = {}
    for dirpath, dirnames, filenames in os.walk(root):
        rel = os.path.relpath(dirpath, root)
        snap[("D", rel)] = sorted(dirnames)
        for f in filenames:
            with open(os.path.join(dirpath, f), "rb") as fh:
                snap[("F", os.path.join(rel, f))] = fh.read()
    return snap


def compare(ov, model, where):
    def fail(msg):
        raise Violation(f"{where}: {msg}")

    got_keys = sorted(ov.keys())
    if got_keys != model.keys():
        fail(f"keys() = {got_keys}, expected {model.keys()}")
    for key in UNIVERSE:
        is_file = key in model.files
        is_dir = key in model.dirs
        if bool(ov.contains(key)) != (is_file or is_dir):
            fail(f"contains({key!r}) = {ov.contains(key)}, expected {is_file or is_dir}")
        if bool(ov.is_dir(key)) != is_dir:
            fail(f"is_dir({key!r}) = {ov.is_dir(key)}, expected {is_dir}")
        if is_file:
            data, title = model.files[key]
            b = ov.get_bytes(key)
            if b != data:
                fail(f"get_bytes({key!r}) = {b!r}, expected {data!r}")
            md = ov.get_metadata(key)
            if md.get("title") != title:
                fail(f"get_metadata({key!r})['title'] = {md.get('title')!r}, expected {title!r}")
            if md.get("key") != key or md["fileinfo"]["is_dir"] is not False:
                fail(f"get_metadata({key!r}) has wrong key/is_dir: {md.get('key')!r}")
            if md["fileinfo"].get("size") != len(data):
                fail(f"get_metadata({key!r}) size = {md['fileinfo'].get('size')}, expected {len(data)}")
        elif is_dir:
            md = ov.get_metadata(key)
            if md["fileinfo"]["is_dir"] is not True:
                fail(f"get_metadata({key!r}) does not describe a directory")
            got = sorted(ov.listdir(key))
            if got != model.listdir(key):
                fail(f"listdir({key!r}) = {got}, expected {model.listdir(key)}")
            got = sorted(ov.listdir_keys(key))
            exp = [key + "/" + n for n in model.listdir(key)]
            if got != exp:
                fail(f"listdir_keys({key!r}) = {got}, expected {exp}")
        else:
            for reader in (ov.get_bytes, ov.get_metadata):
                try:
                    reader(key)
                except (StoreException, KeyError, FileNotFoundError):
                    pass
                else:
                    fail(f"{reader.__name__}({key!r}) succeeded for an absent key")
    got = sorted(ov.listdir(""))
    if got != model.listdir(""):
        fail(f"listdir('') = {got}, expected {model.listdir('')}")


# Fall-back contents: list of (key, bytes, title)
FALLBACKS = {
    "empty": [],
    "flat": [("r", b"root-r", "R"), ("q", b"root-q", "Q")],
    "tree": [
        ("a/x", b"ax0", "AX"),
        ("a/y", b"ay0", "AY"),
        ("b/x", b"bx0", "BX"),
        ("b/s/z", b"bsz0", "BSZ"),
        ("r", b"r0", "R"),
    ],
}

# Histories: lists of operations applied through the overlay
HISTORIES = {
    "shadow": [
        ("store", "a/x", b"ax1", "AX1"),
        ("store", "c", b"c1", "C1"),
        ("store", "a/x", b"ax2-longer", "AX2"),
        ("store_metadata", "a/x", "AX3"),
        ("store", "r", b"r1", "R1"),
    ],
    "mask-and-recreate": [
        ("remove", "r"),
        ("remove", "a/x"),
        ("remove", "a/x"),
        ("store", "a/x", b"again", "AGAIN"),
        ("store_metadata", "a/x", "AGAIN2"),
        ("remove", "a/x"),
        ("store", "r", b"r-new", "RNEW"),
        ("remove", "q"),
        ("store", "q", b"q-new", "QNEW"),
    ],
    "overlay-only-lifecycle": [
        ("makedir", "d"),
        ("store", "d/n", b"dn", "DN"),
        ("store_metadata", "d/n", "DN2"),
        ("remove", "d/n"),
        ("removedir", "d"),
        ("store", "d/n", b"dn-again", "DN3"),
        ("removedir_recursive", "d"),
        ("store", "c", b"c", "C"),
        ("remove", "c"),
    ],
    "recursive-removal-of-fallback-dir": [
        ("removedir_recursive", "b"),
        ("store", "c", b"c", "C"),
        ("makedir", "b"),
        ("makedir", "b/s"),
        ("store", "b/s/z", b"new-z", "NZ"),
        ("store", "b/x", b"new-x", "NX"),
    ],
    "nested-recursive-removal": [
        ("removedir_recursive", "b/s"),
        ("remove", "b/x"),
        ("removedir", "b"),
        ("remove", "a/y"),
    ],
}


def apply(ov, model, op, fallback_keys):
    """Apply op to overlay and model. Returns False if op is not applicable (skipped)."""
    name, key = op[0], op[1]
    if (
        name in ("removedir", "removedir_recursive")
        and isinstance(ov.overlay, FileStore)
        and ov.overlay.contains(key)
    ):
        # Known limitation of the untouched tree (not what this check is about):
        # OverlayStore.removedir calls overlay.remove(<directory>), which a
        # FileStore upper layer cannot do (unlink of a directory).
        return False
    if name == "store":
        ov.store(key, op[2], dict(title=op[3]))
        model.store(key, op[2], op[3])
    elif name == "store_metadata":
        if key not in model.files:
            return False
        md = ov.get_metadata(key)
        md["title"] = op[2]
        ov.store_metadata(key, md)
        model.store_metadata(key, op[2])
    elif name == "remove":
        ov.remove(key)
        model.remove(key)
    elif name == "makedir":
        ov.makedir(key)
        model.makedir(key)
    elif name == "removedir":
        if key not in model.dirs or model.listdir(key):
            return False
        ov.removedir(key)
        model.removedir_empty(key)
    elif name == "removedir_recursive":
        if key not in model.dirs:
            return False
        ov.removedir(key, recursive=True)
        model.removedir_recursive(key)
    else:
        raise ValueError(name)
    return True


def make_store(kind, tmp, label):
    if kind == "memory":
        return MemoryStore(), None
    root = os.path.join(tmp, label)
    os.makedirs(root)
    return FileStore(root), root


def run_one(overlay_kind, fallback_kind, fb_name, hist_name, tmp, idx):
    where0 = f"[overlay={overlay_kind} fallback={fallback_kind} content={fb_name} history={hist_name}]"
    fallback, fb_root = make_store(fallback_kind, tmp, f"fb{idx}")
    overlay, _ = make_store(overlay_kind, tmp, f"ov{idx}")
    model = Model()
    for key, data, title in FALLBACKS[fb_name]:
        fallback.store(key, data, dict(title=title))
        model.store(key, data, title)
    fallback_keys = set(model.keys())
    ov = OverlayStore(overlay, fallback)
    # warm-up read (MemoryStore normalises metadata in place on first read)
    compare(ov, model, where0 + " initially")
    before = snapshot(fallback, fb_root)
    for step, op in enumerate(HISTORIES[hist_name]):
        where = f"{where0} after step {step} {op[:2]}"
        try:
            applied = apply(ov, model, op, fallback_keys)
        except Violation:
            raise
        except Exception as e:
            raise Violation(f"{where}: operation raised {type(e).__name__}: {e}")
        if not applied:
            continue
        try:
            compare(ov, model, where)
        except Violation:
            raise
        except Exception as e:
            raise Violation(f"{where}: read raised {type(e).__name__}: {e}")
        after = snapshot(fallback, fb_root)
        if after != before:
            raise Violation(f"{where}: the fall-back store was modified")


def main():
    tmp = tempfile.mkdtemp(prefix="c15_check_")
    count = 0
    try:
        for overlay_kind in ("memory", "file"):
            for fallback_kind in ("memory", "file"):
                for fb_name in FALLBACKS:
                    for hist_name in HISTORIES:
                        run_one(overlay_kind, fallback_kind, fb_name, hist_name, tmp, count)
                        count += 1
    except Violation as v:
        print(f"PROPERTY VIOLATED: {v}")
        return 1
    finally:
        shutil.rmtree(tmp, ignore_errors=True)
    print(f"PROPERTY HOLDS ({count} scenario runs)")
    return 0


if __name__ == "__main__":
    sys.exit(main())
