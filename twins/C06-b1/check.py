"""Standalone check of property C06 (error containment) through the public API.

Run as:  cd <repo root> && /venv/bin/python check.py
Exit 0 + "PROPERTY HOLDS" when a failing step never yields a normal-looking
result, nothing to the right of it is executed and the reported failure names
the query and the position of the failing action / link argument.
"""
import os
import sys

sys.path.insert(0, os.getcwd())

import contextlib
import io
import shutil
import tempfile


def main():
    problems = []
    tmpdir = tempfile.mkdtemp(prefix="c06_check_")
    try:
        with contextlib.redirect_stdout(io.StringIO()), contextlib.redirect_stderr(
            io.StringIO()
        ):
            run(problems, tmpdir)
    finally:
        shutil.rmtree(tmpdir, ignore_errors=True)
    if problems:
        print("PROPERTY VIOLATED: " + "; ".join(problems))
        return 1
    print("PROPERTY HOLDS")
    return 0


def run(problems, tmpdir):
    import logging

    logging.disable(logging.CRITICAL)

    from liquer import evaluate, command, first_command
    from liquer.commands import reset_command_registry
    from liquer.cache import set_cache, NoCache, MemoryCache, FileCache
    import liquer.store as st

    calls = []

    def setup():
        reset_command_registry()
        st.set_store(st.MemoryStore())
        st.get_store().store("a/b", b"hello", {})
        del calls[:]

        @first_command
        def start(x=1):
            calls.append("start")
            return int(x)

        @command
        def add(x, y: int = 1):
            calls.append("add")
            return int(x) + y

        @command
        def boom(x):
            calls.append("boom")
            raise Exception("boom failed")

        @command
        def tail1(x):
            calls.append("tail1")
            return x

        @command
        def tail2(x, y=0):
            calls.append("tail2")
            return x

        @command
        def one(x, a):
            calls.append("one")
            return "%s%s" % (x, a)

        @command
        def text(x):
            calls.append("text")
            return x.decode("utf-8")

    # (query, text of the failing action / link argument, commands that must not
    #  run, query named by the failure (None: the prefix of the query that ends
    #  with the failing action), offset (None: offset of the failing text))
    scenarios = [
        # command raises: first, middle, last position
        ("boom", "boom", [], None, None),
        ("boom/tail1", "boom", ["tail1"], None, None),
        ("start/boom/tail1/tail2-1", "boom", ["tail1", "tail2"], None, None),
        ("start/add-2/boom/tail1/tail2/tail1", "boom", ["tail1", "tail2"], None, None),
        ("start/add-2/tail1/boom", "boom", [], None, None),
        # unknown command
        ("nosuchcmd", "nosuchcmd", [], None, None),
        ("start/nosuchcmd/tail1", "nosuchcmd", ["tail1"], None, None),
        ("start/add-2/tail1/nosuchcmd/tail2/tail1", "nosuchcmd", ["tail2"], None, None),
        ("a/b/-/text/nosuchcmd/tail1", "nosuchcmd", ["tail1"], None, None),
        ("a/b/-/text/boom/tail1/tail2", "boom", ["tail1", "tail2"], None, None),
        # argument that cannot be converted
        ("add-xyz", "add-xyz", ["add"], None, None),
        ("start/add-xyz/tail1", "add-xyz", ["add", "tail1"], None, None),
        # too few arguments
        ("one/tail1", "one", ["one", "tail1"], None, None),
        ("start/one/tail1", "one", ["one", "tail1"], None, None),
        # too many arguments
        ("start/tail1-1-2/tail2", "tail1-1-2", ["tail1", "tail2"], None, None),
        ("start/add-2/add-1-2-3/tail1/tail2", "add-1-2-3", ["tail1", "tail2"], None, None),
        # failing nested link query (absolute), also deep
        ("start/one-~X~/boom~E/tail1", "~X~/boom~E", ["one", "tail1"], None, None),
        (
            "start/one-~X~/start/nosuchcmd~E/tail1/tail2",
            "~X~/start/nosuchcmd~E",
            ["one", "tail1", "tail2"],
            None,
            None,
        ),
        (
            "start/one-~X~/start/one-~X~/boom~E~E/tail1",
            "~X~/boom~E",
            ["one", "tail1"],
            "/start/one-~X~/boom~E",
            None,
        ),
        # failing relative link
        ("start/one-~X~boom~E/tail1", "~X~boom~E", ["one", "tail1"], None, None),
        (
            "start/add-2/one-~X~add-3/nosuchcmd~E/tail1/tail2",
            "~X~add-3/nosuchcmd~E",
            ["one", "tail1", "tail2"],
            None,
            None,
        ),
        # missing resource
        ("a/missing/-/text/tail1", "a/missing", ["text", "tail1"], "-R/a/missing", 0),
        (
            "start/one-~X~/a/missing/-/text~E/tail1",
            "~X~/a/missing/-/text~E",
            ["one", "tail1"],
            None,
            None,
        ),
    ]

    cache_factories = [
        ("nocache", lambda: NoCache()),
        ("memory", lambda: MemoryCache()),
        ("file", lambda: FileCache(tempfile.mkdtemp(dir=tmpdir))),
    ]

    for cache_name, factory in cache_factories:
        # sanity: successful queries work
        setup()
        set_cache(factory())
        try:
            v = evaluate("start/add-2/tail1").get()
            if v != 3:
                problems.append("[%s] sanity query gave %r" % (cache_name, v))
            v = evaluate("start-4/one-~X~add-3~E").get()
            if v != "47":
                problems.append("[%s] sanity link query gave %r" % (cache_name, v))
            v = evaluate("a/b/-/text/tail1").get()
            if v != "hello":
                problems.append("[%s] sanity resource query gave %r" % (cache_name, v))
        except Exception as e:
            problems.append("[%s] sanity query raised %r" % (cache_name, e))

        for query, marker, forbidden, expected_query, expected_offset in scenarios:
            # evaluate twice: the second time the cache (if any) has seen the failure
            setup()
            set_cache(factory())
            for attempt in (1, 2):
                label = "[%s #%d] %s" % (cache_name, attempt, query)
                del calls[:]
                exc = None
                state = None
                try:
                    state = evaluate(query)
                except Exception as e:
                    exc = e
                if state is not None:
                    if not state.is_error:
                        problems.append(label + ": state not marked as error")
                    try:
                        value = state.get()
                        problems.append(
                            label + ": get() returned normal value %r" % (value,)
                        )
                    except Exception as e:
                        exc = e
                for name in forbidden:
                    if name in calls:
                        problems.append(
                            label + ": command %s was executed (calls=%r)" % (name, calls)
                        )
                if exc is None:
                    continue
                if expected_query is None:
                    expected_query = query[: query.index(marker) + len(marker)]
                if expected_offset is None:
                    expected_offset = query.index(marker)
                q = getattr(exc, "query", None)
                offset = getattr(getattr(exc, "position", None), "offset", None)
                if q != expected_query:
                    problems.append(
                        label
                        + ": failure names query %r, expected %r" % (q, expected_query)
                    )
                if offset != expected_offset:
                    problems.append(
                        label
                        + ": failure position %r, expected %r"
                        % (offset, expected_offset)
                    )
    set_cache(NoCache())


if __name__ == "__main__":
    sys.exit(main())
