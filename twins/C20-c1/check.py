"""Standalone check of property C20: the web service is a faithful transport of the library.

Run as:  cd <repo root> && /venv/bin/python check.py
"""
import os
import sys

sys.path.insert(0, os.getcwd())

import contextlib
import io
import json
import shutil
import tempfile
import traceback


class Violation(Exception):
    pass


def check(cond, message):
    if not cond:
        raise Violation(message)


def jsonable(x):
    return json.loads(json.dumps(x))


def main():
    from flask import Flask
    import liquer.server.blueprint as bp
    import liquer.commands as lc
    from liquer.commands import (
        command,
        first_command,
        command_registry,
        reset_command_registry,
        enable_remote_registration,
        disable_remote_registration,
        is_remote_registration_enabled,
        CommandMetadata,
    )
    from liquer.query import evaluate
    from liquer.state_types import encode_state_data
    from liquer.cache import MemoryCache, set_cache, get_cache
    from liquer.store import MemoryStore, set_store, get_store, StoreException
    import liquer.remote_store as rs

    reset_command_registry()
    set_cache(MemoryCache())
    set_store(MemoryStore())
    disable_remote_registration()

    @first_command
    def hello():
        return "Hello"

    @command
    def greet(greeting, who="world"):
        return f"{greeting}, {who}!"

    @first_command
    def num(x=1):
        return int(x) * 2

    @first_command
    def table():
        return dict(a=[1, 2], b="x y")

    @first_command
    def blob():
        return bytes(range(256))

    @first_command
    def fail():
        raise Exception("intended failure")

    app = Flask("c20check")
    app.register_blueprint(bp.app, url_prefix="/liquer")
    client = app.test_client()

    # ---------------------------------------------------------------- queries
    queries = [
        "hello",
        "hello/greet",
        "hello/greet-everybody",
        "hello/greet-a~_b~.c/out.txt",
        "hello/greet-x/out.json",
        "hello/out.html",
        "num",
        "num-21",
        "num-21/n.json",
        "num-4/n.txt",
        "table",
        "table/t.json",
        "table/t.djson",
        "table/t.pickle",
        "blob",
        "blob/b.bin",
        "blob/b.png",
        "blob/b.zip",
    ]
    for q in queries:
        with contextlib.redirect_stderr(io.StringIO()):
            r = client.get("/liquer/q/" + q)
        try:
            state = evaluate(q)
            b, mimetype, _ = encode_state_data(state.get(), extension=state.extension)
        except Exception:
            # not serializable in the requested format: must not be a success
            check(r.status_code == 500, f"query {q!r}: status {r.status_code}")
            continue
        check(r.status_code == 200, f"query {q!r}: status {r.status_code}")
        check(r.data == b, f"query {q!r}: body {r.data!r} != {b!r}")
        check(
            r.headers.get("Content-Type") == mimetype,
            f"query {q!r}: media type {r.headers.get('Content-Type')!r} != {mimetype!r}",
        )
        rp = client.post("/liquer/q/" + q, data=b"{}")
        check(
            rp.status_code == 200 and rp.data == b,
            f"query {q!r} via POST: {rp.status_code} {rp.data!r}",
        )
    # inline vs attachment disposition
    r = client.get("/liquer/q/blob/b.bin")
    check(
        "attachment" in r.headers.get("Content-Disposition", ""),
        "binary result not served as attachment",
    )
    r = client.get("/liquer/q/hello/out.txt")
    check(
        r.headers.get("Content-Disposition") is None,
        "text result served as attachment",
    )

    for q in ["fail", "fail/x.txt", "hello/no_such_command", "no_such_command/x.json"]:
        with contextlib.redirect_stderr(io.StringIO()):
            r = client.get("/liquer/q/" + q)
        check(r.status_code >= 400, f"failing query {q!r} gave status {r.status_code}")
        check(r.status_code == 500, f"failing query {q!r} gave status {r.status_code}")

    # ------------------------------------------------------------------ cache
    set_cache(MemoryCache())
    cache = get_cache()
    check(
        client.get("/liquer/api/cache/keys.json").get_json() == dict(keys=[]),
        "cache keys of empty cache",
    )
    evaluate("hello/greet-cached")
    evaluate("num-5")
    r = client.get("/liquer/api/cache/keys.json").get_json()
    check(r == dict(keys=list(cache.keys())), f"cache keys {r}")
    for q in ["hello/greet-cached", "hello", "num-5", "num-6", "absent"]:
        r = client.get("/liquer/api/cache/contains/" + q).get_json()
        check(r == dict(query=q, cached=cache.contains(q)), f"cache contains {q}: {r}")
        r = client.get("/liquer/api/cache/meta/" + q).get_json()
        check(r == jsonable(cache.get_metadata(q)), f"cache meta {q}: {r}")
        r = client.get("/liquer/api/cache/get/" + q)
        state = cache.get(q)
        if state is None:
            check(r.status_code == 404, f"cache get of absent {q}: {r.status_code}")
        else:
            b, mimetype, _ = encode_state_data(state.get(), extension=state.extension)
            check(
                r.status_code == 200
                and r.data == b
                and r.headers.get("Content-Type") == mimetype,
                f"cache get {q}: {r.status_code} {r.data!r}",
            )
    md = dict(query="posted/meta", status="submitted", extra=[1, 2, 3])
    r = client.post("/liquer/api/cache/meta/posted/meta", data=json.dumps(md)).get_json()
    check(
        r
        == dict(query="posted/meta", result=True, status="OK", message="OK", traceback=""),
        f"cache store metadata: {r}",
    )
    check(cache.get_metadata("posted/meta") == md, "posted cache metadata not stored")
    r = client.post("/liquer/api/cache/meta/bad", data=json.dumps(dict(a=1))).get_json()
    check(
        r["status"] == "ERROR" and r["result"] is False and r["query"] == "bad",
        f"cache store metadata without query key: {r}",
    )
    r = client.get("/liquer/api/cache/remove/num-5").get_json()
    check(r == dict(query="num-5", removed=True), f"cache remove: {r}")
    check(not cache.contains("num-5"), "cache remove had no effect")
    n_before = len(list(cache.keys()))
    check(n_before > 0, "cache unexpectedly empty")
    r = client.get("/liquer/api/cache/clean").get_json()
    check(
        r == dict(status="OK", message="Cache cleaned, 0 keys left"),
        f"cache clean: {r}",
    )
    check(len(list(cache.keys())) == 0, "cache clean had no effect")

    # ------------------------------------------------------------------ store
    set_store(MemoryStore())
    store = get_store()
    mirror = MemoryStore()  # the same history applied directly to the library

    def same_store_view(keys_to_probe):
        r = client.get("/liquer/api/store/keys").get_json()
        check(
            r["status"] == "OK" and r["keys"] == list(store.keys()),
            f"store keys: {r}",
        )
        check(sorted(store.keys()) == sorted(mirror.keys()), "store/mirror keys differ")
        for k in keys_to_probe:
            r = client.get("/liquer/api/store/contains/" + k).get_json()
            check(
                r["status"] == "OK"
                and r["contains"] == store.contains(k) == mirror.contains(k)
                and r["query"] == k,
                f"store contains {k}: {r}",
            )
            r = client.get("/liquer/api/store/is_dir/" + k).get_json()
            check(
                r["status"] == "OK" and r["is_dir"] == store.is_dir(k) == mirror.is_dir(k),
                f"store is_dir {k}: {r}",
            )
            if store.is_dir(k):
                r = client.get("/liquer/api/store/listdir/" + k).get_json()
                check(
                    r["status"] == "OK"
                    and r["listdir"] == store.listdir(k)
                    and sorted(r["listdir"]) == sorted(mirror.listdir(k)),
                    f"store listdir {k}: {r}",
                )
            r = client.get("/liquer/api/store/data/" + k)
            if k in store.data:
                check(
                    r.status_code == 200
                    and r.data == store.get_bytes(k) == mirror.get_bytes(k),
                    f"store get {k}: {r.status_code} {r.data!r}",
                )
                expected_mime = store.get_metadata(k).get(
                    "mimetype", "application/octet-stream"
                )
                check(
                    r.headers.get("Content-Type") == expected_mime,
                    f"store get {k}: media type {r.headers.get('Content-Type')}",
                )
                r = client.get("/liquer/api/store/metadata/" + k).get_json()
                check(
                    r == jsonable(store.get_metadata(k)), f"store get_metadata {k}: {r}"
                )
            else:
                check(r.status_code == 404, f"store get of absent {k}: {r.status_code}")
                check(r.get_json()["status"] == "ERROR", f"store get of absent {k}")

    probe = ["a", "a/b.txt", "a/c.bin", "a/d", "a/d/e.json", "x", "x/y", "missing.txt"]
    same_store_view(probe)

    with contextlib.redirect_stderr(io.StringIO()):
        r = client.post("/liquer/api/store/data/a/b.txt", data=b"hello bytes")
    check(
        r.status_code == 200
        and r.get_json() == dict(query="a/b.txt", message="Data stored", status="OK"),
        f"store set: {r.status_code} {r.data!r}",
    )
    mirror.store("a/b.txt", b"hello bytes", {})
    same_store_view(probe)

    md = dict(mimetype="text/plain", title="B", nested=dict(k=[1, 2]))
    r = client.post("/liquer/api/store/metadata/a/b.txt", data=json.dumps(md))
    check(
        r.get_json() == dict(query="a/b.txt", message="Metadata stored", status="OK"),
        f"store set metadata: {r.data!r}",
    )
    mirror.store_metadata("a/b.txt", dict(md))
    check(store.get_metadata("a/b.txt").get("title") == "B", "metadata not stored")
    check(
        client.get("/liquer/api/store/data/a/b.txt").headers.get("Content-Type")
        == "text/plain",
        "stored mimetype not used as media type",
    )
    same_store_view(probe)

    # overwrite keeps metadata, binary body preserved exactly
    payload = bytes(range(256)) * 3
    r = client.post("/liquer/api/store/data/a/b.txt", data=payload)
    check(r.get_json()["status"] == "OK", "store overwrite")
    mirror.store("a/b.txt", payload, mirror.get_metadata("a/b.txt"))
    check(store.get_bytes("a/b.txt") == payload, "overwritten bytes differ")
    check(store.get_metadata("a/b.txt").get("title") == "B", "overwrite lost metadata")
    with contextlib.redirect_stderr(io.StringIO()):
        client.post("/liquer/api/store/data/a/c.bin", data=b"\x00\x01")
        client.post("/liquer/api/store/data/a/d/e.json", data=b"{}")
    mirror.store("a/c.bin", b"\x00\x01", {})
    mirror.store("a/d/e.json", b"{}", {})
    same_store_view(probe)

    # upload
    with contextlib.redirect_stderr(io.StringIO()):
        r = client.post(
            "/liquer/api/store/upload/x/up.txt",
            data=dict(file=(io.BytesIO(b"uploaded"), "up.txt")),
            content_type="multipart/form-data",
        )
    check(
        r.get_json()
        == dict(query="x/up.txt", message="Data stored", size=8, status="OK"),
        f"upload: {r.data!r}",
    )
    mirror.store("x/up.txt", b"uploaded", {})
    check(store.get_bytes("x/up.txt") == b"uploaded", "uploaded bytes differ")
    r = client.post(
        "/liquer/api/store/upload/x/up2.txt", data={}, content_type="multipart/form-data"
    )
    check(
        r.status_code == 404 and r.get_json()["status"] == "ERROR",
        f"upload without file: {r.status_code}",
    )
    check(not store.contains("x/up2.txt"), "upload without file stored something")
    r = client.get("/liquer/api/store/upload/x/up3.txt")
    check(
        r.status_code == 200
        and r.headers.get("Content-Type") == "text/html"
        and b"Upload to x/up3.txt" in r.data,
        "upload form",
    )
    same_store_view(probe + ["x/up.txt"])

    r = client.get("/liquer/api/store/makedir/x/y").get_json()
    check(
        r == dict(query="x/y", message="Makedir succeeded", status="OK"),
        f"makedir: {r}",
    )
    mirror.makedir("x/y")
    same_store_view(probe)

    r = client.get("/liquer/api/store/remove/a/c.bin").get_json()
    check(
        r == dict(query="a/c.bin", message="Removed a/c.bin", status="OK"),
        f"remove: {r}",
    )
    mirror.remove("a/c.bin")
    check(not store.contains("a/c.bin"), "remove had no effect")
    same_store_view(probe)

    r = client.get("/liquer/api/store/removedir/x/y").get_json()
    check(
        r == dict(query="x/y", message="Removed directory x/y", status="OK"),
        f"removedir: {r}",
    )
    mirror.removedir("x/y")
    same_store_view(probe)

    # web shortcut
    store.store("web/app/index.html", b"<html>app</html>", dict(mimetype="text/html"))
    for url in ["/liquer/web/app/", "/liquer/web/app", "/liquer/web/app/index.html"]:
        r = client.get(url)
        check(
            r.status_code == 200
            and r.data == b"<html>app</html>"
            and r.headers.get("Content-Type") == "text/html",
            f"web shortcut {url}: {r.status_code} {r.data!r}",
        )

    # ------------------------------------------------------ remote store client
    class Shim:
        """Route the `requests` calls of RemoteStore to the Flask test client."""

        class Resp:
            def __init__(self, r):
                self.r = r
                self.content = r.data
                self.status_code = r.status_code

            def json(self):
                return json.loads(self.r.data)

            def raise_for_status(self):
                if self.status_code >= 400:
                    raise IOError(f"HTTP {self.status_code}")

        @staticmethod
        def get(url):
            return Shim.Resp(client.get(url))

        @staticmethod
        def post(url, json=None, data=None, headers=None):
            if json is not None:
                return Shim.Resp(client.post(url, json=json))
            return Shim.Resp(client.post(url, data=data, headers=headers))

    original_requests = rs.requests
    rs.requests = Shim
    try:
        set_store(MemoryStore())
        store = get_store()
        remote = rs.RemoteStore("/liquer/api/")
        check(remote.keys() == [], "remote keys of empty store")
        with contextlib.redirect_stderr(io.StringIO()):
            remote.store("r/one.txt", b"one", dict(mimetype="text/plain", tag="t1"))
            remote.store("r/sub/two.bin", b"\xff\x00two", {})
        check(store.get_bytes("r/one.txt") == b"one", "remote store: bytes")
        check(store.get_metadata("r/one.txt").get("tag") == "t1", "remote store: metadata")
        check(remote.get_bytes("r/one.txt") == b"one", "remote get_bytes")
        check(remote.get_bytes("r/sub/two.bin") == b"\xff\x00two", "remote get_bytes 2")
        check(remote.openbin("r/one.txt").read() == b"one", "remote open")
        check(remote.keys() == sorted(store.keys()), "remote keys")
        for k in ["r", "r/one.txt", "r/sub", "r/sub/two.bin", "nothing"]:
            check(remote.contains(k) == store.contains(k), f"remote contains {k}")
            check(remote.is_dir(k) == store.is_dir(k), f"remote is_dir {k}")
        check(remote.listdir("r") == store.listdir("r"), "remote listdir")
        rm = remote.get_metadata("r/one.txt")
        sm = store.get_metadata("r/one.txt")
        for field in ["key", "tag", "mimetype", "fileinfo"]:
            check(
                rm.get(field) == jsonable(sm.get(field)),
                f"remote get_metadata field {field}: {rm.get(field)} != {sm.get(field)}",
            )
        remote.store_metadata("r/one.txt", dict(rm, tag="t2"))
        check(store.get_metadata("r/one.txt").get("tag") == "t2", "remote store_metadata")
        check(store.get_bytes("r/one.txt") == b"one", "remote store_metadata changed data")
        remote.makedir("r/newdir")
        check(store.is_dir("r/newdir"), "remote makedir")
        remote.remove("r/sub/two.bin")
        check(not store.contains("r/sub/two.bin"), "remote remove")
        remote.removedir("r/sub")
        check(not store.contains("r/sub"), "remote removedir")
        remote.removedir("r", recursive=True)
        check(not store.contains("r/one.txt"), "remote recursive removedir")
        check(remote.keys() == sorted(store.keys()), "remote keys after removals")
        try:
            remote.get_bytes("r/one.txt")
            check(False, "remote get_bytes of a removed key succeeded")
        except Violation:
            raise
        except Exception:
            pass
        check(rs.RemoteStore.concat_api("store/data", "a/b") == "store/data/a/b", "concat")
        check(rs.RemoteStore.concat_api("store/data", "/a/b") == "store/data/a/b", "concat/")
    finally:
        rs.requests = original_requests

    # ------------------------------------------------------ remote registration
    def remote_hello(x="?"):
        return f"remote says {x}"

    def remote_other():
        return "other"

    def payloads(f):
        from liquer.commands import command_metadata_from_callable

        md = command_metadata_from_callable(
            f, has_state_argument=False, attributes=dict(ns="root")
        )
        reg = command_registry()
        return (
            reg.encode_registration_base64(f, md).decode("ascii"),
            reg.encode_registration(f, md),
        )

    def known(name):
        served = client.get("/liquer/api/commands.json").get_json()
        check(
            served == jsonable(command_registry().as_dict()),
            "commands.json differs from the registry",
        )
        return any(name in commands for commands in served.values())

    b64, raw = payloads(remote_hello)
    b64_other, raw_other = payloads(remote_other)
    quiet = io.StringIO()

    disable_remote_registration()
    check(not is_remote_registration_enabled(), "registration enabled after disable")
    with contextlib.redirect_stdout(quiet), contextlib.redirect_stderr(quiet):
        r1 = client.get("/liquer/api/register_command/" + b64).get_json()
        r2 = client.post("/liquer/api/register_command/", data=raw).get_json()
    for r in (r1, r2):
        check(
            r == dict(message="Remote command registration is disabled.", status="ERROR"),
            f"registration while disabled: {r}",
        )
    check(not known("remote_hello"), "command registered while registration disabled")
    with contextlib.redirect_stderr(quiet):
        check(
            client.get("/liquer/q/remote_hello-1").status_code == 500,
            "unregistered remote command evaluates",
        )

    enable_remote_registration()
    check(is_remote_registration_enabled(), "registration not enabled after enable")
    with contextlib.redirect_stdout(quiet), contextlib.redirect_stderr(quiet):
        r = client.get("/liquer/api/register_command/" + b64).get_json()
    check(
        r
        == dict(
            message="Function remote_hello in namespace root is registered as command",
            status="OK",
        ),
        f"registration while enabled: {r}",
    )
    check(known("remote_hello"), "command not registered while registration enabled")
    r = client.get("/liquer/q/remote_hello-abc/r.txt")
    check(r.status_code == 200 and r.data == b"remote says abc", f"remote command: {r.data!r}")
    with contextlib.redirect_stdout(quiet), contextlib.redirect_stderr(quiet):
        r = client.post("/liquer/api/register_command/", data=b"Bgarbage").get_json()
    check(
        r["status"] == "ERROR" and r["message"] == "Error while registering command",
        f"garbage registration: {r}",
    )

    disable_remote_registration()
    with contextlib.redirect_stdout(quiet), contextlib.redirect_stderr(quiet):
        r = client.post("/liquer/api/register_command/", data=raw_other).get_json()
    check(r["status"] == "ERROR", f"registration after re-disable: {r}")
    check(not known("remote_other"), "command registered after re-disable")

    enable_remote_registration()
    with contextlib.redirect_stdout(quiet), contextlib.redirect_stderr(quiet):
        r = client.post("/liquer/api/register_command/", data=raw_other).get_json()
    check(r["status"] == "OK", f"registration after re-enable: {r}")
    check(known("remote_other"), "command not registered after re-enable")
    check(client.get("/liquer/q/remote_other/o.txt").data == b"other", "remote_other result")
    disable_remote_registration()


if __name__ == "__main__":
    cwd = os.getcwd()
    tmp = tempfile.mkdtemp(prefix="c20check_")
    code = 0
    try:
        os.chdir(tmp)
        noise = io.StringIO()  # the library prints tracebacks of intended failures
        try:
            with contextlib.redirect_stdout(noise), contextlib.redirect_stderr(noise):
                main()
            print("PROPERTY HOLDS")
        except Violation as e:
            print(f"PROPERTY VIOLATED: {e}")
            code = 1
        except Exception as e:
            traceback.print_exc()
            print(f"PROPERTY VIOLATED: unexpected exception {e!r}")
            code = 1
    finally:
        os.chdir(cwd)
        shutil.rmtree(tmp, ignore_errors=True)
    sys.exit(code)
