"""Check of property C17: read-only views refuse writes; directory stores stay in root.

Run as:  cd <repo root> && /venv/bin/python check.py
"""
import os
import sys

sys.path.insert(0, os.getcwd())

import shutil
import tempfile
from pathlib import Path

SENTINEL = b"SENTINEL-CONTENT-do-not-touch"
problems = []


def fail(msg):
    problems.append(msg)


def tree_snapshot(root, exclude=None):
    """Map relative path -> ('d', None) or ('f', bytes) for everything under root except exclude."""
    root = Path(root)
    snap = {}
    for dirpath, dirnames, filenames in os.walk(root):
        d = Path(dirpath)
        if exclude is not None and (d == exclude or exclude in d.parents):
            dirnames[:] = []
            continue
        snap[str(d.relative_to(root))] = ("d", None)
        for fn in filenames:
            p = d / fn
            snap[str(p.relative_to(root))] = ("f", p.read_bytes())
    return snap


def store_snapshot(store):
    snap = {}
    for key in sorted(store.keys()):
        if store.is_dir(key):
            snap[key] = ("d", None)
        else:
            md = dict(store.get_metadata(key))
            snap[key] = ("f", store.get_bytes(key), repr(sorted(md.items(), key=lambda kv: kv[0])))
    return snap


# --------------------------------------------------------------------------
# Part 1: read-only proxy
# --------------------------------------------------------------------------
def check_read_only(make_store, label):
    from liquer.store import ReadOnlyStore, ReadOnlyStoreException

    store = make_store()
    store.store("a/b", b"test", dict(x="xx"))
    store.store("a/c.txt", b"hello", dict(y="yy"))
    store.store("top.bin", b"\x00\x01", {})
    store.makedir("d")
    before = store_snapshot(store)

    for ro in (store.read_only(), ReadOnlyStore(store)):
        mutators = [
            ("store", lambda k: ro.store(k, b"new", dict(z=1))),
            ("store_metadata", lambda k: ro.store_metadata(k, dict(z=1))),
            ("remove", lambda k: ro.remove(k)),
            ("removedir", lambda k: ro.removedir(k)),
            ("removedir-recursive", lambda k: ro.removedir(k, recursive=True)),
            ("makedir", lambda k: ro.makedir(k)),
            ("openbin-w", lambda k: ro.openbin(k, "w")),
            ("openbin-wb", lambda k: ro.openbin(k, "wb")),
            ("openbin-ab", lambda k: ro.openbin(k, "ab")),
            ("openbin-r+b", lambda k: ro.openbin(k, "r+b")),
        ]
        keys = ["a/b", "a", "a/new", "new/deep/key", "top.bin", "d", "", "../x", "a/../b"]
        # a history: interleave all mutators over all keys, twice
        for _round in range(2):
            for key in keys:
                for name, op in mutators:
                    try:
                        r = op(key)
                    except ReadOnlyStoreException:
                        pass
                    except Exception as e:
                        fail(f"[{label}] read-only {name}({key!r}) raised {type(e).__name__}: {e} instead of ReadOnlyStoreException")
                    else:
                        fail(f"[{label}] read-only {name}({key!r}) was not refused")
                        try:
                            r.close()
                        except Exception:
                            pass
                    if store_snapshot(store) != before:
                        fail(f"[{label}] underlying store changed by read-only {name}({key!r})")
                        return

        # reads agree
        for key in ["a/b", "a/c.txt", "top.bin"]:
            if ro.get_bytes(key) != store.get_bytes(key):
                fail(f"[{label}] read-only get_bytes({key!r}) differs")
            if ro.get_metadata(key) != store.get_metadata(key):
                fail(f"[{label}] read-only get_metadata({key!r}) differs")
            for mode in ("r", "rb"):
                with ro.openbin(key, mode) as f:
                    if f.read() != store.get_bytes(key):
                        fail(f"[{label}] read-only openbin({key!r},{mode!r}) differs")
        for key in ["", "a", "d", "a/b", "missing", "a/missing"]:
            if ro.contains(key) != store.contains(key):
                fail(f"[{label}] read-only contains({key!r}) differs")
            if ro.is_dir(key) != store.is_dir(key):
                fail(f"[{label}] read-only is_dir({key!r}) differs")
        for key in ["", "a", "d"]:
            if sorted(ro.listdir(key)) != sorted(store.listdir(key)):
                fail(f"[{label}] read-only listdir({key!r}) differs")
        if sorted(ro.keys()) != sorted(store.keys()):
            fail(f"[{label}] read-only keys() differs")
        if "read only" not in str(ro) or not repr(ro).startswith("ReadOnlyStore("):
            fail(f"[{label}] read-only str/repr changed: {ro} / {ro!r}")
    if store_snapshot(store) != before:
        fail(f"[{label}] underlying store changed after read-only history")


# --------------------------------------------------------------------------
# Part 2: directory store stays in root
# --------------------------------------------------------------------------
def make_arena(tmp):
    """tmp/arena/{sentinel.txt, secret/..., __metadata__/sentinel.txt.json, store/...}"""
    arena = Path(tmp) / "arena"
    root = arena / "store"
    root.mkdir(parents=True)
    (arena / "sentinel.txt").write_bytes(SENTINEL)
    (arena / "__metadata__").mkdir()
    (arena / "__metadata__" / "sentinel.txt.json").write_bytes(b'{"sentinel": true}')
    (arena / "secret").mkdir()
    (arena / "secret" / "inner.txt").write_bytes(SENTINEL)
    (arena / "secret" / "__metadata__").mkdir()
    (arena / "store.json").write_bytes(SENTINEL)
    (arena / "emptydir").mkdir()
    return arena, root


def escaping_keys(prefix=""):
    ks = [
        "..",
        "../sentinel.txt",
        "../secret",
        "../secret/inner.txt",
        "../emptydir",
        "../newfile.txt",
        "../newdir/newfile.txt",
        "sub/../../sentinel.txt",
        "sub/../../secret",
        "sub/../../newfile2.txt",
        "./../sentinel.txt",
        "sub//../../sentinel.txt",
        "../../arena/sentinel.txt",
        "../__metadata__/sentinel.txt.json",
        "../__metadata__",
        "sub/../..",
        "../store.json",
    ]
    return [prefix + k for k in ks]


def contains_sentinel(value):
    if isinstance(value, (bytes, bytearray)):
        return SENTINEL in bytes(value)
    if isinstance(value, str):
        return SENTINEL.decode() in value
    return False


def run_store_ops(store, key, label, outside_names, may_be_inside=False):
    """Run every store operation with the key; report reads that leak outside content.
    With may_be_inside the key may legitimately address something inside the root."""
    def op_get_bytes():
        r = store.get_bytes(key)
        if contains_sentinel(r):
            fail(f"[{label}] get_bytes({key!r}) returned content from outside the root")

    def op_get_metadata():
        r = store.get_metadata(key)
        if isinstance(r, dict) and r.get("sentinel"):
            fail(f"[{label}] get_metadata({key!r}) returned metadata from outside the root")

    def op_contains():
        r = store.contains(key)
        if r is True and not may_be_inside:
            fail(f"[{label}] contains({key!r}) is True for a key outside the root")

    def op_is_dir():
        r = store.is_dir(key)
        if r is True and not may_be_inside:
            fail(f"[{label}] is_dir({key!r}) is True for a key outside the root")

    def op_listdir():
        r = store.listdir(key)
        if r and set(r) & outside_names:
            fail(f"[{label}] listdir({key!r}) listed outside the root: {r}")

    def op_keys():
        try:
            r = list(store.keys(key))
        except TypeError:
            return
        if any(k.split("/")[-1] in outside_names for k in r):
            fail(f"[{label}] keys({key!r}) listed outside the root: {r}")

    def op_openbin_r():
        with store.openbin(key, "r") as f:
            if contains_sentinel(f.read()):
                fail(f"[{label}] openbin({key!r}) read content from outside the root")

    def op_openbin_w():
        with store.openbin(key, "w") as f:
            f.write(b"overwritten")

    ops = [
        ("get_bytes", op_get_bytes),
        ("get_metadata", op_get_metadata),
        ("contains", op_contains),
        ("is_dir", op_is_dir),
        ("listdir", op_listdir),
        ("keys", op_keys),
        ("openbin-r", op_openbin_r),
        ("store", lambda: store.store(key, b"overwritten", dict(x=1))),
        ("store_metadata", lambda: store.store_metadata(key, dict(x=1))),
        ("makedir", lambda: store.makedir(key)),
        ("openbin-w", op_openbin_w),
        ("remove", lambda: store.remove(key)),
        ("removedir", lambda: store.removedir(key)),
        ("removedir-recursive", lambda: store.removedir(key, recursive=True)),
    ]
    for name, op in ops:
        try:
            op()
        except Exception:
            pass
        yield name


def check_directory_store():
    from liquer.store import FileStore, MountPointStore, MemoryStore, KeyNotSupportedStoreException

    outside_names = {"sentinel.txt", "secret", "store.json", "emptydir", "inner.txt", "arena", "store"}

    # (a) directly
    tmp = tempfile.mkdtemp(prefix="c17check_")
    try:
        arena, root = make_arena(tmp)
        store = FileStore(str(root))
        store.store("sub/x.txt", b"inside", dict(a=1))
        store.store("y.txt", b"inside-y", {})
        outside_before = tree_snapshot(tmp, exclude=root)
        for key in escaping_keys():
            for name in run_store_ops(store, key, "direct", outside_names):
                if tree_snapshot(tmp, exclude=root) != outside_before:
                    fail(f"[direct] {name}({key!r}) changed the file system outside the store root")
                    return
        # inside keys with odd components still resolve inside the root / are refused, never outside
        for key in ["/sub/x.txt", "/", "//", "sub//x.txt", "./y.txt", "sub/./x.txt", "sub/", "",
                    "__metadata__", "sub/__metadata__", "sub/__metadata__/x.txt.json", "/../sentinel.txt",
                    "/" + str(arena / "sentinel.txt").lstrip("/"), str(arena / "sentinel.txt")]:
            for name in run_store_ops(store, key, "direct-odd", outside_names, may_be_inside=True):
                if tree_snapshot(tmp, exclude=root) != outside_before:
                    fail(f"[direct-odd] {name}({key!r}) changed the file system outside the store root")
                    return
        # explicit refusal for the plainest escaping key
        for op in (lambda: store.get_bytes("../sentinel.txt"),
                   lambda: store.store("../newfile.txt", b"x", {}),
                   lambda: store.remove("../sentinel.txt"),
                   lambda: store.path_for_key("a/../../b"),
                   lambda: store.metadata_path_for_key("../b"),
                   lambda: store.metadata_path_for_key(""),
                   lambda: store.metadata_path_for_key(None),
                   lambda: store.path_for_key("/abs")):
            try:
                op()
            except KeyNotSupportedStoreException:
                pass
            except Exception as e:
                fail(f"[direct] escaping key raised {type(e).__name__} instead of KeyNotSupportedStoreException")
            else:
                fail("[direct] escaping key was accepted")
        if store.path_for_key("") != Path(root) or store.path_for_key(None) != Path(root):
            fail("[direct] path_for_key of the root key is not the root")
        if store.path_for_key("a/b") != Path(root) / "a/b":
            fail("[direct] path_for_key('a/b') changed")
        if store.metadata_path_for_key("a/b") != Path(root) / "a" / "__metadata__" / "b.json":
            fail("[direct] metadata_path_for_key('a/b') changed")
        # a fresh store still works normally
        fresh = FileStore(str(Path(tmp) / "fresh"))
        fresh.store("p/q.txt", b"data", dict(m=1))
        if fresh.get_bytes("p/q.txt") != b"data" or fresh.get_metadata("p/q.txt").get("m") != 1:
            fail("[direct] ordinary store/get round trip broken")
        if sorted(fresh.keys()) != ["p", "p/q.txt"]:
            fail(f"[direct] ordinary keys() broken: {sorted(fresh.keys())}")
        if not (Path(tmp) / "fresh" / "p" / "__metadata__" / "q.txt.json").exists():
            fail("[direct] on-disk metadata layout changed")
    finally:
        shutil.rmtree(tmp, ignore_errors=True)

    # (b) through a mount
    tmp = tempfile.mkdtemp(prefix="c17check_")
    try:
        arena, root = make_arena(tmp)
        fs = FileStore(str(root))
        mp = MountPointStore(MemoryStore())
        mp.mount("m", fs)
        mp.store("m/sub/x.txt", b"inside", dict(a=1))
        if not (root / "sub" / "x.txt").exists():
            fail("[mount] store through mount did not land in the root")
        outside_before = tree_snapshot(tmp, exclude=root)
        for key in escaping_keys("m/"):
            for name in run_store_ops(mp, key, "mount", outside_names):
                if tree_snapshot(tmp, exclude=root) != outside_before:
                    fail(f"[mount] {name}({key!r}) changed the file system outside the store root")
                    return
        for key in ["m/" + k for k in ("/x", "", "__metadata__", "./sub/x.txt")]:
            for name in run_store_ops(mp, key, "mount-odd", outside_names, may_be_inside=True):
                if tree_snapshot(tmp, exclude=root) != outside_before:
                    fail(f"[mount] {name}({key!r}) changed the file system outside the store root")
                    return
    finally:
        shutil.rmtree(tmp, ignore_errors=True)

    # (c) through the resource part of a query
    import liquer.store as st
    from liquer.query import evaluate
    from liquer.cache import set_cache, NoCache
    from liquer.state import State

    tmp = tempfile.mkdtemp(prefix="c17check_")
    old_store = st.STORE
    try:
        arena, root = make_arena(tmp)
        fs = FileStore(str(root))
        mp = MountPointStore(MemoryStore())
        mp.mount("m", fs)
        mp.store("m/sub/x.txt", b"inside", dict(a=1))
        st.set_store(mp)
        set_cache(NoCache())
        outside_before = tree_snapshot(tmp, exclude=root)
        ok = evaluate("-R/m/sub/x.txt")
        if ok.get() != b"inside":
            fail(f"[query] ordinary resource query broken: {ok.get()!r}")
        for q in ["-R/m/../sentinel.txt", "-R/m/sub/../../sentinel.txt", "-R/m/../secret/inner.txt",
                  "m/../sentinel.txt/-/", "-R-meta/m/../sentinel.txt", "-R/m/./../store.json",
                  "-R/m/../__metadata__/sentinel.txt.json", "-R/m/.."]:
            try:
                state = evaluate(q)
                data = state.data if isinstance(state, State) else None
                if contains_sentinel(data):
                    fail(f"[query] {q!r} returned content from outside the root")
                if isinstance(data, dict) and data.get("sentinel"):
                    fail(f"[query] {q!r} returned metadata from outside the root")
                if isinstance(data, dict) and "sentinel.txt" in str(data.get("fileinfo", {}).get("filesystem_path", "")):
                    fail(f"[query] {q!r} returned file info from outside the root")
            except Exception:
                pass
            if tree_snapshot(tmp, exclude=root) != outside_before:
                fail(f"[query] {q!r} changed the file system outside the store root")
                return
    finally:
        st.set_store(old_store)
        shutil.rmtree(tmp, ignore_errors=True)


def check_parser():
    from liquer.parser import parse

    q = parse("-R/a/../b/./c.txt")
    if not q.is_resource_query():
        fail("[parser] '-R/a/../b/./c.txt' is not a resource query")
    elif q.resource_query().path() != "a/../b/./c.txt":
        fail(f"[parser] resource path changed: {q.resource_query().path()!r}")
    elif q.encode() != "-R/a/../b/./c.txt":
        fail(f"[parser] resource query encoding changed: {q.encode()!r}")
    names = [(x.name, x.position.offset) for x in q.resource_query().query]
    if names != [("a", 3), ("..", 5), ("b", 8), (".", 10), ("c.txt", 12)]:
        fail(f"[parser] resource names/positions changed: {names}")


def main():
    from liquer.store import FileStore, MemoryStore

    check_read_only(MemoryStore, "memory")
    tmp = tempfile.mkdtemp(prefix="c17check_")
    try:
        check_read_only(lambda: FileStore(str(Path(tmp) / "ro")), "file")
    finally:
        shutil.rmtree(tmp, ignore_errors=True)
    check_directory_store()
    check_parser()

    if problems:
        print("PROPERTY VIOLATED: " + "; ".join(problems[:10]))
        return 1
    print("PROPERTY HOLDS")
    return 0


if __name__ == "__main__":
    try:
        rc = main()
    except Exception as e:
        import traceback

        traceback.print_exc()
        print(f"PROPERTY VIOLATED: check crashed with {type(e).__name__}: {e}")
        rc = 1
    sys.exit(rc)
