"""Standalone check of property C06 (error containment) through the public API.

Run as:  cd <repo root> && /venv/bin/python check.py
Prints "PROPERTY HOLDS" and exits 0, or "PROPERTY VIOLATED: ..." and exits 1.
"""
import contextlib
import io
import os
import shutil
import sys
import tempfile

sys.path.insert(0, os.getcwd())

VERBOSE = "-v" in sys.argv


class Violation(Exception):
    pass


def main():
    import logging

    logging.disable(logging.CRITICAL)

    from liquer import command, first_command, evaluate
    from liquer.commands import reset_command_registry
    from liquer.cache import set_cache, NoCache, MemoryCache, FileCache
    from liquer.state import vars_clone
    import liquer.store as st

    tmpdir = tempfile.mkdtemp(prefix="c06check_")
    calls = []

    def setup(cache):
        reset_command_registry()
        st.set_store(st.MemoryStore())
        st.get_store().store("a/b", b"hello", {})
        set_cache(cache)
        del calls[:]

        @first_command
        def start(x="s"):
            calls.append("start")
            return "start" + str(x)

        @command
        def add(data, y="_"):
            calls.append("add")
            return str(data) + str(y)

        @command
        def num(data, n: int = 0):
            calls.append("num")
            return str(data) + "#" + str(n)

        @command
        def boom(data):
            calls.append("boom")
            raise Exception("boom raised")

        @first_command
        def fboom():
            calls.append("fboom")
            raise Exception("fboom raised")

        @command
        def after(data, z="z"):
            calls.append("after")
            return str(data) + "|after" + str(z)

    def run(query):
        """Return (outcome, exception, state).  outcome in 'value', 'error-state', 'raised'."""
        buf = io.StringIO()
        with contextlib.redirect_stdout(buf), contextlib.redirect_stderr(buf):
            try:
                state = evaluate(query)
            except Exception as e:  # the evaluation call itself raises
                return "raised", e, None
            try:
                value = state.get()
            except Exception as e:
                return "error-state", e, state
            return "value", value, state

    # (query, marker whose offset in the query is the expected failure position,
    #  commands that must never run, kind)
    # marker None -> position is not checked (e.g. missing resource has no action position)
    failing = [
        # a command raises
        ("start/boom", "boom", [], "raises"),
        ("start/boom/after", "boom", ["after"], "raises"),
        ("start/add-1/boom/after/after-2/after-3", "boom", ["after"], "raises"),
        ("fboom/after", "fboom", ["after"], "raises"),
        ("a/b/-/boom/after", "boom", ["after"], "raises"),
        # unknown command
        ("start/undefined_cmd", "undefined_cmd", [], "unknown"),
        ("start/undefined_cmd/after", "undefined_cmd", ["after"], "unknown"),
        ("undefined_cmd/after/after-1", "undefined_cmd", ["after"], "unknown"),
        ("a/b/-/undefined_cmd/after", "undefined_cmd", ["after"], "unknown"),
        # argument which can't be converted
        ("start/num-abc", "num-abc", [], "convert"),
        ("start/num-abc/after", "num-abc", ["after", "num"], "convert"),
        ("start/add-1/num-abc/after/after-2", "num-abc", ["after", "num"], "convert"),
        # too many arguments
        ("start/add-1-2", "add-1-2", [], "toomany"),
        ("start/add-1-2/after", "add-1-2", ["after"], "toomany"),
        ("start/add-1/add-3-extra/after/after", "add-3-extra", ["after"], "toomany"),
        # failing nested link (relative and absolute), various depths
        ("start/add-~X~boom~E", "~X~boom~E", [], "link"),
        ("start/add-~X~boom~E/after", "~X~boom~E", ["after"], "link"),
        ("start/add-~X~/start/boom~E/after", "~X~/start/boom~E", ["after"], "link"),
        ("start/add-~X~/start/undefined_cmd~E/after-1/after-2", "~X~/start/undefined_cmd~E", ["after"], "link"),
        ("start/add-~X~add-~X~/start/boom~E~E/after", "~X~add-~X~/start/boom~E~E", ["after"], "deeplink"),
        ("start/add-~X~/start/add-~X~/start/add-~X~/fboom~E~E~E/after-1", "~X~", ["after"], "deeplink"),
        ("start/add-~X~/start/num-abc/add-1~E/after", "~X~/start/num-abc/add-1~E", ["after"], "link"),
        ("start/add-~X~/start/add-1-2-3~E/after", "~X~/start/add-1-2-3~E", ["after"], "link"),
        # missing resource
        ("a/missing/-/after", None, ["after"], "missing"),
        ("a/missing/-/add-1/after", None, ["after", "add"], "missing"),
        ("start/add-~X~/a/missing/-/add-1~E/after", "~X~/a/missing/-/add-1~E", ["after"], "link"),
    ]

    # too few arguments
    def setup_few(cache):
        setup(cache)
        from liquer import command

        @command
        def need(data, required):
            calls.append("need")
            return str(data) + str(required)

    few = [
        ("start/need", "need", ["need"], "toofew"),
        ("start/need/after", "need", ["after", "need"], "toofew"),
        ("start/add-1/need/after/after-3", "need", ["after", "need"], "toofew"),
        ("start/add-~X~/start/need~E/after", "~X~/start/need~E", ["after", "need"], "link"),
    ]

    def caches():
        yield "nocache", NoCache()
        yield "memory", MemoryCache()
        d = tempfile.mkdtemp(prefix="fc_", dir=tmpdir)
        yield "file", FileCache(d)

    def check_failure(cache_name, query, marker, forbidden, kind, round_):
        del calls[:]
        outcome, exc, state = run(query)
        label = f"[{cache_name}/{kind}/run{round_}] {query!r}"
        if VERBOSE:
            print(label, outcome, type(exc).__name__, getattr(exc, "query", "?"),
                  getattr(getattr(exc, "position", None), "offset", "?"), calls)
        if outcome == "value":
            raise Violation(f"{label} returned a normal-looking value {exc!r}")
        if outcome == "error-state" and not state.is_error:
            raise Violation(f"{label} get() raised but state is not marked as error")
        for name in forbidden:
            if name in calls:
                raise Violation(f"{label} executed {name!r} after/at the failing step (calls={calls})")
        if marker is not None:
            q = getattr(exc, "query", None)
            pos = getattr(exc, "position", None)
            if q is None or pos is None:
                raise Violation(f"{label} failure does not carry query/position: {exc!r}")
            if kind == "deeplink":
                # the failure is reported for the (sub)query holding the innermost failing link:
                # it must point at a link argument of the query it names
                # (offsets of links written inside an absolute link are those of the enclosing text)
                if not (q[pos.offset:].startswith("~X~") or query[pos.offset:].startswith("~X~")):
                    raise Violation(f"{label} offset {pos.offset} in {q!r} is not at a link argument")
                return
            expected = query.index(marker)
            # The named query is the query (or the evaluated prefix of it) that failed.
            if not query.startswith(q):
                raise Violation(f"{label} names query {q!r}, which is not (a prefix of) the failing query")
            if pos.offset != expected:
                raise Violation(f"{label} reports offset {pos.offset}, expected {expected} (query named {q!r})")
            if expected >= len(q):
                raise Violation(f"{label} position {expected} outside the named query {q!r}")

    def check_ok(cache_name):
        for query, value in [
            ("start/add-1/after", "starts1|afterz"),
            ("start/add-~X~/start-q~E/after-2", "startsstartq|after2"),
            ("a/b/-/add-1", "b'hello'1"),
        ]:
            outcome, v, state = run(query)
            if outcome != "value" or v != value or state.is_error:
                raise Violation(f"[{cache_name}] sane query {query!r} gave {outcome} {v!r}, expected {value!r}")

    try:
        for setup_f, scenarios in ((setup, failing), (setup_few, few)):
            for cache_name, cache in caches():
                setup_f(cache)
                check_ok(cache_name)
                for query, marker, forbidden, kind in scenarios:
                    # twice: the second run sees whatever the first one left in the cache
                    for round_ in (1, 2):
                        check_failure(cache_name, query, marker, forbidden, kind, round_)
                check_ok(cache_name)
    finally:
        set_cache(NoCache())
        st.set_store(st.MemoryStore())
        reset_command_registry()
        shutil.rmtree(tmpdir, ignore_errors=True)


if __name__ == "__main__":
    try:
        main()
    except Violation as v:
        print("PROPERTY VIOLATED:", v)
        sys.exit(1)
    except Exception as e:
        import traceback

        traceback.print_exc()
        print("PROPERTY VIOLATED: check crashed:", repr(e))
        sys.exit(1)
    print("PROPERTY HOLDS")
    sys.exit(0)
