"""Standalone check of property C20: the web service is a faithful transport of the library.

Run as:  cd <repo root> && /venv/bin/python check.py
"""
import os
import sys

sys.path.insert(0, os.getcwd())

import contextlib
import io
import json
import shutil
import tempfile
import traceback
from urllib.parse import quote

PREFIX = "http://testserver/liquer/api/"


class Violation(Exception):
    pass


def check(cond, msg):
    if not cond:
        raise Violation(msg)


def main():
    import logging

    logging.disable(logging.CRITICAL)

    from flask import Flask
    import liquer.server.blueprint as bp
    from liquer import command, first_command, evaluate
    from liquer.commands import (
        command_registry,
        reset_command_registry,
        enable_remote_registration,
        disable_remote_registration,
        is_remote_registration_enabled,
        command_metadata_from_callable,
    )
    from liquer.state_types import encode_state_data
    from liquer.cache import MemoryCache, set_cache, get_cache
    from liquer.store import (
        MemoryStore,
        FileStore,
        set_store,
        get_store,
        KeyNotFoundStoreException,
        StoreException,
    )
    import liquer.remote_store as remote_store_module
    from liquer.remote_store import RemoteStore

    reset_command_registry()
    set_cache(MemoryCache())
    set_store(MemoryStore())
    disable_remote_registration()

    @first_command
    def hello():
        return "Hello"

    @command
    def greet(greeting, who="world"):
        return f"{greeting}, {who}!"

    @first_command
    def record(a="1", b="x"):
        return dict(a=a, b=b, items=[1, 2, 3])

    @first_command
    def blob():
        return bytes(range(256))

    @first_command
    def extra(value="default"):
        return f"value={value}"

    @first_command
    def failing():
        raise Exception("Intentional failure")

    app = Flask(__name__)
    app.register_blueprint(bp.app, url_prefix="/liquer")
    client = app.test_client()

    # ------------------------------------------------------------------
    # 1. /q/ : same bytes and media type as in-process evaluation
    # ------------------------------------------------------------------
    queries = [
        "hello",
        "hello/greet",
        "hello/greet-everybody",
        "hello/greet-a~_b~.c",
        "hello/greet-x/hello.txt",
        "hello/greet-x/hello.json",
        "hello/greet-x/page.html",
        "record",
        "record-7-yy/data.json",
        "record-7-yy/data.pickle",
        "record-7-yy/data.pkl",
        "blob",
        "blob/data.bin",
        "blob/data.b",
        "extra-abc",
    ]
    inline = [
        "application/json",
        "text/plain",
        "text/html",
        "text/csv",
        "image/png",
        "image/svg+xml",
    ]
    for q in queries:
        try:
            state = evaluate(q)
            expected = encode_state_data(state.get(), extension=state.extension)
        except Exception:
            expected = None
        with contextlib.redirect_stderr(io.StringIO()):
            r = client.get("/liquer/q/" + q)
        if expected is None:
            check(
                r.status_code >= 400,
                f"query {q!r} fails in-process but HTTP status is {r.status_code}",
            )
            continue
        b, mimetype, type_identifier = expected
        check(r.status_code == 200, f"query {q!r}: HTTP status {r.status_code}")
        check(r.data == b, f"query {q!r}: served bytes differ from in-process bytes")
        check(
            r.headers.get("Content-Type") == mimetype,
            f"query {q!r}: Content-Type {r.headers.get('Content-Type')!r} != {mimetype!r}",
        )
        disposition = r.headers.get("Content-Disposition")
        if mimetype in inline:
            check(
                disposition is None,
                f"query {q!r}: unexpected Content-Disposition {disposition!r}",
            )
        else:
            check(
                disposition is not None and disposition.startswith("attachment"),
                f"query {q!r}: missing attachment disposition ({disposition!r})",
            )
            filename = state.metadata.get("filename")
            if filename is not None:
                check(
                    filename in disposition,
                    f"query {q!r}: disposition {disposition!r} lacks filename {filename!r}",
                )

    # extra parameters: URL arguments and JSON body reach the evaluation, URL args win
    r = client.get("/liquer/q/extra?value=fromurl")
    expected = evaluate("extra", extra_parameters=dict(value="fromurl")).get()
    check(
        r.status_code == 200 and r.data.decode("utf-8") == expected,
        f"URL extra parameters not passed faithfully: {r.data!r} vs {expected!r}",
    )
    r = client.post("/liquer/q/extra", data=json.dumps(dict(value="frombody")))
    expected = evaluate("extra", extra_parameters=dict(value="frombody")).get()
    check(
        r.status_code == 200 and r.data.decode("utf-8") == expected,
        f"JSON extra parameters not passed faithfully: {r.data!r} vs {expected!r}",
    )
    r = client.post(
        "/liquer/q/extra?value=fromurl", data=json.dumps(dict(value="frombody"))
    )
    check(
        r.status_code == 200 and r.data.decode("utf-8") == "value=fromurl",
        f"URL argument must override JSON body parameter: {r.data!r}",
    )

    # failing / unknown queries never yield success
    for q in ["failing", "failing/greet-x", "hello/no_such_command", "no_such_command"]:
        with contextlib.redirect_stderr(io.StringIO()), contextlib.redirect_stdout(
            io.StringIO()
        ):
            r = client.get("/liquer/q/" + q)
        check(
            r.status_code == 500,
            f"failing query {q!r} returned status {r.status_code} instead of 500",
        )

    # ------------------------------------------------------------------
    # 2. cache endpoints
    # ------------------------------------------------------------------
    set_cache(MemoryCache())
    cache = get_cache()
    evaluate("hello/greet-cached")
    evaluate("record-1-2")
    for q in ["hello", "hello/greet-cached", "record-1-2", "hello/greet-notcached"]:
        r = client.get("/liquer/api/cache/contains/" + q)
        check(r.status_code == 200, f"cache contains status {r.status_code}")
        check(
            r.get_json() == dict(query=q, cached=cache.contains(q)),
            f"cache contains {q!r}: {r.get_json()!r} vs library {cache.contains(q)!r}",
        )
        r = client.get("/liquer/api/cache/meta/" + q)
        m = cache.get_metadata(q)
        if m == False:
            m = dict(query=q, status="not available", cached=False)
        check(
            r.get_json() == json.loads(json.dumps(m)),
            f"cache meta {q!r} differs from library metadata",
        )
        r = client.get("/liquer/api/cache/get/" + q)
        state = cache.get(q)
        if state is None:
            check(
                r.status_code == 404,
                f"cache get of missing {q!r} gave status {r.status_code}",
            )
        else:
            b, mimetype, _ = encode_state_data(state.get(), extension=state.extension)
            check(
                r.status_code == 200
                and r.data == b
                and r.headers.get("Content-Type") == mimetype,
                f"cache get {q!r} differs from the cached state",
            )
    r = client.get("/liquer/api/cache/keys.json")
    check(
        r.get_json() == dict(keys=list(cache.keys())),
        f"cache keys {r.get_json()!r} vs {list(cache.keys())!r}",
    )
    check(len(list(cache.keys())) >= 2, "cache scenario did not cache anything")

    # store_metadata
    meta = dict(query="hello/greet-remote", status="submitted", message="from remote")
    reference = MemoryCache()
    expected_code = reference.store_metadata(dict(meta))
    r = client.post(
        "/liquer/api/cache/meta/hello/greet-remote", data=json.dumps(meta)
    )
    check(
        r.get_json()
        == dict(
            query="hello/greet-remote",
            result=expected_code,
            status="OK",
            message="OK",
            traceback="",
        ),
        f"cache store_metadata reported {r.get_json()!r}",
    )
    check(
        json.loads(json.dumps(cache.get_metadata("hello/greet-remote")))
        == json.loads(json.dumps(reference.get_metadata("hello/greet-remote"))),
        "cache store_metadata had a different effect than the library call",
    )

    class BrokenCache(MemoryCache):
        def store_metadata(self, metadata):
            raise Exception("broken cache")

    set_cache(BrokenCache())
    r = client.post("/liquer/api/cache/meta/hello", data=json.dumps(meta))
    j = r.get_json()
    check(
        j["status"] == "ERROR"
        and j["result"] is False
        and j["message"] == "broken cache"
        and j["query"] == "hello"
        and "broken cache" in j["traceback"],
        f"failing cache store_metadata reported {j!r}",
    )
    set_cache(cache)

    # remove
    reference = MemoryCache()
    for q in ["hello/greet-cached", "hello/greet-notcached"]:
        before = cache.contains(q)
        r = client.get("/liquer/api/cache/remove/" + q)
        j = r.get_json()
        check(j["query"] == q, f"cache remove reported {j!r}")
        check(not cache.contains(q), f"cache remove left {q!r} in the cache")
        if before:
            check(j["removed"] == True, f"cache remove of cached {q!r} reported {j!r}")
        else:
            check(
                j["removed"] == reference.remove(q),
                f"cache remove of missing {q!r} reported {j!r}",
            )
    # clean
    r = client.get("/liquer/api/cache/clean")
    n = len(list(cache.keys()))
    check(
        r.get_json() == dict(status="OK", message=f"Cache cleaned, {n} keys left"),
        f"cache clean reported {r.get_json()!r}",
    )
    check(n == 0, "cache clean did not clean the memory cache")

    # ------------------------------------------------------------------
    # 3. store endpoints (memory store and file store) + RemoteStore client
    # ------------------------------------------------------------------
    class FakeResponse:
        def __init__(self, r):
            self.r = r
            self.content = r.data
            self.status_code = r.status_code

        def json(self):
            return json.loads(self.r.data.decode("utf-8"))

        def raise_for_status(self):
            if self.status_code >= 400:
                raise remote_store_module.requests.HTTPError(
                    f"{self.status_code} error"
                )

    def path_of(url):
        check(url.startswith("http://testserver"), f"unexpected url {url!r}")
        return quote(url[len("http://testserver"):])

    def fake_get(url, **kwargs):
        with contextlib.redirect_stderr(io.StringIO()):
            return FakeResponse(client.get(path_of(url)))

    def fake_post(url, json=None, data=None, headers=None, **kwargs):
        with contextlib.redirect_stderr(io.StringIO()):
            if json is not None:
                return FakeResponse(client.post(path_of(url), json=json))
            return FakeResponse(client.post(path_of(url), data=data, headers=headers))

    original_get = remote_store_module.requests.get
    original_post = remote_store_module.requests.post
    remote_store_module.requests.get = fake_get
    remote_store_module.requests.post = fake_post
    tmpdir = tempfile.mkdtemp(prefix="c20check")
    try:
        for store in [MemoryStore(), FileStore(os.path.join(tmpdir, "store"))]:
            set_store(store)
            name = type(store).__name__

            # POST data, then metadata
            with contextlib.redirect_stderr(io.StringIO()):
                r = client.post("/liquer/api/store/data/a/b.txt", data=b"hello b")
            check(
                r.status_code == 200
                and r.get_json()
                == dict(query="a/b.txt", message="Data stored", status="OK"),
                f"{name}: store data POST reported {r.status_code} {r.get_json()!r}",
            )
            check(store.contains("a/b.txt"), f"{name}: POSTed key is not in the store")
            check(
                store.get_bytes("a/b.txt") == b"hello b",
                f"{name}: POSTed data differ in the store",
            )
            m = store.get_metadata("a/b.txt")
            m["title"] = "Title B"
            m["mimetype"] = "text/x-special"
            r = client.post("/liquer/api/store/metadata/a/b.txt", json=m)
            check(
                r.status_code == 200
                and r.get_json()
                == dict(query="a/b.txt", message="Metadata stored", status="OK"),
                f"{name}: store metadata POST reported {r.get_json()!r}",
            )
            check(
                store.get_metadata("a/b.txt").get("title") == "Title B",
                f"{name}: POSTed metadata are not in the store",
            )
            # overwrite data keeps the metadata previously stored
            r = client.post("/liquer/api/store/data/a/b.txt", data=b"hello again")
            check(r.status_code == 200, f"{name}: second data POST failed")
            check(
                store.get_bytes("a/b.txt") == b"hello again"
                and store.get_metadata("a/b.txt").get("title") == "Title B",
                f"{name}: data overwrite lost data or metadata",
            )

            # GET data and metadata
            r = client.get("/liquer/api/store/data/a/b.txt")
            check(
                r.status_code == 200
                and r.data == store.get_bytes("a/b.txt")
                and r.headers.get("Content-Type")
                == store.get_metadata("a/b.txt").get(
                    "mimetype", "application/octet-stream"
                ),
                f"{name}: store data GET differs from get_bytes/metadata mimetype",
            )
            r = client.get("/liquer/api/store/metadata/a/b.txt")
            check(
                r.get_json() == json.loads(json.dumps(store.get_metadata("a/b.txt"))),
                f"{name}: store metadata GET differs from get_metadata",
            )
            r = client.get("/liquer/api/store/data/a/missing.txt")
            j = r.get_json()
            check(
                r.status_code == 404
                and j["status"] == "ERROR"
                and j["query"] == "a/missing.txt"
                and "Traceback" in j["message"],
                f"{name}: GET of a missing key gave {r.status_code} {j!r}",
            )

            # upload
            r = client.post(
                "/liquer/api/store/upload/a/up.bin",
                data=dict(file=(io.BytesIO(b"\x00\x01\x02uploaded"), "up.bin")),
                content_type="multipart/form-data",
            )
            check(
                r.status_code == 200
                and r.get_json()
                == dict(query="a/up.bin", message="Data stored", size=11, status="OK"),
                f"{name}: upload reported {r.status_code} {r.get_json()!r}",
            )
            check(
                store.get_bytes("a/up.bin") == b"\x00\x01\x02uploaded",
                f"{name}: uploaded data differ in the store",
            )
            r = client.post(
                "/liquer/api/store/upload/a/up2.bin",
                data=dict(other="x"),
                content_type="multipart/form-data",
            )
            check(
                r.status_code == 404
                and r.get_json()
                == dict(
                    query="a/up2.bin",
                    message="Request does not contain 'file'",
                    status="ERROR",
                ),
                f"{name}: upload without file reported {r.status_code} {r.get_json()!r}",
            )
            check(not store.contains("a/up2.bin"), f"{name}: bad upload created a key")
            r = client.post(
                "/liquer/api/store/upload/a/up2.bin",
                data=dict(file=(io.BytesIO(b"zz"), "")),
                content_type="multipart/form-data",
            )
            check(
                r.status_code == 404 and r.get_json()["status"] == "ERROR",
                f"{name}: upload with empty filename reported {r.status_code}",
            )
            check(not store.contains("a/up2.bin"), f"{name}: bad upload created a key")
            r = client.get("/liquer/api/store/upload/a/up2.bin")
            check(
                r.status_code == 200
                and r.headers.get("Content-Type") == "text/html"
                and b"Upload to a/up2.bin" in r.data,
                f"{name}: upload form not served",
            )

            # queries on the store
            r = client.get("/liquer/api/store/makedir/d/e")
            check(
                r.get_json()
                == dict(query="d/e", message="Makedir succeeded", status="OK"),
                f"{name}: makedir reported {r.get_json()!r}",
            )
            check(store.is_dir("d/e"), f"{name}: makedir did not create a directory")
            for key in ["a", "a/b.txt", "a/up.bin", "d", "d/e", "nothing", "a/nothing"]:
                r = client.get("/liquer/api/store/contains/" + key)
                check(
                    r.get_json()
                    == dict(
                        query=key,
                        message=f"Contains {key}",
                        contains=store.contains(key),
                        status="OK",
                    ),
                    f"{name}: contains {key!r} reported {r.get_json()!r}",
                )
                r = client.get("/liquer/api/store/is_dir/" + key)
                check(
                    r.get_json()
                    == dict(
                        query=key,
                        message=f"Is directory {key}",
                        is_dir=store.is_dir(key),
                        status="OK",
                    ),
                    f"{name}: is_dir {key!r} reported {r.get_json()!r}",
                )
            for key in ["a", "d", "d/e"]:
                r = client.get("/liquer/api/store/listdir/" + key)
                check(
                    r.get_json()
                    == dict(
                        query=key,
                        message="Keys obtained",
                        listdir=store.listdir(key),
                        status="OK",
                    ),
                    f"{name}: listdir {key!r} reported {r.get_json()!r}",
                )
            r = client.get("/liquer/api/store/keys")
            check(
                r.get_json()
                == dict(
                    query=None,
                    message="Keys obtained",
                    keys=list(store.keys()),
                    status="OK",
                ),
                f"{name}: keys reported {r.get_json()!r}",
            )

            # RemoteStore client driven against the served store
            remote = RemoteStore(PREFIX)
            check(
                remote.keys() == sorted(store.keys()),
                f"{name}: RemoteStore.keys differs",
            )
            for key in ["a", "a/b.txt", "d/e", "nothing"]:
                check(
                    remote.contains(key) == store.contains(key),
                    f"{name}: RemoteStore.contains({key!r}) differs",
                )
                check(
                    remote.is_dir(key) == store.is_dir(key),
                    f"{name}: RemoteStore.is_dir({key!r}) differs",
                )
            check(
                remote.listdir("a") == store.listdir("a"),
                f"{name}: RemoteStore.listdir differs",
            )
            check(
                remote.get_bytes("a/b.txt") == store.get_bytes("a/b.txt"),
                f"{name}: RemoteStore.get_bytes differs",
            )
            rm = remote.get_metadata("a/b.txt")
            sm = store.get_metadata("a/b.txt")
            for k in ["key", "title", "mimetype", "fileinfo"]:
                check(
                    rm.get(k) == json.loads(json.dumps(sm.get(k))),
                    f"{name}: RemoteStore.get_metadata differs in {k!r}",
                )
            with contextlib.redirect_stderr(io.StringIO()):
                remote.store("r/new.txt", b"remote data", dict(title="Remote"))
            check(
                store.get_bytes("r/new.txt") == b"remote data"
                and store.get_metadata("r/new.txt").get("title") == "Remote",
                f"{name}: RemoteStore.store did not reach the served store",
            )
            remote.store_metadata(
                "r/new.txt", dict(store.get_metadata("r/new.txt"), title="Remote 2")
            )
            check(
                store.get_metadata("r/new.txt").get("title") == "Remote 2",
                f"{name}: RemoteStore.store_metadata did not reach the served store",
            )
            check(
                remote.openbin("r/new.txt").read() == b"remote data",
                f"{name}: RemoteStore.open differs",
            )
            remote.makedir("r/sub")
            check(store.is_dir("r/sub"), f"{name}: RemoteStore.makedir had no effect")
            try:
                remote.get_bytes("r/missing.txt")
                check(False, f"{name}: RemoteStore.get_bytes of missing key succeeded")
            except Violation:
                raise
            except Exception:
                pass
            remote.removedir("r/sub")
            check(
                not store.contains("r/sub"), f"{name}: RemoteStore.removedir no effect"
            )
            remote.remove("r/new.txt")
            check(
                not store.contains("r/new.txt"), f"{name}: RemoteStore.remove no effect"
            )
            remote.removedir("r", recursive=True)

            # remove / removedir endpoints
            r = client.get("/liquer/api/store/remove/a/up.bin")
            check(
                r.get_json()
                == dict(query="a/up.bin", message="Removed a/up.bin", status="OK"),
                f"{name}: remove reported {r.get_json()!r}",
            )
            check(not store.contains("a/up.bin"), f"{name}: remove had no effect")
            r = client.get("/liquer/api/store/removedir/d/e")
            check(
                r.get_json()
                == dict(query="d/e", message="Removed directory d/e", status="OK"),
                f"{name}: removedir reported {r.get_json()!r}",
            )
            check(not store.contains("d/e"), f"{name}: removedir had no effect")

            # errors of the store are reported, not swallowed as success
            class Broken(type(store)):
                def _fail(self, *a, **k):
                    raise StoreException("broken store")

                remove = removedir = contains = is_dir = keys = listdir = _fail
                makedir = store = store_metadata = get_bytes = _fail

            broken = Broken.__new__(Broken)
            broken.__dict__.update(store.__dict__)
            set_store(broken)
            for path in [
                "remove/a/b.txt",
                "removedir/a",
                "contains/a",
                "is_dir/a",
                "keys",
                "listdir/a",
                "makedir/x",
            ]:
                r = client.get("/liquer/api/store/" + path)
                j = r.get_json()
                check(
                    j["status"] == "ERROR" and "broken store" in j["message"],
                    f"{name}: failing {path} reported {j!r}",
                )
            r = client.get("/liquer/api/store/data/a/b.txt")
            check(
                r.status_code == 404 and r.get_json()["status"] == "ERROR",
                f"{name}: failing get_bytes gave {r.status_code}",
            )
            r = client.post("/liquer/api/store/data/a/b.txt", data=b"x")
            check(
                r.status_code in (404, 500),
                f"{name}: failing store gave {r.status_code}",
            )
            r = client.post("/liquer/api/store/metadata/a/b.txt", json=dict(a=1))
            check(
                r.status_code == 404 and r.get_json()["status"] == "ERROR",
                f"{name}: failing store_metadata gave {r.status_code}",
            )
            r = client.post(
                "/liquer/api/store/upload/a/b.txt",
                data=dict(file=(io.BytesIO(b"zz"), "b.txt")),
                content_type="multipart/form-data",
            )
            check(
                r.status_code in (404, 500),
                f"{name}: failing upload gave {r.status_code}",
            )
            class WriteBroken(type(store)):
                def _fail(self, *a, **k):
                    raise StoreException("broken write")

                store = store_metadata = _fail

            write_broken = WriteBroken.__new__(WriteBroken)
            write_broken.__dict__.update(store.__dict__)
            set_store(write_broken)
            r = client.post("/liquer/api/store/data/a/b.txt", data=b"x")
            check(
                r.status_code == 404
                and r.get_json()["status"] == "ERROR"
                and r.get_json()["query"] == "a/b.txt"
                and "broken write" in r.get_json()["message"],
                f"{name}: failing store.store gave {r.status_code}",
            )
            r = client.post("/liquer/api/store/metadata/a/b.txt", json=dict(a=1))
            check(
                r.status_code == 404
                and r.get_json()["status"] == "ERROR"
                and r.get_json()["query"] == "a/b.txt"
                and "broken write" in r.get_json()["message"],
                f"{name}: failing store.store_metadata gave {r.status_code}",
            )
            r = client.post(
                "/liquer/api/store/upload/a/b.txt",
                data=dict(file=(io.BytesIO(b"zz"), "b.txt")),
                content_type="multipart/form-data",
            )
            check(
                r.status_code == 404
                and r.get_json()["status"] == "ERROR"
                and "broken write" in r.get_json()["message"],
                f"{name}: failing upload (store.store) gave {r.status_code}",
            )
            set_store(broken)
            for method in ["remove", "contains", "is_dir", "listdir", "makedir"]:
                try:
                    getattr(remote, method)("a")
                    check(False, f"{name}: RemoteStore.{method} hid a store failure")
                except StoreException as e:
                    check(
                        "broken store" in str(e),
                        f"{name}: RemoteStore.{method} lost the error message",
                    )
            try:
                remote.keys()
                check(False, f"{name}: RemoteStore.keys hid a store failure")
            except StoreException:
                pass
            try:
                remote.removedir("a")
                check(False, f"{name}: RemoteStore.removedir hid a store failure")
            except StoreException:
                pass
            set_store(store)
            check(
                store.get_bytes("a/b.txt") == b"hello again",
                f"{name}: failing calls modified the store",
            )
    finally:
        remote_store_module.requests.get = original_get
        remote_store_module.requests.post = original_post
        shutil.rmtree(tmpdir, ignore_errors=True)

    # ------------------------------------------------------------------
    # 4. remote registration gate
    # ------------------------------------------------------------------
    def make_payload(name):
        def f():
            return "remote result"

        f.__name__ = name
        f.__qualname__ = name
        metadata = command_metadata_from_callable(
            f, has_state_argument=False, attributes=dict(ns="root")
        )
        return (
            type(command_registry()).encode_registration(f, metadata),
            type(command_registry()).encode_registration_base64(f, metadata),
            metadata.attributes.get("ns", "root"),
        )

    def registered(name):
        return any(c["name"] == name for c in command_registry().as_dict()["root"].values())

    def quiet_post(data):
        with contextlib.redirect_stdout(io.StringIO()), contextlib.redirect_stderr(
            io.StringIO()
        ):
            return client.post("/liquer/api/register_command/", data=data)

    def quiet_get(data):
        with contextlib.redirect_stdout(io.StringIO()), contextlib.redirect_stderr(
            io.StringIO()
        ):
            return client.get("/liquer/api/register_command/" + data.decode("ascii"))

    disabled_reply = dict(
        message="Remote command registration is disabled.", status="ERROR"
    )
    history = [
        (False, "remote_a", quiet_post, 0),
        (False, "remote_b", quiet_get, 1),
        (True, "remote_c", quiet_post, 0),
        (True, "remote_d", quiet_get, 1),
        (False, "remote_e", quiet_post, 0),
        (True, "remote_f", quiet_post, 1),
        (False, "remote_g", quiet_get, 1),
    ]
    for enabled, name, send, which in history:
        if enabled:
            enable_remote_registration()
        else:
            disable_remote_registration()
        check(
            is_remote_registration_enabled() == enabled,
            "is_remote_registration_enabled does not follow enable/disable",
        )
        payload = make_payload(name)[which]
        ns = make_payload(name)[2]
        j = send(payload).get_json()
        if enabled:
            check(
                j
                == dict(
                    message=f"Function {name} in namespace {ns} is registered as command",
                    status="OK",
                ),
                f"registration of {name} while enabled reported {j!r}",
            )
            check(registered(name), f"{name} not registered although enabled")
            r = client.get("/liquer/q/" + name)
            check(
                r.status_code == 200 and r.data == b"remote result",
                f"remotely registered command {name} not usable",
            )
        else:
            check(
                j == disabled_reply,
                f"registration of {name} while disabled reported {j!r}",
            )
            check(
                not registered(name), f"{name} was registered although gate is disabled"
            )
            with contextlib.redirect_stderr(io.StringIO()), contextlib.redirect_stdout(
                io.StringIO()
            ):
                r = client.get("/liquer/q/" + name)
            check(
                r.status_code == 500,
                f"unregistered command {name} gave status {r.status_code}",
            )
    # garbage payload while enabled: error, nothing registered
    enable_remote_registration()
    j = quiet_post(b"Bgarbage").get_json()
    check(
        j["status"] == "ERROR"
        and j["message"] == "Error while registering command"
        and "traceback" in j,
        f"garbage registration payload reported {j!r}",
    )
    disable_remote_registration()
    j = quiet_post(b"Bgarbage").get_json()
    check(j == disabled_reply, f"garbage payload while disabled reported {j!r}")


if __name__ == "__main__":
    noise = io.StringIO()
    try:
        with contextlib.redirect_stdout(noise), contextlib.redirect_stderr(noise):
            main()
    except Violation as e:
        print(f"PROPERTY VIOLATED: {e}")
        sys.exit(1)
    except Exception as e:
        sys.stderr.write(noise.getvalue()[-3000:])
        traceback.print_exc()
        print(f"PROPERTY VIOLATED: unexpected exception {type(e).__name__}: {e}")
        sys.exit(1)
    print("PROPERTY HOLDS")
    sys.exit(0)
