"""Standalone check of property C10 (evaluation isolation).

Run as:  cd <repo root> && /venv/bin/python check.py
"""
import os
import sys

sys.path.insert(0, os.getcwd())

import shutil
import tempfile
import io
import contextlib

PROBLEMS = []


def expect(cond, message):
    if not cond:
        PROBLEMS.append(message)


def run_scenarios(cache_name, make_cache):
    import liquer.state as st
    from liquer import evaluate, command, first_command
    from liquer.cache import set_cache
    from liquer.commands import reset_command_registry
    from liquer.state import set_var, vars_clone

    reset_command_registry()
    import importlib

    if "liquer.ext.basic" in sys.modules:
        importlib.reload(sys.modules["liquer.ext.basic"])  # re-register let, state_variable
    else:
        import liquer.ext.basic

    st._vars = None
    cache = make_cache()
    set_cache(cache)

    counters = dict(mklist=0, mkdict=0)

    @first_command
    def mklist():
        counters["mklist"] += 1
        return [1, 2, 3]

    @first_command
    def mkdict():
        counters["mkdict"] += 1
        return dict(a=[1], b=dict(c=2))

    @command
    def push(data, value=99):
        data.append(int(value))  # in-place mutation of the input
        return data

    @command
    def poison(data):
        data["a"].append("X")  # nested in-place mutation
        data["b"]["c"] = "changed"
        data["new"] = True
        return len(data)

    @command
    def total(data):
        return sum(data)

    @command
    def spoil_var(state, name):
        v = state.vars.get(name)
        v.append("spoiled")  # in-place mutation of a mutable variable value
        return state.with_data(list(v))

    @command
    def ctx_spoil_var(data, name, context=None):
        v = context.vars.get(name)
        v.append("ctx-spoiled")
        context.vars.extra_var = "extra"
        return list(v)

    @command
    def show_var(state, name):
        return state.with_data(state.vars.get(name))

    @command
    def ctx_show_var(data, name, context=None):
        return context.vars.get(name)

    tag = f"[{cache_name}] "

    # --- configured defaults -------------------------------------------------
    set_var("greeting", "hello")
    set_var("mlist", ["d1", "d2"])
    defaults_before = vars_clone()

    # 1. variables are visible to the right only and do not leak between evaluations
    expect(evaluate("state_variable-abc").get() is None, tag + "abc defined before any let")
    expect(
        evaluate("let-abc-1/state_variable-abc").get() == "1",
        tag + "let not visible to the right",
    )
    expect(
        evaluate("state_variable-abc").get() is None,
        tag + "let leaked into a later evaluation",
    )
    expect(
        evaluate("state_variable-abc/let-abc-7").get() is None,
        tag + "let visible to the left",
    )
    expect(
        evaluate("let-abc-1/let-abc-2/state_variable-abc").get() == "2",
        tag + "later let does not override earlier",
    )
    expect(
        evaluate("let-abc-1/state_variable-abc").get() == "1",
        tag + "re-evaluation of let query differs",
    )
    expect(
        evaluate("state_variable-greeting").get() == "hello",
        tag + "default not visible",
    )
    expect(
        evaluate("let-greeting-bye/state_variable-greeting").get() == "bye",
        tag + "let does not override default",
    )
    expect(
        evaluate("state_variable-greeting").get() == "hello",
        tag + "default overridden by earlier evaluation",
    )
    s = evaluate("let-zzz-5/mklist")
    expect(s.vars.get("zzz") == "5", tag + "vars missing in returned state")
    s2 = evaluate("mklist")
    expect("zzz" not in s2.vars, tag + "zzz leaked into plain mklist state vars")
    expect(
        evaluate("mklist/ctx_show_var-zzz").get() is None,
        tag + "zzz leaked into context vars",
    )
    expect(
        evaluate("let-zzz-5/mklist/ctx_show_var-zzz").get() == "5",
        tag + "context vars do not see let",
    )

    # relative link argument evaluated on the prefix sees prefix variables only
    expect(
        evaluate("let-abc-L/state_variable-abc/let-abc-M/show_var-abc").get() == "M",
        tag + "show_var after second let",
    )

    # 2. in-place mutation of input by a command does not change the cached parent
    base = evaluate("mklist").get()
    expect(base == [1, 2, 3], tag + f"mklist gave {base!r}")
    pushed = evaluate("mklist/push-4").get()
    expect(pushed == [1, 2, 3, 4], tag + f"mklist/push-4 gave {pushed!r}")
    again = evaluate("mklist").get()
    expect(again == [1, 2, 3], tag + f"mklist after push gave {again!r}")
    expect(
        evaluate("mklist/total").get() == 6,
        tag + "total over mklist changed after in-place push",
    )
    expect(
        evaluate("mklist/push-4/push-5").get() == [1, 2, 3, 4, 5],
        tag + "chained push wrong",
    )
    expect(
        evaluate("mklist/push-4").get() == [1, 2, 3, 4],
        tag + "mklist/push-4 changed by the longer query",
    )
    expect(evaluate("mklist").get() == [1, 2, 3], tag + "mklist changed by chained push")

    d0 = evaluate("mkdict")
    expect(d0.get() == dict(a=[1], b=dict(c=2)), tag + "mkdict wrong")
    expect(evaluate("mkdict/poison").get() == 3, tag + "poison result wrong")
    expect(
        evaluate("mkdict").get() == dict(a=[1], b=dict(c=2)),
        tag + "mkdict changed by nested in-place mutation",
    )
    expect(
        d0.get() == dict(a=[1], b=dict(c=2)),
        tag + "previously returned state changed by a later command",
    )

    # 3. caller mutates returned data / metadata
    mklist_runs = counters["mklist"]
    r1 = evaluate("mklist/push-4")
    r1.data.append("junk")
    r1.metadata["vars"]["injected"] = "yes"
    r1.metadata["attributes"]["Injected"] = True
    r1.metadata["query"] = "garbage"
    r1.vars["greeting"] = "mutated"
    r2 = evaluate("mklist/push-4")
    expect(r2.get() == [1, 2, 3, 4], tag + f"served value after caller mutation: {r2.data!r}")
    expect("injected" not in r2.vars, tag + "caller's metadata mutation served later")
    expect(r2.vars.get("greeting") == "hello", tag + "caller's vars mutation served later")
    expect(r2.query == "mklist/push-4", tag + "caller's query mutation served later")
    expect("Injected" not in r2.metadata["attributes"], tag + "caller's attribute served later")
    r2.data.clear()
    expect(r1.data == [1, 2, 3, 4, "junk"], tag + "two returned states share data")
    expect(
        evaluate("mklist/push-4/total").get() == 10,
        tag + "successor computed from a caller-mutated value",
    )
    if cache_name != "NoCache":
        key = "mklist/push-4"
        c1 = cache.get(key)
        expect(c1 is not None and c1.data == [1, 2, 3, 4], tag + "cache.get wrong after mutation")
        if c1 is not None:
            c1.data.append(0)
            c1.metadata["vars"]["x"] = 1
            c2 = cache.get(key)
            expect(c2.data == [1, 2, 3, 4], tag + "cache.get returns shared data")
            expect("x" not in c2.metadata["vars"], tag + "cache.get returns shared metadata")
        m1 = cache.get_metadata(key)
        if m1 is not None:
            m1["vars"]["y"] = 1
            m1["log"].append("junk")
            m2 = cache.get_metadata(key)
            expect("y" not in m2["vars"], tag + "get_metadata returns shared vars")
            expect("junk" not in m2["log"], tag + "get_metadata returns shared log")
        # everything was served from the cache although results were mutated
        expect(
            counters["mklist"] == mklist_runs,
            tag + f"mklist re-executed ({counters['mklist']} != {mklist_runs})",
        )

    # 4. mutable variable values mutated in place
    v = evaluate("spoil_var-mlist").get()
    expect(v == ["d1", "d2", "spoiled"], tag + f"spoil_var gave {v!r}")
    expect(
        evaluate("show_var-mlist").get() == ["d1", "d2"],
        tag + "in-place mutation of a variable value leaked to another evaluation",
    )
    v = evaluate("mklist/ctx_spoil_var-mlist").get()
    expect(v == ["d1", "d2", "ctx-spoiled"], tag + f"ctx_spoil_var gave {v!r}")
    expect(
        evaluate("mklist/ctx_show_var-mlist").get() == ["d1", "d2"],
        tag + "in-place mutation via context.vars leaked",
    )
    expect(
        evaluate("mklist/ctx_show_var-extra_var").get() is None,
        tag + "context variable assignment leaked",
    )
    expect(
        evaluate("mklist/ctx_spoil_var-mlist/show_var-extra_var").get() == "extra",
        tag + "context variable assignment not visible to the right",
    )
    rs = evaluate("show_var-mlist")
    rs.data.append("caller")
    rs.vars["mlist"].append("caller")
    expect(
        evaluate("show_var-mlist").get() == ["d1", "d2"],
        tag + "caller mutation of variable value leaked",
    )
    expect(
        evaluate("spoil_var-mlist").get() == ["d1", "d2", "spoiled"],
        tag + "spoil_var re-evaluation differs",
    )
    expect(vars_clone() == defaults_before, tag + f"defaults changed: {vars_clone()!r}")
    expect(
        st.get_vars() == dict(greeting="hello", mlist=["d1", "d2"]),
        tag + f"_vars changed: {st.get_vars()!r}",
    )
    c = vars_clone()
    c["mlist"].append("q")
    expect(st.get_vars()["mlist"] == ["d1", "d2"], tag + "vars_clone is shallow")

    # 5. data frames
    try:
        import pandas as pd
    except ImportError:
        pd = None
    if pd is not None:

        @first_command
        def mkdf():
            return pd.DataFrame(dict(a=[1, 2, 3], b=[4, 5, 6]))

        @command
        def dfspoil(df):
            df["c"] = df.a + df.b
            df.loc[0, "a"] = 100
            return df

        f0 = evaluate("mkdf")
        f1 = evaluate("mkdf/dfspoil").get()
        expect(list(f1.columns) == ["a", "b", "c"] and f1.a[0] == 100, tag + "dfspoil wrong")
        f2 = evaluate("mkdf").get()
        expect(
            list(f2.columns) == ["a", "b"] and list(f2.a) == [1, 2, 3],
            tag + "data frame changed by in-place mutation",
        )
        expect(list(f0.get().columns) == ["a", "b"], tag + "returned data frame changed")
        f2.loc[1, "b"] = -1
        expect(list(evaluate("mkdf").get().b) == [4, 5, 6], tag + "caller df mutation leaked")

    st._vars = None
    set_cache(None)
    reset_command_registry()


def main():
    from liquer.cache import MemoryCache, NoCache, FileCache

    tmp = tempfile.mkdtemp(prefix="c10check_")
    cwd = os.getcwd()
    try:
        kinds = [
            ("MemoryCache", MemoryCache),
            ("NoCache", NoCache),
            ("FileCache", lambda: FileCache(os.path.join(tmp, "fc"))),
        ]
        for name, factory in kinds:
            sink = io.StringIO()
            try:
                with contextlib.redirect_stdout(sink), contextlib.redirect_stderr(sink):
                    run_scenarios(name, factory)
            except Exception as e:  # an unexpected exception counts as a violation
                import traceback

                PROBLEMS.append(f"[{name}] exception {type(e).__name__}: {e}\n{traceback.format_exc()}")
    finally:
        os.chdir(cwd)
        shutil.rmtree(tmp, ignore_errors=True)

    if PROBLEMS:
        print("PROPERTY VIOLATED: " + "; ".join(PROBLEMS))
        return 1
    print("PROPERTY HOLDS")
    return 0


if __name__ == "__main__":
    sys.exit(main())
