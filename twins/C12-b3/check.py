"""Check of property C12: concurrent evaluations sharing a cache are serializable.

Run as:  cd <repo root> && /venv/bin/python check.py
Exits 0 printing "PROPERTY HOLDS", or 1 printing "PROPERTY VIOLATED: ...".
"""
import sys
import os

sys.path.insert(0, os.getcwd())

import contextlib
import io
import shutil
import tempfile
import threading
import time
import traceback

from liquer import evaluate, command, first_command
from liquer.commands import reset_command_registry
from liquer.cache import (
    MemoryCache,
    FileCache,
    XORFileCache,
    StoreCache,
    NoCache,
    set_cache,
    get_cache,
)
from liquer.store import MemoryStore

VIOLATIONS = []
SELF_PROBES = []  # (cache kind, query, what cache.get returned from inside the command)
GATE_ENTERED = threading.Event()
GATE_RELEASE = threading.Event()


def violation(msg):
    VIOLATIONS.append(msg)


def register_commands():
    reset_command_registry()

    @first_command
    def base(n=1):
        return int(n) * 10

    @command
    def add(x, y=1):
        if not isinstance(y, int):
            y = int(y)
        return x + y

    @command
    def mul(x, y=2):
        return x * int(y)

    @command
    def probe(x, context=None):
        # progress metadata gets written into the cache by info() ...
        context.info("probing my own cache entry")
        # ... but the entry is still being produced, so it must not be served.
        s = context.cache().get(context.raw_query)
        SELF_PROBES.append((repr(context.cache()), context.raw_query, s))
        return x + 1

    @command
    def gate(x, context=None):
        context.info("waiting at the gate")
        GATE_ENTERED.set()
        GATE_RELEASE.wait(10)
        return x + 7


QUERIES = [
    "base-1/add-2",
    "base-1/add-2/mul-3",
    "base-1/add-2/mul-4",
    "base-1/add-2/mul-3/add-5",
    "base-1/add-~X~/base-1/add-2~E",
    "base-1/add-~X~/base-1/add-2~E/mul-3",
    "base-1/add-2/probe",
    "base-1/add-2/probe/mul-2",
    "base-1/add-2/gate",
]
READER_KEYS = ["base-1"] + QUERIES[:-1]

# (preempted evaluation, evaluation run inside the window)
PAIRS = [
    ("base-1/add-2/mul-3", "base-1/add-2/mul-3"),
    ("base-1/add-2/mul-3", "base-1/add-2/mul-4"),
    ("base-1/add-2/mul-3/add-5", "base-1/add-2"),
    ("base-1/add-2", "base-1/add-2/mul-3/add-5"),
    ("base-1/add-~X~/base-1/add-2~E/mul-3", "base-1/add-2/mul-3"),
    ("base-1/add-2/mul-3", "base-1/add-~X~/base-1/add-2~E"),
    ("base-1/add-2/probe/mul-2", "base-1/add-2/probe"),
]
TRIPLES = [
    ("base-1/add-2/mul-3", "base-1/add-2/mul-4", "base-1/add-2/mul-3/add-5"),
    ("base-1/add-~X~/base-1/add-2~E/mul-3", "base-1/add-2/mul-3", "base-1/add-2"),
]


def fresh_value(query):
    """Value of the query evaluated alone, without any cache."""
    set_cache(NoCache())
    state = evaluate(query)
    if state.is_error:
        raise Exception(f"reference evaluation of {query} failed")
    return state.get()


OPS = ["get", "get_metadata", "store", "store_metadata", "remove", "contains"]


class Schedule:
    """Deterministic schedule: evaluation at depth d is preempted just before its
    trigger-th cache operation; the evaluation of depth d+1 then runs (in its own
    thread) to completion - unless preempted itself - and the preempted one resumes."""

    def __init__(self, cache, queries, triggers, expected, label):
        self.cache = cache
        self.queries = queries  # query of the evaluation at each depth
        self.triggers = triggers  # depth -> index of the cache operation before which to preempt
        self.expected = expected
        self.label = label
        self.depth = 0
        self.count = [0] * (len(queries) + 1)
        self.active = False
        self.results = {}
        self.fired = set()

    def reader_check(self, when):
        """What a concurrent reader of the shared cache can be served right now."""
        was = self.active
        self.active = False
        try:
            for key in READER_KEYS:
                try:
                    s = self.cache.get(key)
                except Exception as e:
                    violation(f"{self.label}: get({key}) raised {e!r} ({when})")
                    continue
                if s is None:
                    continue
                if s.metadata.get("status") != "ready":
                    violation(f"{self.label}: get({key}) served status {s.metadata.get('status')!r} ({when})")
                elif s.get() != self.expected[key]:
                    violation(
                        f"{self.label}: get({key}) served {s.get()!r}, fresh value is {self.expected[key]!r} ({when})"
                    )
        finally:
            self.active = was

    def before_op(self, name, args):
        if not self.active:
            return
        d = self.depth
        idx = self.count[d]
        self.count[d] += 1
        if name == "store" and not args[0].is_error:
            # final 'ready' metadata is already written, data is not: must not be served
            # (unless an other evaluation has finished the very same key)
            self.reader_check(f"depth {d} before store of {args[0].query}")
        if self.triggers.get(d) == idx and d + 1 < len(self.queries):
            self.fired.add(d)
            self.reader_check(f"depth {d} preempted before op {idx} {name}")
            self.run(d + 1)
            self.reader_check(f"depth {d} resumed at op {idx} {name}")

    def run(self, depth):
        out = {}

        def body():
            try:
                state = evaluate(self.queries[depth])
                out["value"] = ("error", None) if state.is_error else ("ok", state.get())
            except Exception:
                out["value"] = ("raised", traceback.format_exc())

        previous = self.depth
        self.depth = depth
        self.count[depth] = 0
        t = threading.Thread(target=body)
        t.start()
        t.join(60)
        self.depth = previous
        if t.is_alive():
            out["value"] = ("raised", "evaluation thread did not finish")
        self.results[depth] = out["value"]

    def execute(self):
        set_cache(self.cache)
        self.active = True
        try:
            self.run(0)
        finally:
            self.active = False
        for depth, (kind, value) in sorted(self.results.items()):
            q = self.queries[depth]
            if kind != "ok":
                violation(f"{self.label}: evaluation #{depth} of {q} -> {kind}: {value}")
            elif value != self.expected[q]:
                violation(f"{self.label}: evaluation #{depth} of {q} gave {value!r}, alone it gives {self.expected[q]!r}")
        self.reader_check("quiescence")
        check_quiescent(self.cache, self.expected, self.label)
        return self.count[0], self.count[1]


def make_scheduled(cls):
    """Subclass of a cache kind reporting every cache operation to the schedule."""

    def wrap(name):
        orig = getattr(cls, name)

        def op(self, *args, **kwargs):
            sched = getattr(self, "sched", None)
            if sched is not None:
                sched.before_op(name, args)
            return orig(self, *args, **kwargs)

        op.__name__ = name
        return op

    return type("Scheduled" + cls.__name__, (cls,), {name: wrap(name) for name in OPS})


def cache_factories(tmp):
    return [
        ("MemoryCache", lambda: make_scheduled(MemoryCache)()),
        ("FileCache", lambda: make_scheduled(FileCache)(tempfile.mkdtemp(dir=tmp))),
        ("XORFileCache", lambda: make_scheduled(XORFileCache)(tempfile.mkdtemp(dir=tmp), b"**key**")),
        ("StoreCache", lambda: make_scheduled(StoreCache)(MemoryStore(), path="cache")),
        ("StoreCache(flat)", lambda: make_scheduled(StoreCache)(MemoryStore(), path="cache", flat=True)),
    ]


def check_quiescent(cache, expected, label):
    for key in list(cache.keys()):
        state = cache.get(key)
        if state is None:
            continue  # unfinished / metadata-only entries are never served, fine
        if state.metadata.get("status") != "ready":
            violation(f"{label}: get({key}) served status {state.metadata.get('status')!r} at quiescence")
        if key not in expected:
            expected[key] = fresh_value(key)
            set_cache(cache)
        if state.get() != expected[key]:
            violation(
                f"{label}: cache holds {state.get()!r} for {key}, fresh evaluation gives {expected[key]!r}"
            )


def run_schedule(kind, factory, queries, triggers, expected):
    cache = factory()
    label = f"{kind} {queries} preempt {triggers}"
    sched = Schedule(cache, queries, triggers, expected, label)
    cache.sched = sched
    try:
        return sched.execute()
    finally:
        cache.sched = None
        path = getattr(cache, "path", None)
        if isinstance(cache, FileCache) and path and os.path.isdir(path):
            shutil.rmtree(path, ignore_errors=True)


# how densely the preemption points are enumerated for each cache kind:
# (number of PAIRS explored, stride over the preemption points, stride for TRIPLES or 0)
EFFORT = {
    "MemoryCache": (len(PAIRS), 1, 5),
    "FileCache": (3, 1, 8),
    "XORFileCache": (1, 4, 0),
    "StoreCache": (3, 1, 0),
    "StoreCache(flat)": (1, 4, 0),
}


def explore(kind, factory, expected):
    n_pairs, stride, triple_stride = EFFORT[kind]
    runs = 0
    for a, b in PAIRS[:n_pairs]:
        n_a, _ = run_schedule(kind, factory, [a], {}, expected)  # alone: count operations
        if n_a < 3:
            violation(f"{kind}: evaluation of {a} made only {n_a} cache operations?")
        for i in range(0, n_a, stride):
            run_schedule(kind, factory, [a, b], {0: i}, expected)
            runs += 1
    if triple_stride:
        # three evaluations: #2 preempts #1 which preempts #0
        for a, b, c in TRIPLES:
            n_a, _ = run_schedule(kind, factory, [a], {}, expected)
            n_b, _ = run_schedule(kind, factory, [b], {}, expected)
            for i in range(1, n_a, triple_stride):
                for j in range(2, n_b, triple_stride):
                    run_schedule(kind, factory, [a, b, c], {0: i, 1: j}, expected)
                    runs += 1
    return runs


def gate_scenario(kind, cache, expected):
    """Real threads: one evaluation is parked in the middle of producing 'base-1/add-2/gate';
    meanwhile readers of the shared cache must not be served that entry."""
    label = f"{kind} gate"
    set_cache(cache)
    GATE_ENTERED.clear()
    GATE_RELEASE.clear()
    q = "base-1/add-2/gate"
    out = {}

    def producer():
        try:
            out["state"] = evaluate(q)
        except Exception:
            out["error"] = traceback.format_exc()

    t = threading.Thread(target=producer)
    t.start()
    try:
        if not GATE_ENTERED.wait(10):
            violation(f"{label}: producer never reached the gate")
            return
        served = cache.get(q)
        if served is not None:
            violation(f"{label}: entry still being produced was served: {served.get()!r}")
        md = cache.get_metadata(q)
        if md is not None and md.get("status") == "ready":
            violation(f"{label}: metadata of unfinished entry claims status ready")
        # an overlapping evaluation (shared prefix) run meanwhile gives its stand-alone value
        other = evaluate("base-1/add-2/mul-3")
        if other.is_error or other.get() != expected["base-1/add-2/mul-3"]:
            violation(f"{label}: overlapping evaluation disturbed")
    finally:
        GATE_RELEASE.set()
        t.join(30)
    if "error" in out:
        violation(f"{label}: producer raised {out['error']}")
    elif out["state"].is_error or out["state"].get() != expected[q]:
        violation(f"{label}: producer result wrong")
    after = cache.get(q)
    if after is None or after.get() != expected[q]:
        violation(f"{label}: finished entry not served correctly afterwards")
    check_quiescent(cache, expected, label)


def main():
    register_commands()
    old_cache = get_cache()
    tmp = tempfile.mkdtemp(prefix="c12check_")
    sink = io.StringIO()
    runs = 0
    try:
        with contextlib.redirect_stdout(sink), contextlib.redirect_stderr(sink):
            GATE_RELEASE.set()
            expected = {q: fresh_value(q) for q in QUERIES}
            expected["base-1"] = fresh_value("base-1")
            SELF_PROBES.clear()

            for kind, factory in cache_factories(tmp):
                runs += explore(kind, factory, expected)
                gate_scenario(kind, factory(), expected)
                GATE_RELEASE.set()
                if len(VIOLATIONS) > 20:
                    break

            if not SELF_PROBES:
                violation("probe command never ran")
            for kind, q, s in SELF_PROBES:
                if s is not None:
                    # legal only when another evaluation had already finished that very key
                    if s.metadata.get("status") != "ready" or s.get() != expected.get(q):
                        violation(f"{kind}: command saw its own unfinished entry {q} served as {s.get()!r}")
    except Exception:
        violation("checker crashed: " + traceback.format_exc())
    finally:
        set_cache(old_cache)
        shutil.rmtree(tmp, ignore_errors=True)

    if VIOLATIONS:
        print("PROPERTY VIOLATED: " + " | ".join(VIOLATIONS[:5]))
        return 1
    print(f"PROPERTY HOLDS ({runs} interleavings checked)")
    return 0


if __name__ == "__main__":
    sys.exit(main())
