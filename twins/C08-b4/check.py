"""Standalone check of property C08:
Recipes materialise on demand, once, as the serialized query result.

Run as:  cd <repo root> && /venv/bin/python check.py
"""
import os
import sys

sys.path.insert(0, os.getcwd())

import io
import json
import shutil
import tempfile
import contextlib
import importlib
import traceback

RECIPES_ROOT = """
RECIPES:
  - hello-ROOT/hello1.txt
  - query: hello-dict/hello_d.txt
    title: "Hello D"
    description: "This is hello D."
  - query: boom/error.txt
    title: "Error example"
    description: "Should fail."
  - num-7/number.json
subdir:
  - hello-subdir/hello2.txt
  - query: hello-named/whatever.txt
    filename: named.txt
    title: "Named"
    description: "Named description."
  - ./hello2.txt/-/c/copy_dot.txt
  - ../hello1.txt/-/c/copy_dotdot.txt
"""

RECIPES_DEEP = """
RECIPES:
  - hello-DEEP/hello3.txt
  - ./hello3.txt/-/c/copy3.txt
sub:
  - hello-deepsub/hello4.txt
  - ../hello3.txt/-/c/copy_up.txt
"""


class Violation(Exception):
    pass


def ensure(cond, message):
    if not cond:
        raise Violation(message)


def scenario(make_substore, mount_prefix, label):
    """Build a recipe store on top of a fresh sub-store, mount it into the global store
    and run a history of operations on the declared keys."""
    import liquer.store as st
    from liquer.store import MountPointStore, join_key
    from liquer.recipes import RecipeSpecStore
    from liquer.commands import reset_command_registry, command, first_command
    from liquer.constants import Status
    from liquer.cache import NoCache, set_cache
    from liquer.context import get_context
    import liquer.ext.basic
    import liquer.ext.meta

    reset_command_registry()
    importlib.reload(liquer.ext.basic)
    importlib.reload(liquer.ext.meta)
    set_cache(NoCache())

    calls = []

    @first_command
    def hello(x):
        calls.append(("hello", x))
        return f"Hello, {x}"

    @first_command
    def num(x=0):
        calls.append(("num", str(x)))
        return dict(value=int(x), items=[1, 2, 3])

    @first_command
    def boom():
        calls.append(("boom",))
        raise Exception("Deliberate failure")

    @command
    def c(x):
        calls.append(("c",))
        return x

    def count(*entry):
        return sum(1 for e in calls if e == entry)

    substore = make_substore()
    substore.store("recipes.yaml", RECIPES_ROOT.encode("utf-8"), {})
    substore.store("deep/er/recipes.yaml", RECIPES_DEEP.encode("utf-8"), {})
    rstore = RecipeSpecStore(substore)

    backup = st.get_store()
    root = MountPointStore()
    st.set_store(root)
    try:
        if mount_prefix:
            root.mount(mount_prefix, rstore)
        else:
            root = rstore
            st.set_store(root)
        store = st.get_store()

        def K(key):
            return join_key(mount_prefix, key)

        def direct(query):
            return get_context().evaluate(query).get()

        declared = {
            "hello1.txt": ("hello-ROOT/hello1.txt", None, None),
            "hello_d.txt": ("hello-dict/hello_d.txt", "Hello D", "This is hello D."),
            "subdir/hello2.txt": ("hello-subdir/hello2.txt", None, None),
            "subdir/named.txt": ("hello-named/whatever.txt", "Named", "Named description."),
            "deep/er/hello3.txt": ("hello-DEEP/hello3.txt", None, None),
            "deep/er/sub/hello4.txt": ("hello-deepsub/hello4.txt", None, None),
        }
        relative = {
            "subdir/copy_dot.txt": "subdir/hello2.txt",
            "subdir/copy_dotdot.txt": "hello1.txt",
            "deep/er/copy3.txt": "deep/er/hello3.txt",
            "deep/er/sub/copy_up.txt": "deep/er/hello3.txt",
        }
        all_keys = list(declared) + list(relative) + ["error.txt", "number.json"]

        # 1. Declared keys are listed and present before they exist, with status 'recipe'
        listed = list(store.keys())
        for key in all_keys:
            ensure(K(key) in listed, f"[{label}] {K(key)} not listed in keys()")
            ensure(store.contains(K(key)), f"[{label}] {K(key)} not contained")
            ensure(not store.is_dir(K(key)), f"[{label}] {K(key)} reported as dir")
            ensure(not substore.contains(key), f"[{label}] {key} exists before first read")
            md = store.get_metadata(K(key))
            ensure(
                md.get("status") == Status.RECIPE.value,
                f"[{label}] {K(key)} status before read is {md.get('status')!r}",
            )
            ensure(md.get("has_recipe") is True, f"[{label}] {K(key)} has_recipe missing")
        for key, (query, title, description) in declared.items():
            md = store.get_metadata(K(key))
            if title is not None:
                ensure(md.get("title") == title, f"[{label}] {K(key)} title {md.get('title')!r}")
                ensure(
                    md.get("description") == description,
                    f"[{label}] {K(key)} description {md.get('description')!r}",
                )
        ensure(store.is_dir(K("subdir")), f"[{label}] subdir is not a directory")
        ensure(store.is_dir(K("deep/er/sub")), f"[{label}] deep/er/sub is not a directory")
        ensure("hello1.txt" in store.listdir(K("") if mount_prefix else ""), f"[{label}] listdir root")
        ensure("named.txt" in store.listdir(K("subdir")), f"[{label}] listdir subdir")
        ensure("sub" in store.listdir(K("deep/er")), f"[{label}] listdir deep/er lacks sub")
        ensure("hello4.txt" in store.listdir(K("deep/er/sub")), f"[{label}] listdir deep/er/sub")
        ensure(len(calls) == 0, f"[{label}] commands evaluated before any read: {calls}")

        # 2. First read evaluates once and stores the serialized value of the query
        for key, (query, title, description) in declared.items():
            arg = query.split("/")[0].split("-")[1]
            before = count("hello", arg)
            b = store.get_bytes(K(key))
            ensure(count("hello", arg) == before + 1, f"[{label}] {K(key)} evaluated {count('hello', arg) - before} times")
            expected = direct(query)
            ensure(
                b == expected.encode("utf-8"),
                f"[{label}] {K(key)} bytes {b!r} differ from direct evaluation {expected!r}",
            )
            ensure(substore.get_bytes(key) == b, f"[{label}] {key} not stored under its key")
            md = store.get_metadata(K(key))
            ensure(md.get("status") == Status.READY.value, f"[{label}] {K(key)} status after read {md.get('status')!r}")
            ensure(md.get("has_recipe") is True, f"[{label}] {K(key)} has_recipe lost")
            rec = md.get("dependencies", {}).get("recipe", {})
            ensure(
                isinstance(rec, dict) and rec.get("name") == md.get("recipe_name") and bool(rec.get("name")) and rec.get("version", "").startswith("md5:"),
                f"[{label}] {K(key)} recipe dependency not recorded: {rec!r}",
            )
            ensure(
                md.get("recipes_key", "").endswith("recipes.yaml") and "recipes.yaml/-Ryaml/" in md["recipe_name"] and md["recipe_name"].endswith("#" + key.split("/")[-1]),
                f"[{label}] {K(key)} recipes_key/recipe_name inconsistent: {md.get('recipes_key')!r} {md.get('recipe_name')!r}",
            )
            if title is not None:
                ensure(md.get("title") == title, f"[{label}] {K(key)} title after read {md.get('title')!r}")
                ensure(md.get("description") == description, f"[{label}] {K(key)} description after read")

            # Later reads are served without re-evaluation
            n = len(calls)
            ensure(store.get_bytes(K(key)) == b, f"[{label}] {K(key)} second read differs")
            store.get_metadata(K(key))
            list(store.keys())
            ensure(len(calls) == n, f"[{label}] {K(key)} re-evaluated on second read")

        # JSON recipe: serialized by extension
        b = store.get_bytes(K("number.json"))
        ensure(count("num", "7") == 1, f"[{label}] number.json evaluated {count('num', '7')} times")
        ensure(json.loads(b.decode("utf-8")) == dict(value=7, items=[1, 2, 3]), f"[{label}] number.json content {b!r}")
        from liquer.state_types import encode_state_data
        expected_b = encode_state_data(direct("num-7/number.json"), extension="json")[0]
        ensure(b == expected_b, f"[{label}] number.json bytes differ from direct serialization")
        ensure(store.get_metadata(K("number.json")).get("status") == Status.READY.value, f"[{label}] number.json status")

        # 3. Relative references resolve against the recipe directory
        for key, source in relative.items():
            n_c = count("c")
            n_all = len(calls)
            b = store.get_bytes(K(key))
            ensure(count("c") == n_c + 1, f"[{label}] {K(key)} evaluated {count('c') - n_c} times")
            ensure(len(calls) == n_all + 1, f"[{label}] {K(key)}: source recipe re-evaluated")
            ensure(b == store.get_bytes(K(source)), f"[{label}] {K(key)} bytes {b!r} differ from {source}")
            ensure(store.get_metadata(K(key)).get("status") == Status.READY.value, f"[{label}] {K(key)} status")
            n_all = len(calls)
            ensure(store.get_bytes(K(key)) == b, f"[{label}] {K(key)} second read differs")
            ensure(len(calls) == n_all, f"[{label}] {K(key)} re-evaluated")

        # 4. Failing recipe: error metadata and no data
        try:
            data = store.get_bytes(K("error.txt"))
        except Exception:
            data = None
        ensure(data is None, f"[{label}] failing recipe produced data {data!r}")
        ensure(count("boom") == 1, f"[{label}] failing recipe evaluated {count('boom')} times")
        try:
            leftover = substore.get_bytes("error.txt")
        except Exception:
            leftover = None
        ensure(leftover is None, f"[{label}] failing recipe left data {leftover!r}")
        md = store.get_metadata(K("error.txt"))
        ensure(md.get("status") == Status.ERROR.value, f"[{label}] error.txt status {md.get('status')!r}")
        ensure(md.get("is_error") is True, f"[{label}] error.txt is_error {md.get('is_error')!r}")
        ensure(md.get("title") == "Error example", f"[{label}] error.txt title {md.get('title')!r}")
        ensure(K("error.txt") in list(store.keys()), f"[{label}] error.txt not listed after failure")

        # 5. Remove returns the key to the recipe state; re-read evaluates exactly once again
        for key in ["hello_d.txt", "subdir/named.txt", "deep/er/sub/hello4.txt"]:
            query, title, description = declared[key]
            arg = query.split("/")[0].split("-")[1]
            store.remove(K(key))
            ensure(not substore.contains(key), f"[{label}] {key} still stored after remove")
            ensure(store.contains(K(key)), f"[{label}] {K(key)} not contained after remove")
            ensure(K(key) in list(store.keys()), f"[{label}] {K(key)} not listed after remove")
            md = store.get_metadata(K(key))
            ensure(md.get("status") == Status.RECIPE.value, f"[{label}] {K(key)} status after remove {md.get('status')!r}")
            if title is not None:
                ensure(md.get("title") == title, f"[{label}] {K(key)} title after remove")
            before = count("hello", arg)
            b = store.get_bytes(K(key))
            ensure(b == f"Hello, {arg}".encode("utf-8"), f"[{label}] {K(key)} re-read gives {b!r}")
            ensure(count("hello", arg) == before + 1, f"[{label}] {K(key)} re-read evaluated {count('hello', arg) - before} times")
            ensure(store.get_metadata(K(key)).get("status") == Status.READY.value, f"[{label}] {K(key)} status after re-read")

        # 6. clean_recipes removes the made keys of a directory and they return to recipe state
        from liquer import evaluate

        dir_key = K("subdir")
        result = evaluate(f"-R-meta/{dir_key}/-/ns-meta/clean_recipes").get()
        expected_removed = sorted(
            K(k) for k in ["subdir/hello2.txt", "subdir/named.txt", "subdir/copy_dot.txt", "subdir/copy_dotdot.txt"]
        )
        ensure(sorted(result["removed"]) == expected_removed, f"[{label}] clean_recipes removed {result['removed']!r}")
        for k in expected_removed:
            ensure(store.get_metadata(k).get("status") == Status.RECIPE.value, f"[{label}] {k} status after clean")
            ensure(store.contains(k), f"[{label}] {k} not contained after clean")
        ensure(store.get_metadata(K("hello1.txt")).get("status") == Status.READY.value, f"[{label}] hello1.txt affected by clean")
        before = count("hello", "subdir")
        ensure(store.get_bytes(K("subdir/hello2.txt")) == b"Hello, subdir", f"[{label}] re-read after clean")
        ensure(count("hello", "subdir") == before + 1, f"[{label}] re-read after clean evaluation count")

        # 7. make_recipes makes what is in recipe/error state (here recursively from deep/er)
        store.remove(K("deep/er/hello3.txt"))
        before = count("hello", "DEEP")
        result = evaluate(f"-R-meta/{K('deep/er')}/-/ns-meta/make_recipes").get()
        ensure(K("deep/er/hello3.txt") in result["processed"], f"[{label}] make_recipes processed {result['processed']!r}")
        ensure(count("hello", "DEEP") == before + 1, f"[{label}] make_recipes evaluation count")
        ensure(substore.get_bytes("deep/er/hello3.txt") == b"Hello, DEEP", f"[{label}] make_recipes result")
        ensure(store.get_metadata(K("deep/er/hello3.txt")).get("status") == Status.READY.value, f"[{label}] make_recipes status")
    finally:
        st.set_store(backup)


def main():
    import liquer.store as st

    tmpdirs = []

    def memory():
        return st.MemoryStore()

    def directory():
        d = tempfile.mkdtemp(prefix="c08_check_")
        tmpdirs.append(d)
        return st.FileStore(d)

    scenarios = [
        (memory, "", "memory@root"),
        (memory, "data", "memory@data"),
        (directory, "", "dir@root"),
        (directory, "x/y", "dir@x/y"),
    ]
    captured = io.StringIO()
    try:
        for make_substore, prefix, label in scenarios:
            with contextlib.redirect_stdout(captured), contextlib.redirect_stderr(captured):
                scenario(make_substore, prefix, label)
    except Violation as e:
        print(f"PROPERTY VIOLATED: {e}")
        return 1
    except Exception:
        print("PROPERTY VIOLATED: unexpected exception\n" + traceback.format_exc())
        return 1
    finally:
        for d in tmpdirs:
            shutil.rmtree(d, ignore_errors=True)
    print("PROPERTY HOLDS")
    return 0


if __name__ == "__main__":
    sys.exit(main())
