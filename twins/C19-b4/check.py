"""Check of property C19: relative resource paths resolve like POSIX path normalisation.

Run as:  cd <repo root> && /venv/bin/python check.py
"""
import itertools
import os
import posixpath
import shutil
import sys
import tempfile

sys.path.insert(0, os.getcwd())

from liquer.parser import parse, ResourceQuerySegment, TransformQuerySegment  # noqa: E402

CLIMB = "CLIMB"


def model(directory, parts):
    """Reference model: returns list of components or CLIMB if the path leaves the root."""
    stack = list(directory) if parts and parts[0] in (".", "..") else []
    for p in parts:
        if p == ".":
            continue
        if p == "..":
            if not stack:
                return CLIMB
            stack.pop()
        else:
            stack.append(p)
    return stack


def model_posix(directory, parts):
    """Second model based on posixpath.normpath (valid only when there is no climb above root)."""
    if parts and parts[0] in (".", ".."):
        joined = "/".join(list(directory) + list(parts))
    else:
        joined = "/".join(parts)
    n = posixpath.normpath("/" + joined)
    return [x for x in n.split("/") if x]


def resolve(query, directory, **kw):
    try:
        return parse(query).to_absolute(directory, **kw).encode()
    except Exception as e:  # the library raises a plain Exception here
        if "Can't go up from root" in str(e):
            return CLIMB
        raise


def fail(msg):
    print("PROPERTY VIOLATED: " + msg)
    sys.exit(1)


def expected_segment(header, directory, parts):
    m = model(directory, parts)
    if m is CLIMB:
        return CLIMB
    if m is not CLIMB:
        # cross-check both models where no climb occurs
        if model_posix(directory, parts) != m:
            fail(f"internal: models disagree for {directory} {parts}")
    body = "/".join(m)
    if header and body:
        return header + "/" + body
    return header or body


def main():
    tmp = tempfile.mkdtemp(prefix="c19_check_")
    try:
        run(tmp)
    finally:
        shutil.rmtree(tmp, ignore_errors=True)
    print("PROPERTY HOLDS")


def run(tmp):
    names = ["a", "bb", ".", "..", "c.txt", "d.e.f"]
    directories = [[], ["x"], ["x", "y"], ["x", "y", "z"], ["p", "q", "r", "s"]]
    count = 0

    # 1. single resource segment, with and without header, with and without transformation
    for directory in directories:
        dstr = "/".join(directory)
        for n in range(1, 5):
            for parts in itertools.product(names, repeat=n):
                parts = list(parts)
                for header in ("-R", ""):
                    for tail in ("", "/-/dr/x-1"):
                        if n == 4 and (header, tail) != ("-R", "/-/dr/x-1"):
                            continue
                        if n == 4 and len(directory) not in (0, 2):
                            continue
                        if header == "" and tail == "":
                            # without header a query with no transformation is not a resource query
                            # unless it ends with a filename; skip ambiguous spelling
                            continue
                        if header == "" and parts[-1] in (".", ".."):
                            continue
                        q = (header + "/" if header else "") + "/".join(parts) + tail
                        p = parse(q)
                        if not isinstance(p.segments[0], ResourceQuerySegment):
                            continue
                        exp = expected_segment(header, directory, parts)
                        got = resolve(q, dstr)
                        count += 1
                        if exp is CLIMB:
                            if got is not CLIMB:
                                fail(f"{q!r} against {dstr!r}: climb above root not rejected, got {got!r}")
                            continue
                        if got is CLIMB:
                            fail(f"{q!r} against {dstr!r}: unexpectedly rejected, expected {exp!r}")
                        exp_q = exp + tail
                        # encode() of a pure resource query always carries -R
                        if tail == "" and not exp_q.startswith("-"):
                            exp_q = "-R/" + exp_q
                        if tail != "" and exp == "":
                            exp_q = tail[1:]
                        if got != exp_q:
                            fail(f"{q!r} against {dstr!r}: got {got!r}, expected {exp_q!r}")
                        # idempotence
                        again = resolve(got, dstr)
                        if again != got:
                            fail(f"{q!r} against {dstr!r}: second resolution changed {got!r} to {again!r}")

    # 2. longer paths (6 components) - a sample passing through the root
    long_cases = [
        ["..", "..", "a", "b", "..", "c.txt"],
        ["..", "..", "..", "a", ".", "b"],
        [".", "..", "..", "..", "..", "a"],
        ["a", "..", "..", "b", "c", "d"],
        ["a", "b", "..", "..", "..", "c"],
        [".", ".", ".", "..", "a", "b.c"],
        ["a", ".", "b", "..", "..", "k.txt"],
    ]
    for directory in directories:
        dstr = "/".join(directory)
        for parts in long_cases:
            q = "-R/" + "/".join(parts) + "/-/dr"
            exp = expected_segment("-R", directory, parts)
            got = resolve(q, dstr)
            count += 1
            if exp is CLIMB:
                if got is not CLIMB:
                    fail(f"{q!r} against {dstr!r}: climb above root not rejected, got {got!r}")
            else:
                if got != exp + "/-/dr":
                    fail(f"{q!r} against {dstr!r}: got {got!r}, expected {exp + '/-/dr'!r}")
                if resolve(got, dstr) != got:
                    fail(f"{q!r} against {dstr!r}: not idempotent")

    # 3. several resource segments, selection by name, transformations untouched
    q = "-R/../a/-Rmeta/./b/-/dr/x-1/-q/w"
    cases = {
        "": "-R/x/a/-Rmeta/./b/-/dr/x-1/-q/w",
        "meta": "-R/../a/-Rmeta/x/y/b/-/dr/x-1/-q/w",
        None: "-R/x/a/-Rmeta/x/y/b/-/dr/x-1/-q/w",
        "zz": "-R/../a/-Rmeta/./b/-/dr/x-1/-q/w",
    }
    for name, exp in cases.items():
        got = resolve(q, "x/y", resource_segment_name=name)
        count += 1
        if got != exp:
            fail(f"{q!r} selecting {name!r}: got {got!r}, expected {exp!r}")
    if resolve(q, "x/y") != cases[""]:
        fail("default resource_segment_name is not the unnamed resource")
    if resolve(q, "", resource_segment_name="") is not CLIMB:
        fail("climb above root in the unnamed segment not rejected")
    if resolve(q, "", resource_segment_name="meta") != "-R/../a/-Rmeta/b/-/dr/x-1/-q/w":
        fail("unselected segment with '..' must stay untouched")

    # 4. header and transformation objects are carried over untouched, absolute flag preserved
    p = parse("/-Rmeta/./b/../c.txt/-/dr/x-1")
    r = p.to_absolute("x/y", resource_segment_name="meta")
    if r.absolute != p.absolute or r.encode() != "/-Rmeta/x/y/c.txt/-/dr/x-1":
        fail(f"absolute/header handling: {r.encode()!r}")
    if r.segments[0].header is not p.segments[0].header:
        fail("segment header was not left untouched")
    if r.segments[1] is not p.segments[1] or not isinstance(r.segments[1], TransformQuerySegment):
        fail("transformation segment was not left untouched")
    if p.encode() != "/-Rmeta/./b/../c.txt/-/dr/x-1":
        fail("to_absolute modified the original query")

    # 5. segment level API, string and empty directory
    seg = parse("-R/./a/../b").segments[0]
    if seg.to_absolute("").encode() != "-R/b" or seg.to_absolute("k/l").encode() != "-R/k/l/b":
        fail("ResourceQuerySegment.to_absolute gives wrong result")
    empty = ResourceQuerySegment()
    if empty.to_absolute("x") is not empty:
        fail("empty resource segment must be returned unchanged")

    # 6. the recipe layer uses the same resolution
    from liquer.recipes import resolve_recipe_definition
    from liquer.metadata import Metadata

    md = Metadata()
    d = resolve_recipe_definition("./sub/../data.csv/-/dr/x.txt", "x/y", md)
    if d is None or d["query"] != "x/y/data.csv/-/dr/x.txt" or d["CWD"] != "x/y":
        fail(f"recipe definition not resolved properly: {d!r}")
    if list(d.keys()) != ["type", "query", "original_query", "CWD", "filename", "provides"]:
        fail(f"recipe definition keys changed: {list(d.keys())}")
    d = resolve_recipe_definition(dict(query="../data.csv/-/dr/x.txt"), "x/y", md)
    if d["query"] != "x/data.csv/-/dr/x.txt" or d["filename"] != "x.txt":
        fail(f"dict recipe definition not resolved properly: {d!r}")
    if list(d.keys()) != [
        "type", "query", "original_query", "title", "description", "CWD", "filename", "provides",
    ]:
        fail(f"dict recipe definition keys changed: {list(d.keys())}")

    if count < 1000:
        fail(f"internal: too few scenarios exercised ({count})")


if __name__ == "__main__":
    main()
