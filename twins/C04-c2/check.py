"""Check of property C04 - cache transparency.

Run as:  cd <repo root> && /venv/bin/python check.py

The outcome of evaluating a query (value or failure, volatility, state variables,
file name and extension) must be the same without a cache, with an empty cache of
any kind, with a warmed cache and after removals / cleaning of the cache.
"""
import os
import sys

sys.path.insert(0, os.getcwd())

import contextlib
import io
import shutil
import tempfile
import traceback


def main():
    from liquer import evaluate, command, first_command
    from liquer.context import get_context
    from liquer.commands import reset_command_registry
    from liquer.cache import (
        NoCache,
        MemoryCache,
        FileCache,
        XORFileCache,
        SQLCache,
        SQLStringCache,
        StoreCache,
        CacheProxy,
        set_cache,
    )
    from liquer.store import MemoryStore, FileStore

    reset_command_registry()
    counter = dict(n=0)

    @first_command
    def hello():
        counter["n"] += 1
        return "Hello"

    @first_command
    def numbers():
        return [1, 2, 3]

    @command
    def add(x, y=1):
        return f"{x}+{y}"

    @command
    def push(x, y=0):
        "in-place mutator"
        x.append(int(y))
        return x

    @command
    def total(x):
        return sum(x)

    @command
    def fail(x):
        raise Exception("Intentional failure")

    @command(volatile=True)
    def vol(x):
        return f"{x}!"

    @command
    def nocache(x, context=None):
        context.disable_cache()
        return f"{x}?"

    @command
    def setv(x, name="a", value="b", context=None):
        context.vars[name] = value
        return x

    @command
    def getv(x, name="a", context=None):
        return f"{x}:{context.vars.get(name)}"

    @command
    def link(x, context=None):
        return f"{x}<{context.evaluate('hello/add-s').get()}>"

    queries = [
        "hello",
        "hello/add",
        "hello/add-2/add-3",
        "hello/add-2/add-3/out.txt",
        "hello/add-2/out.tar.gz",
        "numbers/push-4/push-5/total",
        "numbers/push-4",
        "numbers",
        "hello/fail",
        "hello/fail/add-2",
        "hello/add-1/vol",
        "hello/add-1/vol/add-2",
        "hello/add-1/nocache",
        "hello/add-1/nocache/add-2",
        "hello/setv-a-xyz/add-1/getv-a",
        "hello/add-1/link",
        "hello/unknown_command-1",
    ]

    def observe(state):
        is_error = bool(state.is_error)
        return dict(
            is_error=is_error,
            value=None if is_error else repr(state.get()),
            volatile=bool(state.is_volatile()),
            vars={k: v for k, v in dict(state.vars).items()},
            filename=state.metadata.get("filename"),
            extension=state.metadata.get("extension"),
            query=state.query,
            type_identifier=state.metadata.get("type_identifier"),
        )

    def ev(q, **kwargs):
        try:
            return observe(get_context().evaluate(q, **kwargs))
        except Exception as e:
            return dict(raised=f"{type(e).__name__}: {e}")

    tmp = tempfile.mkdtemp(prefix="c04check_")
    problems = []
    try:
        set_cache(NoCache())
        reference = {q: ev(q) for q in queries}
        if not reference["hello/fail"].get("is_error"):
            problems.append("reference: failing query does not fail")
        if reference["hello/add-2/add-3"].get("value") != repr("Hello+2+3"):
            problems.append(f"reference value wrong: {reference['hello/add-2/add-3']}")
        if not reference["hello/add-1/vol"].get("volatile"):
            problems.append("reference: volatile query is not volatile")
        reference_on = ev("add-7", input_value="In", input_value_specified=True)
        reference_extra = ev("hello/add", extra_parameters=["9"])

        n = [0]

        def d():
            n[0] += 1
            return os.path.join(tmp, f"d{n[0]}")

        def factories():
            yield "memory", lambda: MemoryCache()
            yield "file", lambda: FileCache(d())
            yield "xor", lambda: XORFileCache(d(), b"**key**")
            try:
                from cryptography.fernet import Fernet
                from liquer.cache import FernetFileCache

                key = Fernet.generate_key()
                yield "fernet", lambda: FernetFileCache(d(), key)
            except ImportError:
                pass
            yield "sql", lambda: SQLCache.from_sqlite()
            yield "sqlstring", lambda: SQLStringCache.from_sqlite()
            yield "store-nested-memory", lambda: StoreCache(MemoryStore(), "cache")
            yield "store-flat-memory", lambda: StoreCache(
                MemoryStore(), "cache", flat=True
            )
            yield "store-nested-file", lambda: StoreCache(FileStore(d()), "cache")
            yield "store-flat-file", lambda: StoreCache(
                FileStore(d()), "cache", flat=True
            )
            yield "conditional+memory", lambda: (
                MemoryCache().if_contains("volatile") + MemoryCache()
            )
            yield "if_not_contains", lambda: MemoryCache().if_not_contains("xyz")
            yield "file+sql", lambda: FileCache(d()) + SQLCache.from_sqlite()
            yield "proxy", lambda: CacheProxy(MemoryCache(), verbose=False)

        def compare(name, stage, q, got, expected):
            if got != expected:
                problems.append(
                    f"[{name}/{stage}] {q}: with cache {got} != without cache {expected}"
                )

        for name, factory in factories():
            # 1. empty cache for every query, then the same cache again (warm)
            for q in queries:
                cache = factory()
                set_cache(cache)
                compare(name, "empty", q, ev(q), reference[q])
                compare(name, "warm-same", q, ev(q), reference[q])
            # 2. one cache shared by the whole sequence, forwards and backwards
            cache = factory()
            set_cache(cache)
            for q in queries:
                compare(name, "shared-forward", q, ev(q), reference[q])
            for q in reversed(queries):
                compare(name, "shared-backward", q, ev(q), reference[q])
            # 3. histories with an input value and extra parameters
            compare(
                name,
                "input-value",
                "add-7",
                ev("add-7", input_value="In", input_value_specified=True),
                reference_on,
            )
            compare(
                name,
                "extra-parameters",
                "hello/add",
                ev("hello/add", extra_parameters=["9"]),
                reference_extra,
            )
            for q in ("hello/add", "hello", "hello/add-2/add-3"):
                compare(name, "after-bypass", q, ev(q), reference[q])
            # 4. removals of prefixes, extensions and link sub-queries
            for key in (
                "hello",
                "hello/add-2",
                "hello/add-s",
                "hello/add-2/add-3/out.txt",
                "numbers/push-4",
        "numbers",
                "not/there",
            ):
                try:
                    cache.remove(key)
                except Exception as e:
                    problems.append(f"[{name}] remove({key}) raised {e!r}")
            for q in queries:
                compare(name, "after-remove", q, ev(q), reference[q])
            # 5. clean
            cache.clean()
            for q in reversed(queries):
                compare(name, "after-clean", q, ev(q), reference[q])
            # in-place mutator must not leak into the cached predecessor
            ev("numbers")
            ev("numbers/push-4/push-5")
            compare(name, "mutator", "numbers", ev("numbers"), reference["numbers"])

        # a warmed cache really is used (work is saved), but the result is unchanged
        cache = MemoryCache()
        set_cache(cache)
        ev("hello/add-2")
        before = counter["n"]
        got = ev("hello/add-2/add-3")
        if counter["n"] != before:
            problems.append("warmed memory cache was not used for the predecessor")
        compare("memory", "work-saved", "hello/add-2/add-3", got, reference["hello/add-2/add-3"])
    finally:
        set_cache(None)
        reset_command_registry()
        shutil.rmtree(tmp, ignore_errors=True)
    return problems


if __name__ == "__main__":
    captured = io.StringIO()
    try:
        with contextlib.redirect_stdout(captured), contextlib.redirect_stderr(
            io.StringIO()
        ):
            problems = main()
    except Exception:
        print("PROPERTY VIOLATED: check crashed: " + traceback.format_exc())
        sys.exit(1)
    if problems:
        print(f"PROPERTY VIOLATED: {len(problems)} difference(s); first: {problems[0]}")
        for p in problems[1:10]:
            print("   ", p)
        sys.exit(1)
    print("PROPERTY HOLDS")
    sys.exit(0)
