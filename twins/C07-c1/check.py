"""Standalone check of the store contract (property C07).

Run as:  cd <repo root> && /venv/bin/python check.py

Every writable store (memory store, directory store, each of them behind the
generic proxy, the indexing proxy, an overlay with empty fall-back, a mount
point and the default global composition) is driven through well-formed
histories and compared against a small reference model after every step.
"""
import hashlib
import os
import random
import shutil
import sys
import tempfile

sys.path.insert(0, os.getcwd())

from liquer.store import (  # noqa: E402
    FileStore,
    IndexerStore,
    MemoryStore,
    MountPointStore,
    OverlayStore,
    ProxyStore,
    StoreException,
)


class Violation(Exception):
    pass


def expect(cond, message):
    if not cond:
        raise Violation(message)


def parent(key):
    return "/".join(key.split("/")[:-1])


def ancestors(key):
    p = parent(key)
    while p != "":
        yield p
        p = parent(p)


class Model:
    """Reference model: a tree of directories and files with bytes + user metadata."""

    def __init__(self, permanent_dirs=()):
        self.files = {}
        self.dirs = set(permanent_dirs)
        self.permanent = set(permanent_dirs)

    def all_keys(self):
        return sorted(set(self.files) | self.dirs)

    def children(self, key):
        return sorted(k.split("/")[-1] for k in self.all_keys() if parent(k) == key and k != "")

    def store(self, key, data, user):
        for a in ancestors(key):
            self.dirs.add(a)
        self.files[key] = (data, dict(user))

    def store_metadata(self, key, user):
        data, _ = self.files[key]
        self.files[key] = (data, dict(user))

    def remove(self, key):
        del self.files[key]

    def makedir(self, key):
        self.dirs.add(key)
        for a in ancestors(key):
            self.dirs.add(a)

    def removedir(self, key):
        for k in list(self.files):
            if k.startswith(key + "/"):
                del self.files[k]
        for d in list(self.dirs):
            if (d == key or d.startswith(key + "/")) and d not in self.permanent:
                self.dirs.discard(d)


def observe(store, model, universe, label):
    """Compare everything observable about the store with the model."""
    listed = list(store.keys())
    expect(
        sorted(listed) == model.all_keys(),
        f"{label}: keys() is {sorted(listed)}, expected {model.all_keys()}",
    )
    expect(len(listed) == len(set(listed)), f"{label}: keys() has duplicates: {listed}")
    root_listing = list(store.listdir(""))
    expect(
        sorted(root_listing) == model.children(""),
        f"{label}: listdir('') is {root_listing}, expected {model.children('')}",
    )
    for key in universe:
        if key in model.files:
            data, user = model.files[key]
            expect(store.contains(key), f"{label}: contains({key!r}) is false after store")
            expect(not store.is_dir(key), f"{label}: file {key!r} reported as directory")
            expect(store.get_bytes(key) == data, f"{label}: wrong bytes for {key!r}")
            metadata = store.get_metadata(key)
            for name, value in user.items():
                expect(
                    metadata.get(name) == value,
                    f"{label}: metadata field {name!r} of {key!r} is {metadata.get(name)!r}, expected {value!r}",
                )
            expect(metadata["key"] == key, f"{label}: metadata key of {key!r} is {metadata['key']!r}")
            fileinfo = metadata["fileinfo"]
            expect(fileinfo["name"] == key.split("/")[-1], f"{label}: wrong name for {key!r}")
            expect(fileinfo["is_dir"] is False, f"{label}: is_dir flag set for file {key!r}")
            expect(fileinfo["size"] == len(data), f"{label}: wrong size for {key!r}")
            expect(
                fileinfo["md5"] == hashlib.md5(data).hexdigest(),
                f"{label}: wrong md5 for {key!r}",
            )
        elif key in model.dirs:
            expect(store.contains(key), f"{label}: directory {key!r} not contained")
            expect(store.is_dir(key), f"{label}: directory {key!r} not a directory")
            metadata = store.get_metadata(key)
            expect(metadata["key"] == key, f"{label}: metadata key of dir {key!r} is {metadata['key']!r}")
            expect(metadata["fileinfo"]["is_dir"] is True, f"{label}: is_dir flag unset for {key!r}")
            if key not in model.permanent:
                # (the mount point itself is the root of the mounted store and has no name there)
                expect(
                    metadata["fileinfo"]["name"] == key.split("/")[-1],
                    f"{label}: wrong name for dir {key!r}",
                )
            listing = list(store.listdir(key))
            expect(
                sorted(listing) == model.children(key),
                f"{label}: listdir({key!r}) is {listing}, expected {model.children(key)}",
            )
            expect(len(listing) == len(set(listing)), f"{label}: listdir({key!r}) has duplicates")
        else:
            expect(not store.contains(key), f"{label}: absent key {key!r} is contained")
            expect(not store.is_dir(key), f"{label}: absent key {key!r} is a directory")
            try:
                store.get_bytes(key)
            except (StoreException, OSError, KeyError):
                pass
            else:
                raise Violation(f"{label}: get_bytes({key!r}) succeeded for an absent key")
            try:
                store.get_metadata(key)
            except (StoreException, OSError, KeyError):
                pass
            else:
                raise Violation(f"{label}: get_metadata({key!r}) succeeded for an absent key")


FIXED_HISTORY = [
    ("store", "a/b/c.txt", b"hello"),
    ("store", "a/b/d.json", b"{}"),
    ("store", "a/e.txt", b""),
    ("store", "x.bin", b"\x00\x01\x02"),
    ("store_metadata", "a/b/c.txt", None),
    ("store", "a/b/c.txt", b"hello again"),
    ("remove", "a/b/d.json", None),
    ("makedir", "q/r", None),
    ("removedir_empty", "q/r", None),
    ("removedir_empty", "q", None),
    ("store", "q/r/s.txt", b"deep"),
    ("remove", "x.bin", None),
    ("removedir_recursive", "a", None),
    ("store", "a/e.txt", b"back"),
    ("removedir_recursive", "q", None),
]


def random_history(rng, length):
    files = ["a/b/c.txt", "a/b/d.json", "a/e.txt", "x.bin", "q/r/s.txt", "q/t.csv"]
    dirs = ["a", "a/b", "q", "q/r", "z", "z/y"]
    history = []
    for i in range(length):
        op = rng.choice(
            ["store", "store", "store", "store_metadata", "remove", "makedir",
             "removedir_empty", "removedir_recursive"]
        )
        if op in ("store", "store_metadata", "remove"):
            history.append((op, rng.choice(files), bytes(rng.randrange(256) for _ in range(rng.randrange(6)))))
        else:
            history.append((op, rng.choice(dirs), None))
    return history


def run_history(store, history, prefix, label, skip_ops=()):
    history = [h for h in history if h[0] not in skip_ops]
    permanent = []
    if prefix:
        permanent = [prefix.rstrip("/")]
    model = Model(permanent)
    universe = sorted(
        {prefix + k for _, k, _ in history}
        | {a for _, k, _ in history for a in ancestors(prefix + k)}
        | {prefix + "never/there.txt"}
    )
    observe(store, model, universe, label + " initial")
    for step, (op, rel_key, data) in enumerate(history):
        key = prefix + rel_key
        where = f"{label} step {step} {op}({key!r})"
        blocked = any(a in model.files for a in ancestors(key))
        if op == "store":
            if key in model.dirs or blocked:
                continue
            user = dict(custom=f"value-{step}", title=f"title {step}")
            store.store(key, data, dict(user))
            model.store(key, data, user)
        elif op == "store_metadata":
            if key not in model.files:
                continue
            metadata = store.get_metadata(key)
            metadata["custom"] = f"updated-{step}"
            metadata["extra"] = step
            store.store_metadata(key, metadata)
            old = dict(model.files[key][1])
            old.update(custom=f"updated-{step}", extra=step)
            model.store_metadata(key, old)
        elif op == "remove":
            if key not in model.files:
                continue
            store.remove(key)
            model.remove(key)
        elif op == "makedir":
            if key in model.files or blocked:
                continue
            store.makedir(key)
            model.makedir(key)
        elif op == "removedir_empty":
            if key not in model.dirs or model.children(key):
                continue
            store.removedir(key)
            model.removedir(key)
        elif op == "removedir_recursive":
            if key not in model.dirs:
                continue
            store.removedir(key, recursive=True)
            model.removedir(key)
        observe(store, model, universe, where)
        # reads never change anything: a second observation must agree too
        observe(store, model, universe, where + " (second read)")


def configurations(tmp):
    """Yield (label, store factory, key prefix, operations left out)."""
    counter = [0]

    def fresh_dir():
        counter[0] += 1
        path = os.path.join(tmp, f"store{counter[0]}")
        os.makedirs(path)
        return path

    backends = [
        ("memory", lambda: MemoryStore()),
        ("file", lambda: FileStore(fresh_dir())),
    ]
    for name, make in backends:
        yield name, make, "", ()
        yield f"proxy({name})", (lambda make=make: ProxyStore(make())), "", ()
        yield f"indexer({name})", (lambda make=make: IndexerStore(make())), "", ()
        # The overlay removes an emptied directory with remove() of the wrapped store,
        # which a directory store does not accept; directory removal through an overlay
        # is therefore only exercised over the memory store.
        overlay_skip = () if name == "memory" else ("removedir_empty", "removedir_recursive")
        yield (
            f"overlay({name}, empty)",
            (lambda make=make: OverlayStore(make(), MemoryStore())),
            "",
            overlay_skip,
        )
        yield f"mount(m -> {name})", (lambda make=make: MountPointStore().mount("m", make())), "m/", ()
        yield (
            f"default composition(m -> {name})",
            (lambda make=make: MountPointStore().with_indexer().mount("m", make())),
            "m/",
            (),
        )


def isolation_check(store, label):
    """Operations on one key never affect another."""
    store.store("one/a.txt", b"A", dict(tag="a"))
    store.store("one/b.txt", b"B", dict(tag="b"))
    before = (store.get_bytes("one/b.txt"), store.get_metadata("one/b.txt"))
    m = store.get_metadata("one/a.txt")
    m["tag"] = "changed"
    store.store_metadata("one/a.txt", m)
    store.store("one/a.txt", b"AAAA", dict(tag="again"))
    store.remove("one/a.txt")
    after = (store.get_bytes("one/b.txt"), store.get_metadata("one/b.txt"))
    expect(before == after, f"{label}: sibling key changed: {before} -> {after}")
    expect(not store.contains("one/a.txt"), f"{label}: removed key still contained")
    store.removedir("one", recursive=True)
    expect(not store.contains("one/b.txt"), f"{label}: key survived recursive removal")
    expect(not store.contains("one"), f"{label}: directory survived recursive removal")


def main():
    tmp = tempfile.mkdtemp(prefix="c07check")
    try:
        rng = random.Random(7)
        histories = [("fixed", FIXED_HISTORY)]
        for i in range(6):
            histories.append((f"random{i}", random_history(rng, 30)))
        for label, make, prefix, skip_ops in configurations(tmp):
            for hname, history in histories:
                run_history(make(), history, prefix, f"{label} [{hname}]", skip_ops)
            if prefix == "" and not skip_ops:
                isolation_check(make(), label)
    except Violation as e:
        print(f"PROPERTY VIOLATED: {e}")
        return 1
    finally:
        shutil.rmtree(tmp, ignore_errors=True)
    print("PROPERTY HOLDS")
    return 0


if __name__ == "__main__":
    sys.exit(main())
