"""Standalone check of property C03 (any text can be passed as an argument;
encoded arguments are URL-path safe).

Run as:  cd <repo root> && /venv/bin/python check.py
"""
import os
import sys

sys.path.insert(0, os.getcwd())

import itertools
import random
import re
import shutil
import tempfile


SAFE_ENCODED = re.compile(r"\A(?:[A-Za-z0-9_.~]|%[0-9A-Fa-f]{2})*\Z")

ALPHABET = ["~", "/", "-", "%", "+", " ", ":", "_", ".", "I", "h", "H", "f", "P", "E", "X", "2", "5", "é"]

INTERESTING = [
    "",
    "~",
    "~~",
    "~I",
    "~_",
    "~.",
    "~E",
    "~X~",
    "~X~abc~E",
    "~h",
    "~H",
    "~f",
    "~P",
    "~5",
    "-5",
    "-1.5e-3",
    "%",
    "%2",
    "%25",
    "%2F",
    "%2f",
    "%7E",
    "%7e",
    "%zz",
    "a+b",
    "a b",
    " ",
    "  ",
    "/",
    "//",
    "-",
    "--",
    "-/-",
    "://",
    "http://",
    "https://",
    "file://",
    "ftp://",
    "http:/",
    "http" + "://",
    "https://example.com/a-b/c%20d?x=1&y=~2#frag",
    "file:///tmp/some-dir/file name.txt",
    "abc/def",
    "abc-def",
    "a/b-c~d e",
    "-R",
    "-R/x",
    "ns-abc",
    "file.txt",
    "x.y",
    "éèê",
    "žluťoučký kůň",
    "中文",
    "\U0001f600",
    "\u0000",
    "\n",
    "\t",
    "\r\n",
    " ",
    " ",
    "﻿",
    "￿",
    "\U0010ffff",
    "?",
    "#",
    "&",
    "=",
    "\"",
    "'",
    "<>",
    "\\",
    "{}",
    "[]",
    "|",
    "^",
    "`",
    "@",
    "!",
    "$",
    "*",
    "(",
    ")",
    ",",
    ";",
]


class Violation(Exception):
    pass


def fail(msg):
    raise Violation(msg)


def check_token(parser, s):
    enc = parser.encode_token(s)
    if not isinstance(enc, str):
        fail(f"encode_token({s!r}) returned {type(enc)}")
    if not SAFE_ENCODED.match(enc):
        fail(f"encode_token({s!r}) = {enc!r} contains a character that is not URL-path safe")
    if "/" in enc or "-" in enc:
        fail(f"encode_token({s!r}) = {enc!r} contains a bare separator")
    dec = parser.decode_token(enc)
    if dec != s:
        fail(f"decode_token(encode_token({s!r})) = {dec!r} (encoded {enc!r})")
    return enc


def check_list_form(parser, tokens_list):
    """tokens_list: list of lists of strings, first item of each is a command name."""
    enc = parser.encode(tokens_list)
    expected_commands = len(tokens_list)
    if enc.count("/") != expected_commands - 1:
        fail(f"encode({tokens_list!r}) = {enc!r} has a wrong number of command separators")
    if enc.count("-") != sum(len(x) - 1 for x in tokens_list):
        fail(f"encode({tokens_list!r}) = {enc!r} has a wrong number of parameter separators")
    dec = parser.decode(enc)
    if dec != tokens_list:
        fail(f"decode(encode({tokens_list!r})) = {dec!r} (encoded {enc!r})")


def strings_of(query):
    return [
        [p.string for p in action.parameters]
        for segment in query.segments
        for action in segment.query
    ]


def check_query(parser, actions):
    """actions: list of (name, [args...]) with 1-3 actions; args are strings."""
    q = parser.Query()
    for name, args in actions:
        q = q.with_action(name, *args)
    enc = q.encode()
    # Query.with_action creates a segment with a trivial header, encoded as a leading "-/"
    body = enc[2:] if enc.startswith("-/") else enc
    if body.count("/") != len(actions) - 1:
        fail(f"query {actions!r} encoded as {enc!r}: structure changed (command separators)")
    if body.count("-") != sum(len(args) for _, args in actions):
        fail(f"query {actions!r} encoded as {enc!r}: structure changed (parameter separators)")
    if not SAFE_ENCODED.match(body.replace("/", "").replace("-", "")):
        fail(f"query {actions!r} encoded as {enc!r}: not URL-path safe")
    parsed = parser.parse(enc)
    if len(parsed.segments) != 1:
        fail(f"query {actions!r} encoded as {enc!r}: parsed into {len(parsed.segments)} segments")
    names = [a.name for a in parsed.segments[0].query]
    if names != [name for name, _ in actions]:
        fail(f"query {actions!r} encoded as {enc!r}: action names parsed as {names!r}")
    for a in parsed.segments[0].query:
        for p in a.parameters:
            if not isinstance(p, parser.StringActionParameter):
                fail(f"query {actions!r} encoded as {enc!r}: parameter parsed as {type(p).__name__}")
    got = strings_of(parsed)
    expected = [list(args) for _, args in actions]
    if got != expected:
        fail(f"query {actions!r} encoded as {enc!r}: arguments parsed as {got!r}")
    if parsed.encode() != enc:
        fail(f"query {actions!r}: re-encoding gives {parsed.encode()!r} instead of {enc!r}")
    # to_list form of the actions
    for action, (name, args) in zip(parsed.segments[0].query, actions):
        if action.to_list() != [name] + list(args):
            fail(f"query {actions!r}: to_list gives {action.to_list()!r}")
    return enc


def check_nested_link(parser, s):
    inner = parser.Query().with_action("inner", s, "tail")
    link = parser.LinkActionParameter(inner)
    outer = parser.Query().with_action("outer", "before", link, s).with_action("next", s)
    enc = outer.encode()
    parsed = parser.parse(enc)
    if len(parsed.segments) != 1 or len(parsed.segments[0].query) != 2:
        fail(f"nested link with {s!r} encoded as {enc!r}: wrong structure after parsing")
    a0, a1 = parsed.segments[0].query
    if a0.name != "outer" or a1.name != "next" or len(a0.parameters) != 3 or len(a1.parameters) != 1:
        fail(f"nested link with {s!r} encoded as {enc!r}: wrong structure after parsing")
    if a0.parameters[0].string != "before" or a0.parameters[2].string != s or a1.parameters[0].string != s:
        fail(f"nested link with {s!r} encoded as {enc!r}: outer arguments changed")
    lp = a0.parameters[1]
    if not isinstance(lp, parser.LinkActionParameter):
        fail(f"nested link with {s!r} encoded as {enc!r}: link parsed as {type(lp).__name__}")
    got = strings_of(lp.link)
    if got != [[s, "tail"]]:
        fail(f"nested link with {s!r} encoded as {enc!r}: inner arguments parsed as {got!r}")
    if parsed.encode() != enc:
        fail(f"nested link with {s!r}: re-encoding gives {parsed.encode()!r} instead of {enc!r}")


def check_header_parameter(parser, s):
    header = parser.SegmentHeader(
        name="ns", level=1, parameters=[parser.StringActionParameter(s), parser.StringActionParameter("z")]
    )
    segment = parser.TransformQuerySegment(
        header=header, query=[parser.ActionRequest.from_arguments("act", s)]
    )
    q = parser.Query([segment])
    enc = q.encode()
    parsed = parser.parse(enc)
    if len(parsed.segments) != 1:
        fail(f"header parameter {s!r} encoded as {enc!r}: parsed into {len(parsed.segments)} segments")
    h = parsed.segments[0].header
    if h is None or h.name != "ns" or h.level != 1:
        fail(f"header parameter {s!r} encoded as {enc!r}: header changed")
    got = [p.string for p in h.parameters]
    if got != [s, "z"]:
        fail(f"header parameter {s!r} encoded as {enc!r}: header parameters parsed as {got!r}")
    if strings_of(parsed) != [[s]]:
        fail(f"header parameter {s!r} encoded as {enc!r}: action arguments parsed as {strings_of(parsed)!r}")


def random_string(rnd, maxlen=24):
    n = rnd.randint(0, maxlen)
    chars = []
    for _ in range(n):
        r = rnd.random()
        if r < 0.55:
            chars.append(rnd.choice(ALPHABET))
        elif r < 0.7:
            chars.append(rnd.choice(["http", "https", "file", "://", "~~", "%2", "%7E", "~X~", "~E"]))
        elif r < 0.85:
            chars.append(chr(rnd.randint(0x20, 0x7E)))
        else:
            while True:
                cp = rnd.randint(0, 0x10FFFF)
                if not 0xD800 <= cp <= 0xDFFF:
                    break
            chars.append(chr(cp))
    return "".join(chars)


def main():
    tmp = tempfile.mkdtemp(prefix="c03check_")
    cwd = os.getcwd()
    try:
        from liquer import parser

        # 1. single code points: all of the first planes' low range, then a stride, then edges
        code_points = list(range(0, 0x3000))
        code_points += list(range(0x3000, 0x110000, 61))
        code_points += [0xD7FF, 0xE000, 0xFFFD, 0xFFFE, 0xFFFF, 0x10000, 0x10FFFF]
        for cp in code_points:
            if 0xD800 <= cp <= 0xDFFF:
                continue
            check_token(parser, chr(cp))

        # 2. all strings up to length 3 over the structurally significant alphabet (token level),
        #    length 4 over the core alphabet
        for n in range(0, 4):
            for tup in itertools.product(ALPHABET, repeat=n):
                check_token(parser, "".join(tup))
        core = ["~", "/", "-", "%", ":", "h", "I", "_", "2", " "]
        for tup in itertools.product(core, repeat=4):
            check_token(parser, "".join(tup))

        # 3. interesting strings on every level
        for s in INTERESTING:
            check_token(parser, s)
            check_list_form(parser, [["cmd", s]])
            check_list_form(parser, [["cmd", s, "x"], ["second", "y", s], ["third", s, s, s]])
            check_query(parser, [("cmd", [s])])
            check_query(parser, [("cmd", ["a", s])])
            check_query(parser, [("cmd", [s, "b"])])
            check_query(parser, [("first", [s, "b"]), ("second", ["x", s, "y"])])
            check_query(parser, [("first", [s]), ("second", [s, s]), ("third", ["q", s])])
            check_nested_link(parser, s)
            check_header_parameter(parser, s)

        # 4. short adversarial strings through the full parser
        for n in range(1, 3):
            for tup in itertools.product(ALPHABET, repeat=n):
                s = "".join(tup)
                check_query(parser, [("cmd", [s, "end"])])
        rnd = random.Random(20240603)
        for tup in rnd.sample(list(itertools.product(ALPHABET, repeat=3)), 300):
            s = "".join(tup)
            check_query(parser, [("cmd", ["start", s]), ("other", [s])])

        # 5. random longer strings
        for i in range(400):
            s = random_string(rnd)
            check_token(parser, s)
            check_list_form(parser, [["c", s], ["d", "x", s]])
            if i < 150:
                nact = rnd.randint(1, 3)
                actions = []
                for k in range(nact):
                    nargs = rnd.randint(1, 3)
                    pos = rnd.randrange(nargs)
                    args = [s if j == pos else rnd.choice(["a", "1", "x.y", "~", "-"]) for j in range(nargs)]
                    actions.append((["alpha", "beta", "gamma"][k], args))
                check_query(parser, actions)
            if i < 40:
                check_nested_link(parser, s)
                check_header_parameter(parser, s)

        # 6. non-string scalar arguments are passed as their text
        enc = check_query(parser, [("num", ["-1", "2.5", "True"])])
        q = parser.Query().with_action("num", -1, 2.5, True)
        if q.encode() != enc:
            fail(f"scalar arguments encoded as {q.encode()!r} instead of {enc!r}")

        # 7. a moderately long token with many escapes
        s = "~/-% " * 40
        check_token(parser, s)
        check_query(parser, [("long", [s])])
    except Violation as e:
        print(f"PROPERTY VIOLATED: {e}")
        return 1
    except Exception as e:  # any unexpected exception is a violation as well
        print(f"PROPERTY VIOLATED: unexpected {type(e).__name__}: {e}")
        return 1
    finally:
        os.chdir(cwd)
        shutil.rmtree(tmp, ignore_errors=True)
    print("PROPERTY HOLDS")
    return 0


if __name__ == "__main__":
    sys.exit(main())
