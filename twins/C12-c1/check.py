"""Check of property C12: concurrent evaluations sharing a cache are serializable.

Run as:  cd <repo root> && /venv/bin/python check.py
Exits 0 printing "PROPERTY HOLDS", or 1 printing "PROPERTY VIOLATED: ...".
"""
import io
import os
import shutil
import sys
import tempfile
import threading
import time
import contextlib

sys.path.insert(0, os.getcwd())

from liquer import *  # noqa
from liquer.cache import (
    MemoryCache,
    FileCache,
    XORFileCache,
    StoreCache,
    NoCache,
    set_cache,
    get_cache,
)
from liquer.store import MemoryStore
from liquer.commands import reset_command_registry
from liquer.context import get_context

REAL_STDOUT = sys.stdout
PROBLEMS = []


def problem(msg):
    PROBLEMS.append(msg)


# ---------------------------------------------------------------- commands
_gate = {"event": None, "entered": None, "armed": False, "lock": threading.Lock()}


def register_commands():
    reset_command_registry()

    @first_command
    def a():
        time.sleep(0.002)
        return 1

    @first_command
    def b():
        time.sleep(0.001)
        return 100

    @command
    def inc(x, n=1):
        time.sleep(0.002)
        return int(x) + int(n)

    @command
    def dbl(x):
        time.sleep(0.001)
        return int(x) * 2

    @command
    def txt(x):
        time.sleep(0.001)
        return f"<{x}>"

    @command
    def slow(x):
        # The first armed call blocks until released by the checker.
        with _gate["lock"]:
            block = _gate["armed"]
            _gate["armed"] = False
        if block:
            _gate["entered"].set()
            _gate["event"].wait(10)
        return int(x) + 1000

    @command
    def boom(x):
        raise Exception("intended failure")


QUERIES = [
    "a",
    "a/inc",
    "a/inc/dbl",
    "a/inc/inc-5",
    "a/inc/dbl/txt",
    "a/inc-~X~/b~E",
    "b/inc-~X~/a/inc~E/dbl",
    "b",
    "b/dbl/txt",
]


def evaluate_alone(query):
    """Reference value: evaluation with no cache at all."""
    state = get_context().evaluate(query, cache=NoCache())
    if state.is_error:
        return ("ERROR",)
    return ("OK", state.get())


def outcome(state):
    if state.is_error:
        return ("ERROR",)
    return ("OK", state.get())


# ---------------------------------------------------------------- scenarios
def cache_factories(tmp):
    yield "MemoryCache", lambda i: MemoryCache()
    yield "FileCache", lambda i: FileCache(os.path.join(tmp, f"fc{i}"))
    yield "XORFileCache", lambda i: XORFileCache(os.path.join(tmp, f"xc{i}"), b"**key**")
    yield "StoreCache", lambda i: StoreCache(MemoryStore(), "cache")
    yield "StoreCacheFlat", lambda i: StoreCache(MemoryStore(), "cache", flat=True)


def check_quiescent_cache(label, cache, expected):
    keys = list(cache.keys())
    for key in keys:
        got = cache.get(key)
        if got is None:
            continue  # nothing is served - that is always allowed
        if key not in expected:
            expected[key] = evaluate_alone(key)
        if outcome(got) != expected[key]:
            problem(
                f"{label}: cache holds {outcome(got)!r} for {key!r}, fresh evaluation gives {expected[key]!r}"
            )
        if got.metadata.get("status") != "ready":
            problem(f"{label}: cache served {key!r} with status {got.metadata.get('status')!r}")
    for key in expected:
        got = cache.get(key)
        if got is not None and outcome(got) != expected[key]:
            problem(f"{label}: cache.get({key!r}) = {outcome(got)!r} != {expected[key]!r}")


def scenario_threads(label, cache, expected, groups):
    """Run the groups of queries concurrently, one thread per group."""
    set_cache(cache)
    results = {}
    errors = []
    barrier = threading.Barrier(len(groups))

    def worker(index, queries):
        try:
            barrier.wait(10)
            for q in queries:
                results[(index, q)] = outcome(evaluate(q))
        except Exception as e:  # pragma: no cover
            errors.append(f"{label}: thread {index} raised {e!r}")

    threads = [
        threading.Thread(target=worker, args=(i, g)) for i, g in enumerate(groups)
    ]
    for t in threads:
        t.start()
    for t in threads:
        t.join(60)
    for e in errors:
        problem(e)
    for (index, q), got in results.items():
        if got != expected[q]:
            problem(
                f"{label}: thread {index} got {got!r} for {q!r}, alone it gives {expected[q]!r}"
            )
    if len(results) != sum(len(g) for g in groups):
        problem(f"{label}: some evaluations did not finish")
    check_quiescent_cache(label, cache, dict(expected))


def scenario_in_progress(label, cache, expected):
    """An entry that another evaluation is still producing is never served."""
    set_cache(cache)
    _gate["event"] = threading.Event()
    _gate["entered"] = threading.Event()
    with _gate["lock"]:
        _gate["armed"] = True
    out = {}

    def producer():
        out["p"] = outcome(evaluate("a/slow"))

    def consumer():
        out["c"] = outcome(evaluate("a/slow/inc"))

    tp = threading.Thread(target=producer)
    tp.start()
    if not _gate["entered"].wait(10):
        problem(f"{label}: producer never reached the command")
    # The producer is inside the command now: metadata exists, data does not.
    served = cache.get("a/slow")
    if served is not None:
        problem(f"{label}: unfinished entry 'a/slow' served as {outcome(served)!r}")
    md = cache.get_metadata("a/slow")
    if md is not None and md.get("status") == "ready":
        problem(f"{label}: unfinished entry 'a/slow' has status ready")
    tc = threading.Thread(target=consumer)
    tc.start()
    tc.join(30)  # consumer must not be served the placeholder, computes on its own
    if out.get("c") != ("OK", 1002):
        problem(f"{label}: consumer of unfinished entry got {out.get('c')!r}, expected ('OK', 1002)")
    _gate["event"].set()
    tp.join(30)
    if out.get("p") != ("OK", 1001):
        problem(f"{label}: producer got {out.get('p')!r}, expected ('OK', 1001)")
    exp = {"a/slow": ("OK", 1001), "a/slow/inc": ("OK", 1002), "a": ("OK", 1)}
    check_quiescent_cache(label, cache, exp)


def scenario_error(label, cache):
    """Failing evaluations running concurrently never leave a servable entry."""
    set_cache(cache)
    out = {}

    def run(i, q):
        out[i] = outcome(evaluate(q))

    ts = [
        threading.Thread(target=run, args=(0, "a/boom")),
        threading.Thread(target=run, args=(1, "a/boom/inc")),
        threading.Thread(target=run, args=(2, "a/inc")),
    ]
    for t in ts:
        t.start()
    for t in ts:
        t.join(30)
    if out.get(0) != ("ERROR",) or out.get(1) != ("ERROR",):
        problem(f"{label}: failing queries returned {out.get(0)!r}, {out.get(1)!r}")
    if out.get(2) != ("OK", 2):
        problem(f"{label}: a/inc next to failing queries returned {out.get(2)!r}")
    for q in ("a/boom", "a/boom/inc"):
        if cache.get(q) is not None:
            problem(f"{label}: failed query {q!r} is served from the cache")


def main():
    tmp = tempfile.mkdtemp(prefix="c12check_")
    old_cache = get_cache()
    sink = io.StringIO()
    try:
        with contextlib.redirect_stdout(sink), contextlib.redirect_stderr(sink):
            register_commands()
            set_cache(NoCache())
            expected = {q: evaluate_alone(q) for q in QUERIES}
            sane = {
                "a": ("OK", 1),
                "a/inc": ("OK", 2),
                "a/inc/dbl": ("OK", 4),
                "a/inc/inc-5": ("OK", 7),
                "a/inc/dbl/txt": ("OK", "<4>"),
                "a/inc-~X~/b~E": ("OK", 101),
                "b/inc-~X~/a/inc~E/dbl": ("OK", 204),
                "b": ("OK", 100),
                "b/dbl/txt": ("OK", "<200>"),
            }
            for q, v in sane.items():
                if expected[q] != v:
                    problem(f"reference evaluation of {q!r} gave {expected[q]!r}, expected {v!r}")

            groupings = [
                [["a/inc/dbl/txt", "a/inc"], ["a/inc/inc-5", "a/inc/dbl"]],
                [
                    ["a/inc-~X~/b~E", "b/dbl/txt"],
                    ["b/inc-~X~/a/inc~E/dbl", "a"],
                    ["a/inc/dbl", "b", "a/inc/dbl/txt"],
                ],
                [["a/inc/dbl/txt"], ["a/inc/dbl/txt"], ["a/inc/dbl/txt"]],
            ]
            counter = 0
            for name, factory in cache_factories(tmp):
                for gi, groups in enumerate(groupings):
                    for rep in range(3):
                        counter += 1
                        scenario_threads(
                            f"{name}/g{gi}/r{rep}", factory(counter), expected, groups
                        )
                counter += 1
                scenario_in_progress(f"{name}/in-progress", factory(counter), expected)
                counter += 1
                scenario_error(f"{name}/error", factory(counter))
    except Exception as e:
        import traceback

        problem(f"checker crashed: {e!r}\n{traceback.format_exc()}")
    finally:
        try:
            set_cache(old_cache)
        except Exception:
            pass
        shutil.rmtree(tmp, ignore_errors=True)

    sys.stdout = REAL_STDOUT
    if PROBLEMS:
        print("PROPERTY VIOLATED: " + " | ".join(PROBLEMS[:5]))
        sys.exit(1)
    print("PROPERTY HOLDS")
    sys.exit(0)


if __name__ == "__main__":
    main()
