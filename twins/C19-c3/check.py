"""Standalone check of property C19:
relative resource paths resolve like POSIX path normalisation.

Run as:  cd <repo root> && /venv/bin/python check.py
"""
import os
import sys

sys.path.insert(0, os.getcwd())
sys.dont_write_bytecode = True

import itertools
import posixpath
import random

from liquer.parser import (
    parse,
    Query,
    ResourceQuerySegment,
    TransformQuerySegment,
)


class Violation(Exception):
    pass


def model(directory, components):
    """Reference model. Returns list of names or None when the root would be left."""
    if components and components[0] in (".", ".."):
        full = list(directory) + list(components)
    else:
        full = list(components)
    stack = []
    for c in full:
        if c == ".":
            continue
        if c == "..":
            if not stack:
                return None
            stack.pop()
        else:
            stack.append(c)
    # cross-check against posixpath
    norm = posixpath.normpath("/" + "/".join(full))
    expected = "/" + "/".join(stack)
    if norm != expected:
        raise Violation(f"internal model mismatch {full}: {norm} vs {expected}")
    return stack


DIRS = ["", "d1", "d1/d2", "d1/d2/d3", "d1/x.y/d3/d4"]
ALPHABET = ["a", "b2", ".", "..", "x.y", "c..d"]

# (prefix, suffix, name of the resource segment under test)
SHAPES = [
    ("-R/", "", ""),
    ("-R/", "/-/dr/x.csv", ""),
    ("-R/", "/-/dr-1-abc/second-x/-q/foo-bar", ""),
    ("-Rmeta/", "/-/dr", "meta"),
]


def resolve(q, directory, **kw):
    try:
        return parse(q).to_absolute(directory, **kw)
    except Exception as e:  # the library raises a plain Exception
        if "Can't go up from root" in str(e):
            return None
        raise


def check_one(directory, comps):
    dlist = [x for x in directory.split("/") if x]
    expected = model(dlist, comps)
    path = "/".join(comps)
    for prefix, suffix, name in SHAPES:
        q = prefix + path + suffix
        original = parse(q)
        res = resolve(q, directory, resource_segment_name=name)
        if expected is None:
            if res is not None:
                raise Violation(
                    f"{q!r} in {directory!r}: climbing above root not rejected, got {res.encode()!r}"
                )
            continue
        if res is None:
            raise Violation(f"{q!r} in {directory!r}: unexpectedly rejected")
        if len(res.segments) != len(original.segments):
            raise Violation(f"{q!r} in {directory!r}: number of segments changed")
        seg = res.segments[0]
        if not isinstance(seg, ResourceQuerySegment):
            raise Violation(f"{q!r}: first segment is not a resource segment")
        if seg.path() != "/".join(expected):
            raise Violation(
                f"{q!r} in {directory!r}: got {seg.path()!r}, expected {'/'.join(expected)!r}"
            )
        if [x.encode() for x in seg.query] != expected:
            raise Violation(f"{q!r} in {directory!r}: component list differs")
        # header untouched
        if seg.segment_name() != name or (
            seg.header.encode() != original.segments[0].header.encode()
        ):
            raise Violation(f"{q!r} in {directory!r}: header changed")
        # transformation segments untouched
        for a, b in zip(res.segments[1:], original.segments[1:]):
            if not isinstance(a, TransformQuerySegment) or a.encode() != b.encode():
                raise Violation(f"{q!r} in {directory!r}: transformation changed")
        if res.absolute != original.absolute:
            raise Violation(f"{q!r}: absolute flag changed")
        # encoded form
        exp_enc = prefix.rstrip("/")
        if expected:
            exp_enc += "/" + "/".join(expected)
        exp_enc += suffix
        if res.encode() != exp_enc:
            raise Violation(
                f"{q!r} in {directory!r}: encoded {res.encode()!r}, expected {exp_enc!r}"
            )
        # idempotence (against the same and against another directory)
        for d2 in (directory, "other/dir"):
            again = res.to_absolute(d2, resource_segment_name=name)
            if again.encode() != res.encode():
                raise Violation(
                    f"{q!r} in {directory!r}: not idempotent: {res.encode()!r} -> {again.encode()!r}"
                )
        # a different resource name is selected: nothing changes
        other = parse(q).to_absolute(directory, resource_segment_name="zzz")
        if other.encode() != original.encode():
            raise Violation(f"{q!r}: segment with different name was modified")


def check_headerless():
    cases = [
        ("./a/-/dr-1", "d1/d2", "d1/d2/a/-/dr-1"),
        ("./a/../b/./c.txt/-/dr", "d1", "d1/b/c.txt/-/dr"),
        ("a/b/-/dr", "d1/d2", "a/b/-/dr"),
        ("a/./b/../c/-/dr", "d1/d2", "a/c/-/dr"),
        ("./xx/-/dr", "", "xx/-/dr"),
        ("./../../q/-/dr", "d1/d2/d3", "d1/q/-/dr"),
    ]
    for q, d, expected in cases:
        got = parse(q).to_absolute(d).encode()
        if got != expected:
            raise Violation(f"{q!r} in {d!r}: got {got!r}, expected {expected!r}")
        again = parse(got).to_absolute(d).encode()
        if again != got:
            raise Violation(f"{q!r} in {d!r}: not idempotent")
    for q, d in [("./../../a/-/dr", "d1"), ("a/../../b/-/dr", "d1/d2/d3"), ("./../-/dr", "")]:
        if resolve(q, d) is not None:
            raise Violation(f"{q!r} in {d!r}: climbing above root not rejected")


def check_multi_segment():
    q = "-Rmeta/./x/../y/-R/../z/w.txt/-Rmeta/k/./l/-/dr/-q/foo-1"
    d = "d1/d2"
    table = {
        "": "-Rmeta/./x/../y/-R/d1/z/w.txt/-Rmeta/k/./l/-/dr/-q/foo-1",
        "meta": "-Rmeta/d1/d2/y/-R/../z/w.txt/-Rmeta/k/l/-/dr/-q/foo-1",
        None: "-Rmeta/d1/d2/y/-R/d1/z/w.txt/-Rmeta/k/l/-/dr/-q/foo-1",
        "nothing": q,
    }
    for name, expected in table.items():
        got = parse(q).to_absolute(d, resource_segment_name=name).encode()
        if got != expected:
            raise Violation(
                f"multi-segment, name={name!r}: got {got!r}, expected {expected!r}"
            )
        again = parse(got).to_absolute(d, resource_segment_name=name).encode()
        if again != got:
            raise Violation(f"multi-segment, name={name!r}: not idempotent")
    if parse(q).to_absolute(d).encode() != table[""]:
        raise Violation("default resource segment name is not the unnamed resource")


def check_segment_api():
    # directory given as a string or as a list of parsed names; empty query returns self
    seg = parse("-R/./a/../b").segments[0]
    r1 = seg.to_absolute("d1/d2")
    dir_names = parse("-R/d1/d2").segments[0].query
    r2 = seg.to_absolute(dir_names)
    if r1.encode() != "-R/d1/d2/b" or r2.encode() != "-R/d1/d2/b":
        raise Violation(f"segment API: {r1.encode()!r} / {r2.encode()!r}")
    if seg.encode() != "-R/./a/../b":
        raise Violation("segment API: original segment was mutated")
    if [x.encode() for x in dir_names] != ["d1", "d2"]:
        raise Violation("segment API: directory list was mutated")
    empty = ResourceQuerySegment()
    if empty.to_absolute("d1") is not empty:
        raise Violation("segment API: empty segment not returned unchanged")
    try:
        Query([seg, object()]).to_absolute("d1")
    except ValueError:
        pass
    else:
        raise Violation("unknown segment type not rejected with ValueError")


def check_recipe_definition():
    from liquer.recipes import resolve_recipe_definition
    from liquer.metadata import Metadata

    md = Metadata()
    r = resolve_recipe_definition("./a/../b/-/dr/out.txt", "d1/d2", md)
    expected = dict(
        type="query",
        query="d1/d2/b/-/dr/out.txt",
        original_query="./a/../b/-/dr/out.txt",
        CWD="d1/d2",
        filename="out.txt",
        provides=["out.txt"],
    )
    if r != expected or list(r.keys()) != list(expected.keys()):
        raise Violation(f"recipe definition (str): {r!r}")
    r = resolve_recipe_definition(
        dict(query="-R/../c/-/dr/x.txt", filename="y.txt"), "d1/d2", md
    )
    expected = dict(
        type="query",
        query="-R/d1/c/-/dr/x.txt",
        original_query="-R/../c/-/dr/x.txt",
        title="y.txt",
        description="Generated from query: -R/../c/-/dr/x.txt",
        CWD="d1/d2",
        filename="y.txt",
        provides=["y.txt"],
    )
    if r != expected or list(r.keys()) != list(expected.keys()):
        raise Violation(f"recipe definition (dict): {r!r}")


def main():
    count = 0
    for directory in DIRS:
        for n in range(1, 4):
            for comps in itertools.product(ALPHABET, repeat=n):
                check_one(directory, list(comps))
                count += 1
    rnd = random.Random(19)
    for _ in range(400):
        n = rnd.choice([4, 5, 6])
        comps = [rnd.choice(ALPHABET) for _ in range(n)]
        check_one(rnd.choice(DIRS), comps)
        count += 1
    check_headerless()
    check_multi_segment()
    check_segment_api()
    check_recipe_definition()
    return count


if __name__ == "__main__":
    try:
        n = main()
    except Violation as e:
        print(f"PROPERTY VIOLATED: {e}")
        sys.exit(1)
    except Exception as e:
        import traceback

        traceback.print_exc()
        print(f"PROPERTY VIOLATED: unexpected {type(e).__name__}: {e}")
        sys.exit(1)
    print("PROPERTY HOLDS")
    sys.exit(0)
