"""Standalone check of property C17 (access boundaries).

Run as:  cd <repo root> && /venv/bin/python check.py
Prints "PROPERTY HOLDS" and exits 0, or "PROPERTY VIOLATED: ..." and exits 1.
"""
import os
import sys

sys.path.insert(0, os.getcwd())

import contextlib
import io
import itertools
import shutil
import tempfile
from pathlib import Path

SENTINEL = b"SENTINEL-SECRET-CONTENT"
SENTINEL_NAMES = ("sentinel.txt", "sentinel_dir", "inner_sentinel.txt")


class Violation(Exception):
    pass


def snapshot_tree(base, exclude=None):
    """Snapshot of everything below base (except the excluded directory)."""
    snap = {}
    for dirpath, dirnames, filenames in os.walk(base):
        p = Path(dirpath)
        if exclude is not None and (p == exclude or exclude in p.parents):
            dirnames[:] = []
            continue
        snap[str(p)] = "<dir>"
        for f in filenames:
            snap[str(p / f)] = (p / f).read_bytes()
    return snap


def snapshot_store(store):
    snap = {}
    for key in sorted(store.keys()):
        if store.is_dir(key):
            snap[key] = ("dir", None, None)
        else:
            snap[key] = ("file", store.get_bytes(key), repr(sorted(store.get_metadata(key).items(), key=repr)))
    return snap


def quiet(f, *args, **kwargs):
    """Call f, return (result, exception); stdout/stderr chatter is swallowed."""
    out = io.StringIO()
    try:
        with contextlib.redirect_stdout(out), contextlib.redirect_stderr(out):
            return f(*args, **kwargs), None
    except BaseException as e:  # noqa - AssertionError etc. are legitimate refusals
        if isinstance(e, (KeyboardInterrupt, SystemExit)):
            raise
        return None, e


def reveals_sentinel(value):
    if value is None:
        return False
    if isinstance(value, (bytes, bytearray)):
        return SENTINEL in bytes(value)
    if isinstance(value, str):
        return SENTINEL.decode() in value
    if isinstance(value, dict):
        fp = str(value.get("fileinfo", {}).get("filesystem_path", ""))
        return any(name in fp for name in SENTINEL_NAMES) or any(
            reveals_sentinel(v) for v in value.values()
        )
    if isinstance(value, (list, tuple, set)):
        return any(
            (isinstance(v, str) and v in SENTINEL_NAMES) or reveals_sentinel(v)
            for v in value
        )
    return False


# ---------------------------------------------------------------------------
# Part 1: read-only views
# ---------------------------------------------------------------------------
def check_read_only(make_store, label):
    from liquer.store import ReadOnlyStore, ReadOnlyStoreException

    base = make_store()
    base.store("a/b.txt", b"hello", dict(x=1))
    base.store("c.txt", b"world", {})
    base.makedir("d")
    ro = ReadOnlyStore(base)
    before = snapshot_store(base)

    mutators = [
        ("store", lambda k: ro.store(k, b"new", {})),
        ("store_metadata", lambda k: ro.store_metadata(k, dict(y=2))),
        ("remove", lambda k: ro.remove(k)),
        ("removedir", lambda k: ro.removedir(k)),
        ("removedir_recursive", lambda k: ro.removedir(k, recursive=True)),
        ("makedir", lambda k: ro.makedir(k)),
        ("openbin_w", lambda k: ro.openbin(k, "w")),
        ("openbin_wb", lambda k: ro.openbin(k, "wb")),
        ("openbin_ab", lambda k: ro.openbin(k, "ab")),
        ("openbin_r+b", lambda k: ro.openbin(k, "r+b")),
    ]
    keys = ["a/b.txt", "c.txt", "d", "a", "new.txt", "new/sub.txt", ""]
    # histories: every mutator on every key, in two different orders
    history = list(itertools.product(mutators, keys))
    for (name, op), key in history + list(reversed(history)):
        result, exc = quiet(op, key)
        if hasattr(result, "close"):
            result.close()
        if not isinstance(exc, ReadOnlyStoreException):
            raise Violation(
                f"[{label}] read-only {name}({key!r}) was not refused with ReadOnlyStoreException: result={result!r} exc={exc!r}"
            )
        after = snapshot_store(base)
        if after != before:
            raise Violation(f"[{label}] read-only {name}({key!r}) changed the underlying store")

    # reads are identical
    for key in ["a/b.txt", "c.txt", "d", "a", "", "missing.txt"]:
        for name in ["get_bytes", "get_metadata", "contains", "is_dir", "listdir"]:
            r1, e1 = quiet(getattr(base, name), key)
            r2, e2 = quiet(getattr(ro, name), key)
            if type(e1) != type(e2):
                raise Violation(f"[{label}] read {name}({key!r}) differs in exception: {e1!r} vs {e2!r}")
            if name == "listdir" and r1 is not None and r2 is not None:
                r1, r2 = sorted(r1), sorted(r2)
            if r1 != r2:
                raise Violation(f"[{label}] read {name}({key!r}) differs: {r1!r} vs {r2!r}")
    if sorted(base.keys()) != sorted(ro.keys()):
        raise Violation(f"[{label}] keys() differ through read-only view")
    for mode in ("r", "rb"):
        f, exc = quiet(ro.openbin, "a/b.txt", mode)
        if exc is not None:
            raise Violation(f"[{label}] read-only openbin({mode!r}) failed: {exc!r}")
        try:
            if f.read() != b"hello":
                raise Violation(f"[{label}] read-only openbin({mode!r}) returned wrong data")
        finally:
            f.close()
    if snapshot_store(base) != before:
        raise Violation(f"[{label}] reads changed the underlying store")


# ---------------------------------------------------------------------------
# Part 2: directory store stays in its root
# ---------------------------------------------------------------------------
def build_playground(tmp):
    """tmp/outer/{sentinel.txt, sentinel_dir/inner_sentinel.txt, __metadata__/sentinel.txt.json, root/...}"""
    outer = Path(tmp) / "outer"
    root = outer / "root"
    root.mkdir(parents=True)
    (outer / "sentinel.txt").write_bytes(SENTINEL)
    (outer / "sentinel_dir").mkdir()
    (outer / "sentinel_dir" / "inner_sentinel.txt").write_bytes(SENTINEL)
    (outer / "sentinel_dir" / "__metadata__").mkdir()
    (outer / "__metadata__").mkdir()
    (outer / "__metadata__" / "sentinel.txt.json").write_text('{"status": "ready", "secret": "%s"}' % SENTINEL.decode())
    (Path(tmp) / "sentinel.txt").write_bytes(SENTINEL)
    return outer, root


def escaping_keys(tmp, outer):
    keys = [
        "..",
        "../sentinel.txt",
        "../sentinel_dir",
        "../sentinel_dir/inner_sentinel.txt",
        "../new_outside.txt",
        "../new_outside_dir/x.txt",
        "../../sentinel.txt",
        "sub/../../sentinel.txt",
        "sub/../../new_outside.txt",
        "./../sentinel.txt",
        "sub//../../sentinel.txt",
        "../root/../sentinel.txt",
        "../__metadata__/sentinel.txt.json",
        "../__metadata__",
        "sub/../..",
        "/" + str(outer / "sentinel.txt").lstrip("/"),
        str(outer / "sentinel.txt"),
        str(outer / "new_abs.txt"),
        "/" + str(Path(tmp) / "sentinel.txt").lstrip("/"),
        "//" + str(outer / "sentinel.txt").lstrip("/"),
    ]
    return keys


def inside_keys():
    return [
        "",
        ".",
        "sub",
        "sub/x.txt",
        "./sub/x.txt",
        "sub//y.txt",
        "sub/./z.txt",
        "sub/",
        "__metadata__",
        "sub/__metadata__",
        "sub/__metadata__/x.txt.json",
        "deep/er/file.bin",
    ]


def store_operations(store):
    def write_via_openbin(k):
        with store.openbin(k, "wb") as f:
            f.write(b"written")

    def read_via_openbin(k):
        with store.openbin(k, "rb") as f:
            return f.read()

    return [
        ("get_bytes", store.get_bytes, True),
        ("get_metadata", store.get_metadata, True),
        ("contains", store.contains, True),
        ("is_dir", store.is_dir, True),
        ("listdir", store.listdir, True),
        ("openbin_rb", read_via_openbin, True),
        ("store", lambda k: store.store(k, b"payload", dict(status="ready")), False),
        ("store_metadata", lambda k: store.store_metadata(k, dict(status="ready")), False),
        ("makedir", store.makedir, False),
        ("openbin_wb", write_via_openbin, False),
        ("remove", store.remove, False),
        ("removedir", store.removedir, False),
        ("removedir_recursive", lambda k: store.removedir(k, recursive=True), False),
    ]


def check_directory_store(label, make_store, prefix=""):
    """make_store(root) -> store object through which the FileStore at root is reached under `prefix`."""
    tmp = tempfile.mkdtemp(prefix="c17_")
    try:
        outer, root = build_playground(tmp)
        store = make_store(root)
        outside_before = snapshot_tree(tmp, exclude=root)
        for key in escaping_keys(tmp, outer) + inside_keys():
            escaping = key in escaping_keys(tmp, outer)
            full_key = prefix + key if prefix == "" or key != "" else prefix.rstrip("/")
            for name, op, is_read in store_operations(store):
                result, exc = quiet(op, full_key)
                outside_after = snapshot_tree(tmp, exclude=root)
                if outside_after != outside_before:
                    changed = sorted(set(outside_after) ^ set(outside_before)) or [
                        k for k in outside_before if outside_before[k] != outside_after.get(k)
                    ]
                    raise Violation(
                        f"[{label}] {name}({full_key!r}) changed the file system outside the store root: {changed}"
                    )
                if is_read and reveals_sentinel(result):
                    raise Violation(
                        f"[{label}] {name}({full_key!r}) returned content from outside the store root: {result!r}"
                    )
                if escaping and is_read and name in ("contains", "is_dir") and result is True:
                    raise Violation(
                        f"[{label}] {name}({full_key!r}) reports an object outside the store root"
                    )
        # sanity: ordinary keys still work and land inside root
        key = prefix + "plain/file.txt"
        store.store(key, b"plain", dict(status="ready"))
        if store.get_bytes(key) != b"plain":
            raise Violation(f"[{label}] ordinary store/get_bytes round trip failed")
        if not (root / "plain" / "file.txt").is_file() or not (root / "plain" / "__metadata__" / "file.txt.json").is_file():
            raise Violation(f"[{label}] ordinary key was not written to the expected place inside root")
        if snapshot_tree(tmp, exclude=root) != outside_before:
            raise Violation(f"[{label}] ordinary store changed files outside root")
    finally:
        shutil.rmtree(tmp, ignore_errors=True)


def check_resource_queries():
    """Keys arriving through the resource part of a query."""
    import liquer.store as st
    from liquer.query import evaluate
    from liquer.cache import set_cache, NoCache

    tmp = tempfile.mkdtemp(prefix="c17_")
    old_store = st.STORE
    try:
        outer, root = build_playground(tmp)
        (root / "inside.txt").write_bytes(b"INSIDE")
        (root / "sub").mkdir()
        (root / "sub" / "x.txt").write_bytes(b"SUBX")
        set_cache(NoCache())
        for label, make, prefix in [
            ("query/direct", lambda: st.FileStore(root), ""),
            ("query/mount", lambda: st.MountPointStore().mount("m", st.FileStore(root)), "m/"),
            ("query/mount+indexer", lambda: st.MountPointStore().with_indexer().mount("m", st.FileStore(root)), "m/"),
        ]:
            st.set_store(make())
            outside_before = snapshot_tree(tmp, exclude=root)
            state, exc = quiet(evaluate, f"-R/{prefix}inside.txt")
            if exc is not None or state.get() != b"INSIDE":
                raise Violation(f"[{label}] ordinary resource query failed: {exc!r}")
            paths = [
                "../sentinel.txt",
                "..",
                "../sentinel_dir/inner_sentinel.txt",
                "sub/../../sentinel.txt",
                "./../sentinel.txt",
                "../../sentinel.txt",
                "../__metadata__/sentinel.txt.json",
                "../root/../sentinel.txt",
            ]
            for path in paths:
                for header in ("-R", "-R-meta"):
                    for tail in ("", "/-/dr"):
                        q = f"{header}/{prefix}{path}{tail}"
                        state, exc = quiet(evaluate, q)
                        if snapshot_tree(tmp, exclude=root) != outside_before:
                            raise Violation(f"[{label}] query {q!r} changed files outside the store root")
                        if state is not None:
                            data, _ = quiet(state.get)
                            if reveals_sentinel(data):
                                raise Violation(f"[{label}] query {q!r} returned content from outside the store root: {data!r}")
                            rm = state.metadata.get("resource_metadata")
                            if reveals_sentinel(rm):
                                raise Violation(f"[{label}] query {q!r} returned metadata from outside the store root: {rm!r}")
            # a relative path that stays inside is still fine through the store
            state, exc = quiet(evaluate, f"-R/{prefix}sub/x.txt")
            if exc is not None or state.get() != b"SUBX":
                raise Violation(f"[{label}] nested resource query failed: {exc!r}")
    finally:
        st.set_store(old_store)
        shutil.rmtree(tmp, ignore_errors=True)


def check_parser_accepts_dots():
    """The query language itself accepts '.' and '..' as resource names (the store must refuse them)."""
    from liquer.parser import parse

    q = parse("-R/a/../b/./c.txt")
    seg = q.segments[0]
    if seg.path() != "a/../b/./c.txt":
        raise Violation(f"resource path is not passed unchanged: {seg.path()!r}")
    if q.encode() != "-R/a/../b/./c.txt":
        raise Violation(f"resource query does not round-trip: {q.encode()!r}")


def main():
    import liquer.store as st

    cwd = os.getcwd()
    scratch = tempfile.mkdtemp(prefix="c17_ro_")
    counter = itertools.count()
    try:
        check_read_only(st.MemoryStore, "memory")
        check_read_only(lambda: st.FileStore(Path(scratch) / f"s{next(counter)}"), "file")
        check_read_only(
            lambda: st.MountPointStore(default_store=st.MemoryStore()), "mountpoint"
        )
        check_directory_store("direct", lambda root: st.FileStore(root))
        check_directory_store("direct-str", lambda root: st.FileStore(str(root)))
        check_directory_store(
            "mount", lambda root: st.MountPointStore().mount("m", st.FileStore(root)), prefix="m/"
        )
        check_directory_store(
            "mount+indexer",
            lambda root: st.MountPointStore().with_indexer().mount("x/y", st.FileStore(root)),
            prefix="x/y/",
        )
        check_directory_store(
            "prefix", lambda root: st.PrefixStore(st.FileStore(root), prefix="p"), prefix="p/"
        )
        check_directory_store(
            "overlay",
            lambda root: st.OverlayStore(st.FileStore(root), st.MemoryStore()),
        )
        check_resource_queries()
        check_parser_accepts_dots()
    except Violation as v:
        print(f"PROPERTY VIOLATED: {v}")
        return 1
    finally:
        os.chdir(cwd)
        shutil.rmtree(scratch, ignore_errors=True)
    print("PROPERTY HOLDS")
    return 0


if __name__ == "__main__":
    sys.exit(main())
