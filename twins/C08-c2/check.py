"""Standalone check of property C08:
Recipes materialise on demand, once, as the serialized query result.

Run as:  cd <repo root> && /venv/bin/python check.py
"""
import os
import sys

sys.path.insert(0, os.getcwd())

import contextlib
import io
import shutil
import tempfile
import traceback


class Violation(Exception):
    pass


def check(cond, msg):
    if not cond:
        raise Violation(msg)


CALLS = []


def register_commands():
    from liquer.commands import reset_command_registry, command, first_command

    import importlib
    import liquer.ext.basic
    import liquer.ext.meta

    reset_command_registry()  # prevent double registration on reload
    importlib.reload(liquer.ext.basic)
    importlib.reload(liquer.ext.meta)

    @first_command
    def hello(x):
        CALLS.append(("hello", x))
        return f"Hello, {x}"

    @command
    def c(x):
        CALLS.append(("c",))
        return x

    @first_command
    def mk(n=3):
        CALLS.append(("mk", n))
        return dict(n=int(n), items=list(range(int(n))), name="mk")

    @first_command
    def fail():
        CALLS.append(("fail",))
        raise Exception("Intended failure")


ROOT_RECIPES = """
RECIPES:
  - hello-ROOT/hello1.txt
  - query: mk-4/data.json
    title: "Made data"
    description: "Four items."
  - query: fail/broken.txt
    title: "Broken"
    description: "Always fails."
subdir:
  - query: hello-subdir/hello.txt
    filename: hello2.txt
    title: "Hello 2"
    description: "This is hello 2."
  - ./hello2.txt/-/c/copy_dot.txt
  - ../hello1.txt/-/c/copy_dotdot.txt
"""

DEEP_RECIPES = """
RECIPES:
  - hello-DEEP/deep.txt
  - query: ./deep.txt/-/c/deepcopy.txt
    title: "Deep copy"
    description: "Copy of deep."
sub:
  - ../deep.txt/-/c/up.txt
  - query: mk-2/two.json
"""


def expected_bytes(query, key):
    """Evaluate the query directly and serialize by key extension."""
    from liquer import evaluate
    from liquer.state_types import encode_state_data
    from liquer.store import key_extension

    state = evaluate(query)
    check(not state.is_error, f"direct evaluation of {query} failed")
    b, mime, typeid = encode_state_data(state.get(), extension=key_extension(key))
    return b


def count(name):
    return len([x for x in CALLS if x[0] == name])


def lifecycle(store, key, direct_query, counted, title=None, description=None,
              recipes_key=None, extra_first=None):
    """Full life cycle of one recipe key in the global store.
    counted: name of the instrumented command which must run exactly once per make."""
    from liquer.constants import Status

    # declared before it exists
    check(key in store.keys(), f"{key} not listed in keys()")
    check(store.contains(key), f"{key} not reported present")
    check(not store.is_dir(key), f"{key} reported as a directory")
    parent, name = (key.rsplit("/", 1) + [None])[:2] if "/" in key else ("", key)
    check(name in store.listdir(parent), f"{key} not listed in listdir({parent!r})")
    md = store.get_metadata(key)
    check(md.get("status") == Status.RECIPE.value, f"{key} status before read is {md.get('status')!r}")
    check(md.get("has_recipe") is True, f"{key} has_recipe not set before read")
    if title is not None:
        check(md.get("title") == title, f"{key} title before read {md.get('title')!r}")
    if description is not None:
        check(md.get("description") == description, f"{key} description before read {md.get('description')!r}")
    if recipes_key is not None:
        # (a mounted store may report the key with the mount prefix repeated; only the tail is checked)
        check(str(md.get("recipes_key")).endswith(recipes_key), f"{key} recipes_key {md.get('recipes_key')!r} !~ {recipes_key!r}")

    expected = expected_bytes(direct_query, key)
    del CALLS[:]

    # first read: evaluate once
    b = store.get_bytes(key)
    check(b == expected, f"{key}: bytes {b!r} differ from direct evaluation {expected!r}")
    check(count(counted) == 1, f"{key}: {counted} evaluated {count(counted)} times on the first read")
    md = store.get_metadata(key)
    check(md.get("status") == Status.READY.value, f"{key} status after read is {md.get('status')!r}")
    check(md.get("has_recipe") is True, f"{key} has_recipe lost after read")
    if title is not None:
        check(md.get("title") == title, f"{key} title after read {md.get('title')!r}")
    if description is not None:
        check(md.get("description") == description, f"{key} description after read {md.get('description')!r}")
    rec = md.get("dependencies", {}).get("recipe", {})
    check(bool(rec.get("name")), f"{key}: recipe name not recorded: {rec!r}")
    check(str(rec.get("version", "")).startswith("md5:"), f"{key}: recipe version not recorded: {rec!r}")
    check(rec.get("name") == md.get("recipe_name"), f"{key}: recipe name mismatch {rec.get('name')!r} vs {md.get('recipe_name')!r}")
    if recipes_key is not None:
        check((recipes_key + "/-Ryaml/") in rec["name"], f"{key}: recipe name {rec['name']!r}")
        check(rec["name"].endswith("#" + key.split("/")[-1]), f"{key}: recipe name {rec['name']!r}")
    first_version = rec.get("version")

    # later reads: no re-evaluation
    del CALLS[:]
    for _ in range(3):
        check(store.get_bytes(key) == expected, f"{key}: re-read bytes differ")
        store.get_metadata(key)
        store.keys()
        store.contains(key)
    check(CALLS == [], f"{key}: re-evaluated on later reads: {CALLS!r}")

    # removal returns to recipe state
    store.remove(key)
    check(store.contains(key), f"{key} not present after remove")
    check(key in store.keys(), f"{key} not listed after remove")
    md = store.get_metadata(key)
    check(md.get("status") == Status.RECIPE.value, f"{key} status after remove is {md.get('status')!r}")
    if title is not None:
        check(md.get("title") == title, f"{key} title after remove {md.get('title')!r}")
    check(CALLS == [], f"{key}: evaluated by remove/metadata: {CALLS!r}")

    # re-read evaluates once more
    check(store.get_bytes(key) == expected, f"{key}: bytes after remove+read differ")
    check(count(counted) == 1, f"{key}: {counted} evaluated {count(counted)} times on read after remove")
    md = store.get_metadata(key)
    check(md.get("status") == Status.READY.value, f"{key} status after re-read is {md.get('status')!r}")
    check(md["dependencies"]["recipe"]["version"] == first_version, f"{key}: recipe version changed")


def failing(store, key, title, description):
    from liquer.constants import Status

    check(key in store.keys() and store.contains(key), f"{key} not declared")
    md = store.get_metadata(key)
    check(md.get("status") == Status.RECIPE.value, f"{key} status before read {md.get('status')!r}")
    check(md.get("title") == title, f"{key} title {md.get('title')!r}")
    check(md.get("description") == description, f"{key} description {md.get('description')!r}")
    del CALLS[:]
    data = None
    try:
        data = store.get_bytes(key)
    except Exception:
        data = None
    check(data is None, f"{key}: failing recipe produced data {data!r}")
    check(count("fail") == 1, f"{key}: fail evaluated {count('fail')} times")
    md = store.get_metadata(key)
    check(md.get("status") == Status.ERROR.value, f"{key}: status after failure {md.get('status')!r}")
    check(md.get("is_error") is True, f"{key}: is_error not set after failure")
    check(any(e.get("kind") == "error" for e in md.get("log", [])), f"{key}: no error entry in log")
    check(md.get("title") == title, f"{key} title after failure {md.get('title')!r}")
    check(md.get("has_recipe") is True, f"{key}: has_recipe lost after failure")
    check(md["dependencies"]["recipe"].get("name") == md.get("recipe_name"), f"{key}: recipe name not recorded after failure")


def scenario(make_substore, mount_at):
    import liquer.store as st
    from liquer.recipes import RecipeSpecStore
    from liquer import evaluate
    from liquer.constants import Status

    register_commands()
    st.set_store(None)
    try:
        substore = make_substore()
        substore.store("recipes.yaml", ROOT_RECIPES.encode("utf-8"), {})
        substore.store("p/q/recipes.yaml", DEEP_RECIPES.encode("utf-8"), {})
        rstore = RecipeSpecStore(substore)
        if mount_at is None:
            st.set_store(rstore)
            pre = ""
        else:
            st.set_store(st.MountPointStore())
            st.get_store().mount(mount_at, rstore)
            pre = mount_at + "/"
        store = st.get_store()
        R = "-R/" + pre

        # leaf recipes first (so that dependent recipes evaluate only "c")
        lifecycle(store, pre + "hello1.txt", "hello-ROOT/hello1.txt", "hello",
                  recipes_key=pre + "recipes.yaml")
        lifecycle(store, pre + "data.json", "mk-4/data.json", "mk",
                  title="Made data", description="Four items.", recipes_key=pre + "recipes.yaml")
        lifecycle(store, pre + "subdir/hello2.txt", "hello-subdir/hello.txt", "hello",
                  title="Hello 2", description="This is hello 2.", recipes_key=pre + "recipes.yaml")
        lifecycle(store, pre + "subdir/copy_dot.txt", R + "subdir/hello2.txt/-/c/copy_dot.txt", "c",
                  recipes_key=pre + "recipes.yaml")
        lifecycle(store, pre + "subdir/copy_dotdot.txt", R + "hello1.txt/-/c/copy_dotdot.txt", "c",
                  recipes_key=pre + "recipes.yaml")
        check(store.get_bytes(pre + "subdir/copy_dot.txt") == b"Hello, subdir", "copy_dot content")
        check(store.get_bytes(pre + "subdir/copy_dotdot.txt") == b"Hello, ROOT", "copy_dotdot content")
        failing(store, pre + "broken.txt", "Broken", "Always fails.")

        # deep recipes: read the dependent key first, the dependency must be made on demand once
        del CALLS[:]
        check(store.get_metadata(pre + "p/q/deep.txt")["status"] == Status.RECIPE.value, "deep.txt not a recipe")
        check(store.get_bytes(pre + "p/q/sub/up.txt") == b"Hello, DEEP", "up.txt content")
        check(count("hello") == 1 and count("c") == 1, f"up.txt: calls {CALLS!r}")
        check(store.get_metadata(pre + "p/q/deep.txt")["status"] == Status.READY.value, "deep.txt not made by dependent")
        # deep.txt is already materialised; check it is served without evaluation
        del CALLS[:]
        check(store.get_bytes(pre + "p/q/deep.txt") == b"Hello, DEEP", "deep.txt content")
        check(CALLS == [], f"deep.txt re-evaluated: {CALLS!r}")
        store.remove(pre + "p/q/sub/up.txt")
        lifecycle(store, pre + "p/q/sub/up.txt", R + "p/q/deep.txt/-/c/up.txt", "c",
                  recipes_key=pre + "p/q/recipes.yaml")
        lifecycle(store, pre + "p/q/deepcopy.txt", R + "p/q/deep.txt/-/c/deepcopy.txt", "c",
                  title="Deep copy", description="Copy of deep.", recipes_key=pre + "p/q/recipes.yaml")
        lifecycle(store, pre + "p/q/sub/two.json", "mk-2/two.json", "mk",
                  recipes_key=pre + "p/q/recipes.yaml")

        # listing of directories made only of recipes
        check("sub" in store.listdir(pre + "p/q"), "sub not listed")
        check(store.is_dir(pre + "p/q/sub"), "p/q/sub is not a dir")
        check(sorted(x for x in store.listdir(pre + "p/q/sub") if not x.startswith("recipes_status")) == ["two.json", "up.txt"],
              f"listdir p/q/sub: {store.listdir(pre + 'p/q/sub')!r}")

        # clean_recipes / make_recipes
        d = pre + "subdir"
        removed = evaluate(f"-R-meta/{d}/-/ns-meta/clean_recipes").get()["removed"]
        check(sorted(removed) == sorted([d + "/hello2.txt", d + "/copy_dot.txt", d + "/copy_dotdot.txt"]),
              f"clean_recipes removed {removed!r}")
        for k in removed:
            check(store.get_metadata(k)["status"] == Status.RECIPE.value, f"{k} not recipe after clean_recipes")
            check(store.contains(k), f"{k} not present after clean_recipes")
        check(store.get_metadata(pre + "hello1.txt")["status"] == Status.READY.value, "hello1.txt cleaned by non-recursive clean")
        del CALLS[:]
        processed = evaluate(f"-R-meta/{d}/-/ns-meta/make_recipes").get()["processed"]
        # keys made on demand as dependencies of an earlier key are already ready and are skipped
        check(set(processed) <= set(removed) and len(processed) == len(set(processed)) and processed,
              f"make_recipes processed {processed!r}")
        check(count("hello") == 1 and count("c") == 2, f"make_recipes calls {CALLS!r}")
        for k in removed:
            check(store.get_metadata(k)["status"] == Status.READY.value, f"{k} not ready after make_recipes")
        del CALLS[:]
        check(store.get_bytes(d + "/copy_dot.txt") == b"Hello, subdir", "copy_dot after make_recipes")
        check(CALLS == [], f"re-evaluated after make_recipes: {CALLS!r}")
    finally:
        st.set_store(None)


def main():
    tmp = tempfile.mkdtemp(prefix="c08check_")
    try:
        import liquer.store as st

        n = [0]

        def file_store():
            n[0] += 1
            p = os.path.join(tmp, f"s{n[0]}")
            os.makedirs(p)
            return st.FileStore(p)

        configs = [
            ("memory/unmounted", st.MemoryStore, None),
            ("memory/mounted", st.MemoryStore, "data"),
            ("memory/mounted-deep", st.MemoryStore, "a/b"),
            ("file/unmounted", file_store, None),
            ("file/mounted", file_store, "data"),
        ]
        for name, mk, mount_at in configs:
            out = io.StringIO()
            try:
                with contextlib.redirect_stdout(out), contextlib.redirect_stderr(out):
                    scenario(mk, mount_at)
            except Violation as e:
                print(f"PROPERTY VIOLATED: [{name}] {e}")
                return 1
            except Exception:
                print(f"PROPERTY VIOLATED: [{name}] unexpected exception: {traceback.format_exc()}")
                return 1
        print("PROPERTY HOLDS")
        return 0
    finally:
        shutil.rmtree(tmp, ignore_errors=True)


if __name__ == "__main__":
    sys.exit(main())
